(* The envelope of a built message is the one the call list specifies, for every call sequence -
   given that mailboxes of the class considered survive Display + FromStr with their addresses
   (C17).  The round trip is an explicit hypothesis here, so that C01 says exactly what it adds:
   the builder's re-parse-and-append bookkeeping loses, duplicates and reorders nothing. *)
From LV Require Import Base.Bytes Base.Utf8 Base.Res Model.Address Model.Mailbox Model.Builder Spec.Envelope.
From Coq Require Import Lia Arith PeanoNat.

Section BuilderProofs.
Variable alnum : N -> bool.
Variable idna : ustr -> option ustr.
Variable ip_ok : ustr -> bool.
Variable P : mailbox -> Prop.

Notation from_list := (mailboxes_from_str alnum idna ip_ok).
Notation from_one := (mailbox_from_str alnum idna ip_ok).

Hypothesis H_list : forall L, Forall P L ->
  exists v, show_mailboxes L = Some v /\ exists L', from_list v = Ok L' /\ emails L' = emails L /\ Forall P L'.
Hypothesis H_one : forall m, P m ->
  exists v, show_mailbox m = Some v /\ exists m', from_one v = Ok m' /\ mb_email m' = mb_email m.

Definition kind_eqb (a b : hkind) : bool :=
  match a, b with HFrom, HFrom | HTo, HTo | HCc, HCc | HBcc, HBcc | HReplyTo, HReplyTo => true | _, _ => false end.

Lemma get_set k k' v b : get_raw_k k (set_raw_k k' v b) = if kind_eqb k k' then Some v else get_raw_k k b.
Proof. destruct k, k'; reflexivity. Qed.
Lemma set_other k v b : raw_sender (set_raw_k k v b) = raw_sender b /\ b_env (set_raw_k k v b) = b_env b /\
  drop_bcc (set_raw_k k v b) = drop_bcc b.
Proof. destruct k; cbn; auto. Qed.

Definition op_ok (o : bop) : Prop := match o with BList _ m => P m | BSender m => P m | _ => True end.

(* one list header against the calls made so far *)
Definition LInv (k : hkind) (b : bstate) (done : list bop) : Prop :=
  match get_raw_k k b with
  | None => addrs_of k done = []
  | Some raw => exists L, Forall P L /\ show_mailboxes L = Some raw /\ emails L = addrs_of k done /\ L <> []
  end.
Definition SInv (b : bstate) (done : list bop) : Prop :=
  match raw_sender b with
  | None => last_sender done = None
  | Some raw => exists m, P m /\ show_mailbox m = Some raw /\ last_sender done = Some (mb_email m)
  end.
Definition BInv (b : bstate) (done : list bop) : Prop :=
  (forall k, LInv k b done) /\ SInv b done /\ b_env b = last_envelope done /\ drop_bcc b = negb (keep_bcc done).

Lemma addrs_snoc k done o : addrs_of k (done ++ [o]) = addrs_of k done ++ addrs_of k [o].
Proof. unfold addrs_of. rewrite flat_map_app. reflexivity. Qed.
Lemma last_sender_snoc done o : last_sender (done ++ [o]) = match o with BSender m => Some (mb_email m) | _ => last_sender done end.
Proof. unfold last_sender. rewrite fold_left_app. cbn. destruct o; reflexivity. Qed.
Lemma last_env_snoc done o : last_envelope (done ++ [o]) = match o with BEnvelope e => Some e | _ => last_envelope done end.
Proof. unfold last_envelope. rewrite fold_left_app. cbn. destruct o; reflexivity. Qed.
Lemma keep_snoc done o : keep_bcc (done ++ [o]) = keep_bcc done || match o with BKeepBcc => true | _ => false end.
Proof. unfold keep_bcc. rewrite existsb_app. cbn. rewrite orb_false_r. reflexivity. Qed.

(* what get::<H>() reads *)
Lemma get_list_inv k b done : LInv k b done ->
  match get_list alnum idna ip_ok k b with
  | Some L' => emails L' = addrs_of k done /\ Forall P L' /\ get_raw_k k b <> None
  | None => get_raw_k k b = None /\ addrs_of k done = []
  end.
Proof.
  unfold LInv, get_list. destruct (get_raw_k k b) as [raw|]; [|auto].
  intros (L & HP & Hs & He & _). destruct (H_list L HP) as (v & Hv & L' & HL' & E' & P').
  rewrite Hs in Hv. inversion Hv; subst v. rewrite HL'. repeat split; auto; congruence.
Qed.

Lemma addrs_of_single k k' m : addrs_of k [BList k' m] = if kind_eqb k k' then [mb_email m] else [].
Proof. destruct k, k'; reflexivity. Qed.

Lemma step_inv o b done : BInv b done -> op_ok o ->
  exists b', b_step alnum idna ip_ok o b = Ok b' /\ BInv b' (done ++ [o]).
Proof.
  intros (HL & HS & HE & HD) Ho. destruct o as [k m|m|e|]; cbn [b_step op_ok] in *.
  - pose proof (get_list_inv k b done (HL k)) as G.
    set (ms := match get_list alnum idna ip_ok k b with Some old => old ++ [m] | None => [m] end).
    assert (Hms : Forall P ms /\ emails ms = addrs_of k done ++ [mb_email m] /\ ms <> []).
    { unfold ms. destruct (get_list alnum idna ip_ok k b) as [old|].
      - destruct G as (E & F & _). split; [apply Forall_app; split; [exact F|constructor; [exact Ho|constructor]]|].
        split; [unfold emails in *; rewrite map_app, E; reflexivity|]. intros X. apply app_eq_nil in X. destruct X; discriminate.
      - destruct G as (_ & E). rewrite E. split; [constructor; [exact Ho|constructor]|]. split; [reflexivity|discriminate]. }
    destruct Hms as (Fms & Ems & Nms). destruct (H_list ms Fms) as (v & Hv & _). rewrite Hv.
    eexists; split; [reflexivity|]. destruct (set_other k v b) as (S1 & S2 & S3).
    split; [|split; [|split]].
    + intros k2. unfold LInv. rewrite get_set, addrs_snoc, addrs_of_single.
      destruct (kind_eqb k2 k) eqn:Ek.
      * assert (k2 = k) by (destruct k2, k; try discriminate; reflexivity). subst k2.
        exists ms. rewrite Ems. repeat split; auto.
      * rewrite app_nil_r. exact (HL k2).
    + unfold SInv. rewrite S1, last_sender_snoc. exact HS.
    + rewrite S2, last_env_snoc. exact HE.
    + rewrite S3, keep_snoc, orb_false_r. exact HD.
  - destruct (H_one m Ho) as (v & Hv & _). rewrite Hv. eexists; split; [reflexivity|].
    split; [|split; [|split]]; cbn.
    + intros k2. unfold LInv. replace (get_raw_k k2 _) with (get_raw_k k2 b) by (destruct k2; reflexivity).
      rewrite addrs_snoc. replace (addrs_of k2 [BSender m]) with (@nil ustr) by (destruct k2; reflexivity).
      rewrite app_nil_r. exact (HL k2).
    + unfold SInv. cbn. exists m. rewrite last_sender_snoc. auto.
    + rewrite last_env_snoc. exact HE.
    + rewrite keep_snoc, orb_false_r. exact HD.
  - eexists; split; [reflexivity|]. split; [|split; [|split]]; cbn.
    + intros k2. unfold LInv. replace (get_raw_k k2 _) with (get_raw_k k2 b) by (destruct k2; reflexivity).
      rewrite addrs_snoc. replace (addrs_of k2 [BEnvelope e]) with (@nil ustr) by (destruct k2; reflexivity).
      rewrite app_nil_r. exact (HL k2).
    + unfold SInv. cbn. rewrite last_sender_snoc. exact HS.
    + rewrite last_env_snoc. reflexivity.
    + rewrite keep_snoc, orb_false_r. exact HD.
  - eexists; split; [reflexivity|]. split; [|split; [|split]]; cbn.
    + intros k2. unfold LInv. replace (get_raw_k k2 _) with (get_raw_k k2 b) by (destruct k2; reflexivity).
      rewrite addrs_snoc. replace (addrs_of k2 [BKeepBcc]) with (@nil ustr) by (destruct k2; reflexivity).
      rewrite app_nil_r. exact (HL k2).
    + unfold SInv. cbn. rewrite last_sender_snoc. exact HS.
    + rewrite last_env_snoc. exact HE.
    + rewrite keep_snoc. cbn. rewrite orb_true_r. reflexivity.
Qed.

Lemma steps_inv ops : forall b done, BInv b done -> Forall op_ok ops ->
  exists b', b_steps alnum idna ip_ok ops b = Ok b' /\ BInv b' (done ++ ops).
Proof.
  induction ops as [|o ops IH]; intros b done HI HF.
  - exists b. rewrite app_nil_r. auto.
  - inversion HF; subst. destruct (step_inv o b done HI H1) as (b1 & E1 & I1). cbn [b_steps]. rewrite E1.
    destruct (IH b1 (done ++ [o]) I1 H2) as (b2 & E2 & I2). exists b2. rewrite <- app_assoc in I2. auto.
Qed.

Lemma init_inv : BInv b_init [].
Proof. split; [intros k; destruct k; reflexivity|]. repeat split. Qed.

Lemma get_sender_inv b done : SInv b done ->
  match get_sender alnum idna ip_ok b with
  | Some m' => last_sender done = Some (mb_email m')
  | None => last_sender done = None
  end.
Proof.
  unfold SInv, get_sender. destruct (raw_sender b) as [raw|]; [|auto].
  intros (m & Pm & Hs & Hl). destruct (H_one m Pm) as (v & Hv & m' & Hm' & E). rewrite Hs in Hv. inversion Hv; subst.
  rewrite Hm'. congruence.
Qed.

Lemma emails_length L : length (emails L) = length L.
Proof. apply map_length. Qed.

Theorem build_eq_spec ops : Forall op_ok ops -> build_ops alnum idna ip_ok ops = spec_build ops.
Proof.
  intros HF. unfold build_ops. destruct (steps_inv ops b_init [] init_inv HF) as (b & E & (HL & HS & HE & HD)).
  cbn [app] in *. rewrite E. unfold b_build, spec_build.
  pose proof (get_list_inv HFrom b ops (HL HFrom)) as GF.
  pose proof (get_sender_inv b ops HS) as GS.
  destruct (get_list alnum idna ip_ok HFrom b) as [fs|].
  2:{ destruct GF as (_ & ->). reflexivity. }
  destruct GF as (EF & PF & NF).
  assert (Hfn : addrs_of HFrom ops <> []).
  { pose proof (HL HFrom) as L. unfold LInv in L. destruct (get_raw_k HFrom b); [|contradiction].
    destruct L as (L0 & _ & _ & E0 & N0). rewrite <- E0. destruct L0; [contradiction|discriminate]. }
  destruct (addrs_of HFrom ops) as [|f0 fr] eqn:EA; [contradiction|]. rewrite <- EA in *.
  rewrite <- EF, emails_length.
  assert (Sn : match get_sender alnum idna ip_ok b with None => true | Some _ => false end =
               match last_sender ops with None => true | Some _ => false end).
  { destruct (get_sender alnum idna ip_ok b); rewrite GS; reflexivity. }
  rewrite Sn. destruct (Nat.ltb 1 (length fs) && _) eqn:TM; [reflexivity|].
  (* Bcc flag *)
  assert (Bl : negb (drop_bcc b) && match raw_bcc b with Some _ => true | None => false end =
               keep_bcc ops && match addrs_of HBcc ops with [] => false | _ => true end).
  { rewrite HD, negb_involutive. f_equal. pose proof (HL HBcc) as L. unfold LInv in L. cbn [get_raw_k] in L.
    destruct (raw_bcc b).
    - destruct L as (L0 & _ & _ & E0 & N0). rewrite <- E0. destruct L0; [contradiction|reflexivity].
    - rewrite L. reflexivity. }
  rewrite HE. destruct (last_envelope ops) as [e|]; [rewrite Bl; reflexivity|].
  unfold envelope_of_headers.
  pose proof (get_list_inv HTo b ops (HL HTo)) as GT. pose proof (get_list_inv HCc b ops (HL HCc)) as GC.
  pose proof (get_list_inv HBcc b ops (HL HBcc)) as GB.
  assert (ET : emails (match get_list alnum idna ip_ok HTo b with Some l => l | None => [] end) = addrs_of HTo ops)
    by (destruct (get_list alnum idna ip_ok HTo b); [tauto|destruct GT as (_ & ->); reflexivity]).
  assert (EC : emails (match get_list alnum idna ip_ok HCc b with Some l => l | None => [] end) = addrs_of HCc ops)
    by (destruct (get_list alnum idna ip_ok HCc b); [tauto|destruct GC as (_ & ->); reflexivity]).
  assert (EB : emails (match get_list alnum idna ip_ok HBcc b with Some l => l | None => [] end) = addrs_of HBcc ops)
    by (destruct (get_list alnum idna ip_ok HBcc b); [tauto|destruct GB as (_ & ->); reflexivity]).
  rewrite ET, EC, EB.
  destruct (get_sender alnum idna ip_ok b) as [sm|] eqn:Egs.
  - rewrite GS. destruct (addrs_of HTo ops ++ addrs_of HCc ops ++ addrs_of HBcc ops); [reflexivity|]. rewrite Bl. reflexivity.
  - rewrite GS. rewrite GS in TM. cbn [andb] in TM. rewrite andb_true_r in TM.
    pose proof (get_list_inv HFrom b ops (HL HFrom)) as GF2.
    destruct (get_list alnum idna ip_ok HFrom b) as [fs2|] eqn:Eg2.
    2:{ destruct GF2 as (_ & X). rewrite X in Hfn. contradiction. }
    destruct GF2 as (EF2 & _ & _).
    assert (Lfs : length fs2 = length (addrs_of HFrom ops)) by (rewrite <- EF2, emails_length; reflexivity).
    assert (Lfs1 : length fs = length (addrs_of HFrom ops)) by (rewrite <- EF, emails_length; reflexivity).
    rewrite Lfs. rewrite Lfs1 in TM. rewrite TM.
    (* exactly one From *)
    apply Nat.ltb_ge in TM. rewrite EA in TM. destruct fr; [|cbn in TM; lia].
    rewrite EA in *. destruct fs2 as [|m2 [|? ?]]; cbn in Lfs; try lia. cbn [rev app].
    cbn in EF2. inversion EF2; subst.
    destruct (addrs_of HTo ops ++ addrs_of HCc ops ++ addrs_of HBcc ops); [reflexivity|]. rewrite Bl. reflexivity.
Qed.
End BuilderProofs.
