(* Header value encoder: every emitted field body is safe (printable ASCII / TAB, and CR LF only
   as CRLF followed by SP), for ALL input byte strings; a header section built from such bodies
   is read back by the RFC 5322 splitter as exactly the fields that were written. *)
From Coq Require Import Strings.String.
From LV Require Import Base.Bytes Base.Str Base.Utf8 Base.Res Base.Base64 Model.HeaderEnc Spec.Rfc5322.
From Coq Require Import Lia Arith PeanoNat.
Local Arguments N.eqb : simpl never.
Local Arguments N.leb : simpl never.
Local Arguments N.ltb : simpl never.

(* ---------- the safety scanner ---------- *)
Inductive sst := SN | SC | SL.       (* normal / after CR / after CRLF (a SP must follow) *)
Definition pbyte (b : N) : bool := (b =? 9) || ((32 <=? b) && (b <=? 126)).
Definition scan_step (s : sst) (b : N) : option sst :=
  match s with
  | SN => if pbyte b then Some SN else if b =? CR then Some SC else None
  | SC => if b =? LF then Some SL else None
  | SL => if b =? SP then Some SN else None
  end.
Fixpoint scan (s : sst) (l : bytes) : option sst :=
  match l with
  | [] => Some s
  | b :: r => match scan_step s b with Some s' => scan s' r | None => None end
  end.
Definition body_safe (e : bytes) : Prop := scan SN e = Some SN.

Lemma scan_app s a b : scan s (a ++ b) = match scan s a with Some s' => scan s' b | None => None end.
Proof. revert s; induction a as [|x a IH]; intros s; cbn; [reflexivity|]. destruct (scan_step s x); auto. Qed.

Definition all_p (l : bytes) : bool := forallb pbyte l.
Lemma scan_all_p l : all_p l = true -> scan SN l = Some SN.
Proof.
  induction l as [|b l IH]; cbn; [auto|]. intros H. apply andb_prop in H. destruct H as [Hb Hl].
  rewrite Hb. auto.
Qed.
Lemma all_p_sp_run n : all_p (sp_run n) = true.
Proof. induction n; cbn; auto. Qed.
Lemma all_p_app a b : all_p (a ++ b) = all_p a && all_p b.
Proof. apply forallb_app. Qed.

(* ---------- the invariant tying the writer state to the scanner state ---------- *)
Definition Inv (st : wst) (s : sst) : Prop :=
  s = SN \/ (s = SL /\ (1 <= spaces st)%nat /\ can_fold st = false /\ line_len st = 0%nat).

Definition step_ok (st : wst) (s : sst) (r : wst * bytes) : Prop :=
  exists s', scan s (snd r) = Some s' /\ Inv (fst r) s'.

Lemma scan_L_spaces n : (1 <= n)%nat -> scan SL (sp_run n) = Some SN.
Proof. destruct n; [lia|]. intros _. cbn. apply scan_all_p. apply all_p_sp_run. Qed.

Lemma write_spaces_ok st s : Inv st s -> exists s', scan s (snd (w_write_spaces st)) = Some s' /\ s' = SN.
Proof.
  intros [->|(-> & Hs & _)]; cbn.
  - exists SN. split; [apply scan_all_p, all_p_sp_run | reflexivity].
  - exists SN. split; [apply scan_L_spaces; exact Hs | reflexivity].
Qed.

Lemma frev_all_p l : all_p (frev l) = all_p l.
Proof.
  rewrite frev_rev. unfold all_p. induction l as [|x l IH]; [reflexivity|]. cbn [rev forallb].
  rewrite forallb_app, IH. cbn. rewrite andb_true_r. apply andb_comm.
Qed.
Lemma trim_rev_all_p r : all_p r = true -> all_p (trim_end_sp_rev r) = true.
Proof. induction r as [|b r IH]; cbn; [auto|]. intros H. destruct (b =? SP); [apply andb_prop in H; tauto|exact H]. Qed.
Lemma trim_end_all_p s : all_p s = true -> all_p (trim_end_sp s) = true.
Proof. intros H. unfold trim_end_sp. rewrite frev_all_p. apply trim_rev_all_p. rewrite frev_all_p. exact H. Qed.

Lemma write_spaces_scan st s : Inv st s -> scan s (sp_run (spaces st)) = Some SN.
Proof.
  intros [->|(-> & Hs & _)]; [apply scan_all_p, all_p_sp_run | apply scan_L_spaces; exact Hs].
Qed.

Lemma write_str_ok x st s : all_p x = true -> Inv st s -> step_ok st s (w_write_str x st).
Proof.
  intros Hx HI. pose proof (write_spaces_scan st s HI) as H1.
  pose proof (trim_end_all_p x Hx) as Ht.
  unfold step_ok, w_write_str, w_write_spaces.
  destruct (trim_end_sp x) as [|y t] eqn:E; cbn [fst snd].
  - exists SN. split; [exact H1 | left; reflexivity].
  - exists SN. split; [|left; reflexivity].
    rewrite scan_app, H1. apply scan_all_p. exact Ht.
Qed.

Lemma write_char_ok c st s : all_p c = true -> Inv st s -> step_ok st s (w_write_char c st).
Proof.
  intros Hc HI. unfold step_ok, w_write_char, w_write_spaces. destruct (list_eqb c [SP]); cbn [fst snd].
  - exists s. split; [reflexivity|]. destruct HI as [->|(-> & A & B & C)]; [left; reflexivity|].
    right. cbn. repeat split; auto; lia.
  - pose proof (write_spaces_scan st s HI) as H1.
    exists SN. split; [|left; reflexivity]. rewrite scan_app, H1. apply scan_all_p. exact Hc.
Qed.

Lemma space_ok st s : Inv st s -> Inv (w_space st) s.
Proof. intros [->|(-> & A & B & C)]; [left; reflexivity|]. right. cbn. repeat split; auto; lia. Qed.
Lemma add_spaces_ok n st s : Inv st s -> Inv (add_spaces n st) s.
Proof. intros [->|(-> & A & B & C)]; [left; reflexivity|]. right. cbn. repeat split; auto; lia. Qed.

Lemma new_line_ok st : (1 <= spaces st)%nat -> step_ok st SN (w_new_line st).
Proof. intros H. exists SL. cbn. split; [reflexivity|]. right. repeat split; auto. Qed.

Lemma step_ok_then st s r (k : wst -> wst * bytes) :
  step_ok st s r -> (forall s', Inv (fst r) s' -> step_ok (fst r) s' (k (fst r))) ->
  step_ok st s (fst (k (fst r)), snd r ++ snd (k (fst r))).
Proof.
  intros (s1 & H1 & I1) Hk. destruct (Hk s1 I1) as (s2 & H2 & I2).
  exists s2. cbn [fst snd]. rewrite scan_app, H1. auto.
Qed.

Lemma fold_word_ok w st s : all_p w = true -> Inv st s -> step_ok st s (fold_word w st).
Proof.
  intros Hw HI. unfold fold_word.
  destruct (can_fold st && Nat.leb 1 (spaces st) && Nat.ltb MAX_LINE_LEN (line_len st + spaces st + length w)) eqn:E.
  - apply andb_prop in E. destruct E as [E _]. apply andb_prop in E. destruct E as [Ec Es].
    apply Nat.leb_le in Es.
    assert (s = SN) as -> by (destruct HI as [->|(-> & _ & B & _)]; [reflexivity|congruence]).
    destruct (new_line_ok st Es) as (s1 & H1 & I1).
    unfold w_new_line in *. cbn [fst snd] in H1, I1.
    destruct (write_str_ok w _ s1 Hw I1) as (s2 & H2 & I2).
    destruct (w_write_str w (mkW 0 (spaces st) false)) as [st2 o2]. cbn [fst snd] in *.
    exists s2. cbn [fst snd]. split; [|exact I2]. rewrite scan_app, H1. exact H2.
  - destruct (write_str_ok w st s Hw HI) as (s2 & H2 & I2).
    destruct (w_write_str w st) as [st2 o2]. cbn [fst snd app] in *. exists s2. auto.
Qed.

Definition tok_p (t : token) : bool := match t with TSp => true | TWord w => all_p w end.

Lemma fold_tokens_ok ts : forall st s, forallb tok_p ts = true -> Inv st s -> step_ok st s (fold_tokens ts st).
Proof.
  induction ts as [|t ts IH]; intros st s Hp HI; cbn [fold_tokens].
  - exists s. cbn. auto.
  - cbn [forallb] in Hp. apply andb_prop in Hp. destruct Hp as [Ht Hts]. destruct t as [|w].
    + apply IH; [exact Hts | apply space_ok; exact HI].
    + destruct (fold_word_ok w st s Ht HI) as (s1 & H1 & I1).
      destruct (fold_word w st) as [st1 o1]. cbn [fst snd] in *.
      destruct (IH st1 s1 Hts I1) as (s2 & H2 & I2).
      destruct (fold_tokens ts st1) as [st2 o2]. cbn [fst snd] in *.
      exists s2. cbn [fst snd]. split; [|exact I2]. rewrite scan_app, H1. exact H2.
Qed.

Lemma tokens_go_p s : forall cur, all_p s = true -> all_p cur = true -> forallb tok_p (tokens_go s cur) = true.
Proof.
  induction s as [|b r IH]; intros cur Hs Hc; cbn [tokens_go].
  - destruct cur as [|c cur']; [reflexivity|]. cbn [forallb tok_p]. rewrite frev_all_p, Hc. reflexivity.
  - unfold all_p in Hs. cbn [forallb] in Hs. apply andb_prop in Hs. destruct Hs as [Hb Hr]. destruct (b =? SP).
    + destruct cur as [|c cur']; cbn [forallb tok_p]; [apply IH; auto|]. rewrite frev_all_p, Hc. cbn [andb]. apply IH; auto.
    + apply IH; [exact Hr|]. unfold all_p. cbn [forallb]. rewrite Hb. exact Hc.
Qed.

Lemma fold_write_str_ok x st s : all_p x = true -> Inv st s -> step_ok st s (fold_write_str x st).
Proof. intros Hx HI. unfold fold_write_str. apply fold_tokens_ok; [|exact HI]. apply tokens_go_p; auto. Qed.

(* ---------- base64 text and the encoded-word frame are printable ---------- *)
From Coq Require Import ZArith ZifyBool ZifyN.
Lemma b64_char_p v : pbyte (b64_char v) = true.
Proof. unfold pbyte, b64_char. destruct (v <? 26) eqn:A; [lia|]. destruct (v <? 52) eqn:B; [lia|].
       destruct (v <? 62) eqn:C; [lia|]. destruct (v =? 62); reflexivity. Qed.

Lemma b64enc_p_n n : forall w, (length w <= n)%nat -> all_p (b64enc w) = true.
Proof.
  induction n as [|n IH]; intros w Hl.
  - destruct w; [reflexivity|cbn in Hl; lia].
  - destruct w as [|a [|b [|c r]]]; [reflexivity| | |].
    + cbn [b64enc all_p forallb]. rewrite !b64_char_p. reflexivity.
    + cbn [b64enc all_p forallb]. rewrite !b64_char_p. reflexivity.
    + cbn [b64enc]. unfold all_p. cbn [forallb]. rewrite !b64_char_p. cbn [andb].
      apply (IH r). cbn in Hl. lia.
Qed.
Lemma b64enc_p w : all_p (b64enc w) = true.
Proof. apply (b64enc_p_n (length w)). lia. Qed.

Lemma enc_start_p : all_p ENC_START = true. Proof. reflexivity. Qed.
Lemma enc_end_p : all_p ENC_END = true. Proof. reflexivity. Qed.

(* ---------- rfc2047::encode ---------- *)
Definition res_ok (st : wst) (s : sst) (r : res unit (wst * bytes)) : Prop :=
  match r with
  | Ok x => step_ok st s x
  | _ => True
  end.

Definition word_of (s : bytes) (st : wst) : bytes :=
  trunc_go s (length (firstn (Nat.mul (Nat.div (MAX_LINE_LEN - (10 + 2 + line_len st + 2)) 4) 3) s)).

(* after a line break with nothing written yet, an empty `word` repeats for ever: the model runs
   out of fuel (never happens for valid UTF-8, which has a boundary among any four positions) *)
Lemma stuck_panics f : forall s wrote st, s <> [] -> word_of s st = [] ->
  line_len st = 0%nat -> can_fold st = false -> (1 <= spaces st)%nat ->
  rfc2047_go f s wrote st = Panic.
Proof.
  induction f as [|f IH]; intros s wrote st Hs Hw Hl Hc Hsp; [reflexivity|].
  cbn [rfc2047_go]. destruct s as [|b0 r]; [contradiction|].
  unfold word_of in Hw. rewrite Hw.
  replace (wrote || Nat.leb 1 (spaces st)) with true
    by (symmetry; apply orb_true_iff; right; apply Nat.leb_le; exact Hsp).
  unfold w_new_line. cbn [spaces].
  replace (Nat.leb 1 (spaces st)) with true by (symmetry; apply Nat.leb_le; exact Hsp).
  assert (Est : mkW 0 (spaces st) false = st) by (destruct st; cbn in *; subst; reflexivity).
  rewrite Est. rewrite (IH (b0 :: r) wrote st Hs Hw Hl Hc Hsp). reflexivity.
Qed.

Lemma go_word_ok (word : bytes) st s :
  Inv st s ->
  let '(st1, o1) := w_write_str ENC_START st in
  let '(st2, o2) := w_write_str (b64enc word) st1 in
  let '(st3, o3) := w_write_str ENC_END st2 in
  scan s (o1 ++ o2 ++ o3) = Some SN /\ Inv st3 SN.
Proof.
  intros HI.
  destruct (write_str_ok ENC_START st s enc_start_p HI) as (s1 & H1 & I1).
  destruct (w_write_str ENC_START st) as [st1 o1]. cbn [fst snd] in *.
  destruct (write_str_ok (b64enc word) st1 s1 (b64enc_p word) I1) as (s2 & H2 & I2).
  destruct (w_write_str (b64enc word) st1) as [st2 o2]. cbn [fst snd] in *.
  destruct (write_str_ok ENC_END st2 s2 enc_end_p I2) as (s3 & H3 & I3).
  destruct (w_write_str ENC_END st2) as [st3 o3] eqn:E3. cbn [fst snd] in *.
  (* the last write is not empty, so the scanner is back to normal *)
  assert (s3 = SN /\ Inv st3 SN) as [-> I3'].
  { unfold w_write_str, w_write_spaces in E3. cbn in E3. inversion E3; subst.
    rewrite scan_app in H3. destruct (scan s2 (sp_run (spaces st2))) as [sx|] eqn:Ex; [|discriminate].
    assert (sx = SN).
    { destruct I2 as [->|(-> & A & _)].
      - rewrite scan_all_p in Ex by apply all_p_sp_run. congruence.
      - rewrite scan_L_spaces in Ex by exact A. congruence. }
    subst sx. cbn in H3. inversion H3. split; [reflexivity | left; reflexivity]. }
  split; [|exact I3']. rewrite scan_app, H1, scan_app, H2. exact H3.
Qed.

Lemma rfc2047_go_ok fuel : forall s wrote st sc, Inv st sc -> res_ok st sc (rfc2047_go fuel s wrote st).
Proof.
  induction fuel as [|f IH]; intros s wrote st sc HI; [exact I|].
  cbn [rfc2047_go]. destruct s as [|b0 r]; [exists sc; cbn; auto|].
  fold (word_of (b0 :: r) st).
  assert (GW : forall word, res_ok st sc
    (let '(st1, o1) := w_write_str ENC_START st in
     let '(st2, o2) := w_write_str (b64enc word) st1 in
     let '(st3, o3) := w_write_str ENC_END st2 in
     match rfc2047_go f (skipn (length word) (b0 :: r)) true st3 with
     | Ok (st4, o4) => Ok (st4, o1 ++ o2 ++ o3 ++ o4)
     | Err e => Err e | Panic => Panic
     end)).
  { intros word. pose proof (go_word_ok word st sc HI) as G.
    destruct (w_write_str ENC_START st) as [st1 o1].
    destruct (w_write_str (b64enc word) st1) as [st2 o2].
    destruct (w_write_str ENC_END st2) as [st3 o3]. destruct G as [G1 G2].
    specialize (IH (skipn (length word) (b0 :: r)) true st3 SN G2).
    destruct (rfc2047_go f (skipn (length word) (b0 :: r)) true st3) as [[st4 o4]| |]; cbn [res_ok] in *; auto.
    destruct IH as (s4 & H4 & I4). exists s4. cbn [fst snd] in *. split; [|exact I4].
    rewrite !app_assoc. rewrite scan_app. rewrite <- !app_assoc. rewrite G1. exact H4. }
  destruct (word_of (b0 :: r) st) as [|w0 wr] eqn:EW.
  - destruct (wrote || Nat.leb 1 (spaces st)) eqn:EC.
    + destruct HI as [->|(-> & A & B & C)].
      * (* normal: break the line, make sure a space is pending *)
        unfold w_new_line. cbn [spaces].
        set (st2 := if Nat.leb 1 (spaces st) then mkW 0 (spaces st) false else w_space (mkW 0 (spaces st) false)).
        assert (I2 : Inv st2 SL).
        { right. unfold st2. destruct (Nat.leb 1 (spaces st)) eqn:E1; cbn.
          - apply Nat.leb_le in E1. repeat split; auto.
          - repeat split; auto; lia. }
        specialize (IH (b0 :: r) wrote st2 SL I2).
        destruct (rfc2047_go f (b0 :: r) wrote st2) as [[st3 o3]| |]; cbn [res_ok] in *; auto.
      * (* already right after a break: the same step repeats until the fuel is gone *)
        unfold w_new_line. cbn [spaces].
        replace (Nat.leb 1 (spaces st)) with true by (symmetry; apply Nat.leb_le; exact A).
        assert (Est : mkW 0 (spaces st) false = st) by (destruct st; cbn in *; subst; reflexivity).
        rewrite Est. rewrite (stuck_panics f (b0 :: r) wrote st); [exact I|discriminate|exact EW|exact C|exact B|exact A].
    + apply GW.
  - apply GW.
Qed.

Lemma rfc2047_encode_ok s st sc : Inv st sc -> res_ok st sc (rfc2047_encode s st).
Proof. apply rfc2047_go_ok. Qed.

(* ---------- HeaderValueEncoder ---------- *)
Lemma allowed_all_p w : allowed_str w = true -> all_p w = true.
Proof. unfold allowed_str. intros H. apply andb_prop in H. destruct H as [H _]. exact H. Qed.

Lemma flush_ok buf st sc : Inv st sc -> res_ok st sc (flush_encode_buf buf st).
Proof.
  intros HI. unfold flush_encode_buf. destruct buf as [|b buf']; [exists sc; cbn; auto|].
  pose proof (rfc2047_encode_ok (trim_end_sp (frev (b :: buf'))) st sc HI) as R.
  destruct (rfc2047_encode (trim_end_sp (frev (b :: buf'))) st) as [[st1 o1]| |]; cbn [res_ok] in *; auto.
  destruct R as (s1 & H1 & I1). exists s1. cbn [fst snd] in *. split; [exact H1|]. apply add_spaces_ok. exact I1.
Qed.

Lemma hv_format_ok words : forall buf st sc, Inv st sc -> res_ok st sc (hv_format words buf st).
Proof.
  induction words as [|w r IH]; intros buf st sc HI; cbn [hv_format].
  - apply flush_ok. exact HI.
  - destruct (allowed_str w && negb _) eqn:E.
    + apply andb_prop in E. destruct E as [Ea _]. apply allowed_all_p in Ea.
      pose proof (flush_ok buf st sc HI) as F.
      destruct (flush_encode_buf buf st) as [[st1 o1]| |]; cbn [res_ok] in *; auto.
      destruct F as (s1 & H1 & I1). cbn [fst snd] in *.
      destruct (fold_write_str_ok w st1 s1 Ea I1) as (s2 & H2 & I2).
      destruct (fold_write_str w st1) as [st2 o2]. cbn [fst snd] in *.
      specialize (IH [] st2 s2 I2).
      destruct (hv_format r [] st2) as [[st3 o3]| |]; cbn [res_ok] in *; auto.
      destruct IH as (s3 & H3 & I3). exists s3. cbn [fst snd] in *. split; [|exact I3].
      rewrite scan_app, H1, scan_app, H2. exact H3.
    + apply IH. exact HI.
Qed.

Lemma finish_safe st sc o e : Inv st sc -> scan SN o = Some sc -> finish (Ok (st, o)) = Ok e -> body_safe e.
Proof.
  intros HI Ho H. cbn in H. inversion H; subst. unfold body_safe. rewrite scan_app, Ho.
  apply write_spaces_scan. exact HI.
Qed.

Theorem header_value_safe name value e : header_value_encode name value = Ok e -> body_safe e.
Proof.
  unfold header_value_encode. intros H.
  pose proof (hv_format_ok (split_inclusive_sp value) [] (mkW (length name + 2) 0 false) SN (or_introl eq_refl)) as R.
  destruct (hv_format (split_inclusive_sp value) [] (mkW (length name + 2) 0 false)) as [[st o]| |]; [|discriminate|discriminate].
  destruct R as (s1 & H1 & I1). cbn [fst snd] in *. exact (finish_safe st s1 o e I1 H1 H).
Qed.

(* ---------- reading a header section back ---------- *)
Lemma starts_with_crlf_cons b r : (b =? CR) = false -> starts_with CRLF (b :: r) = false.
Proof. intros H. cbn. rewrite N.eqb_sym, H. reflexivity. Qed.

Definition no_wsp_start (rest : bytes) : Prop := match rest with b :: _ => is_wsp b = false | [] => True end.

Definition LL (s : sst) (e rest : bytes) : Prop :=
  match s with
  | SN => logical_line (e ++ CRLF ++ rest) = Some (e, rest)
  | SC => logical_line (CR :: e ++ CRLF ++ rest) = Some (CR :: e, rest)
  | SL => logical_line (CR :: LF :: e ++ CRLF ++ rest) = Some (CR :: LF :: e, rest)
  end.

Lemma pbyte_not_cr b : pbyte b = true -> (b =? CR) = false.
Proof. unfold pbyte, CR. lia. Qed.

Lemma logical_line_safe rest : no_wsp_start rest -> forall e s, scan s e = Some SN -> LL s e rest.
Proof.
  intros Hr. induction e as [|b e IH]; intros s H.
  - cbn in H. inversion H; subst. cbn [LL app].
    destruct rest as [|w r]; [reflexivity|]. cbn in Hr.
    change (CRLF ++ w :: r) with (CR :: LF :: w :: r). cbn [logical_line].
    change (CR =? CR) with true. cbn [andb starts_with]. change (LF =? LF) with true. cbn [andb].
    rewrite Hr. reflexivity.
  - cbn [scan] in H. destruct s; cbn [scan_step] in H.
    + destruct (pbyte b) eqn:Pb.
      * cbn [LL app logical_line]. rewrite (pbyte_not_cr b Pb). cbn [andb].
        pose proof (IH SN H) as L. cbn [LL] in L. rewrite L. reflexivity.
      * destruct (b =? CR) eqn:Ec; [|discriminate]. apply N.eqb_eq in Ec. subst b.
        exact (IH SC H).
    + destruct (b =? LF) eqn:El; [|discriminate]. apply N.eqb_eq in El. subst b.
      exact (IH SL H).
    + destruct (b =? SP) eqn:Es; [|discriminate]. apply N.eqb_eq in Es. subst b.
      pose proof (IH SN H) as L. cbn [LL] in L.
      cbn [LL app]. cbn [logical_line]. change (CR =? CR) with true. cbn [andb starts_with].
      change (LF =? LF) with true. cbn [andb]. change (is_wsp SP) with true. cbn iota.
      cbn [logical_line]. change (SP =? CR) with false. cbn [andb]. rewrite L. reflexivity.
Qed.

Lemma split_colon_name n v : forallb is_ftext_b n = true -> split_colon (n ++ 58 :: v) = Some (n, v).
Proof.
  induction n as [|b n IH]; intros H; cbn [app split_colon].
  - reflexivity.
  - cbn [forallb] in H. apply andb_prop in H. destruct H as [Hb Hn].
    assert (b =? 58 = false) by (unfold is_ftext_b in Hb; lia). rewrite H.
    replace (is_ftext b) with true by (unfold is_ftext, is_ftext_b in *; lia).
    rewrite (IH Hn). reflexivity.
Qed.

Lemma ftext_p n : forallb is_ftext_b n = true -> all_p n = true.
Proof.
  unfold all_p. induction n as [|b n IH]; [reflexivity|]. cbn [forallb]. intros H. apply andb_prop in H.
  destruct H as [Hb Hn]. rewrite (IH Hn). unfold is_ftext_b, pbyte in *. lia.
Qed.

Lemma unfold_sp_cons e : unfold (SP :: e) = SP :: unfold e.
Proof. reflexivity. Qed.

Definition field_ok (f : bytes * bytes) : Prop := header_name_ok (fst f) = true /\ body_safe (snd f).
Definition render_fields (hs : list (bytes * bytes)) : bytes := flat_map (fun f => header_line (fst f) (snd f)) hs.

Lemma header_line_start n e t : header_name_ok n = true ->
  exists b r, header_line n e ++ t = b :: r /\ is_wsp b = false /\ (b =? CR) = false.
Proof.
  unfold header_name_ok. intros H. destruct n as [|b n]; [discriminate|].
  apply andb_prop in H. destruct H as [H Hf]. cbn [forallb] in Hf. apply andb_prop in Hf. destruct Hf as [Hb _].
  exists b, (n ++ bs ": " ++ e ++ CRLF ++ t). split.
  - unfold header_line. cbn [app]. rewrite <- !app_assoc. reflexivity.
  - unfold is_ftext_b, is_wsp, SP, TAB, CR in *. lia.
Qed.

Theorem header_block_reads_back hs : forall fuel body, (length hs < fuel)%nat -> Forall field_ok hs ->
  parse_header_block fuel (render_fields hs ++ CRLF ++ body) =
  Some (map (fun f => (fst f, unfold (snd f))) hs, body).
Proof.
  induction hs as [|[n e] hs IH]; intros fuel body Hf HF.
  - destruct fuel; [cbn in Hf; lia|]. cbn [render_fields flat_map app parse_header_block].
    change (starts_with CRLF (CR :: LF :: body)) with true. reflexivity.
  - destruct fuel; [cbn in Hf; lia|]. inversion HF as [|x l [Hn He] HF']; subst. cbn [fst snd] in *.
    cbn [render_fields flat_map]. fold (render_fields hs). cbn [fst snd]. rewrite <- app_assoc.
    set (rest := render_fields hs ++ CRLF ++ body).
    assert (Hrest : no_wsp_start rest /\ (match rest with b :: _ => (b =? CR) = false \/ hs = [] | [] => False end)).
    { unfold rest. destruct hs as [|[n2 e2] hs2].
      - cbn. split; [reflexivity|right; reflexivity].
      - inversion HF' as [|x2 l2 [Hn2 _] _]; subst. cbn [fst] in Hn2.
        cbn [render_fields flat_map fst snd]. rewrite <- app_assoc.
        destruct (header_line_start n2 e2 (flat_map (fun f => header_line (fst f) (snd f)) hs2 ++ CRLF ++ body) Hn2)
          as (b & r & -> & W & C). cbn. split; [exact W|left; exact C]. }
    destruct Hrest as [Hw _].
    cbn [parse_header_block].
    destruct (header_line_start n e rest Hn) as (b0 & r0 & E0 & _ & C0).
    rewrite E0. rewrite (starts_with_crlf_cons b0 r0 C0). rewrite <- E0.
    (* the logical line *)
    assert (Hname : forallb is_ftext_b n = true).
    { unfold header_name_ok in Hn. apply andb_prop in Hn. tauto. }
    assert (Hscan : scan SN (n ++ bs ": " ++ e) = Some SN).
    { rewrite scan_app, (scan_all_p n (ftext_p n Hname)). rewrite scan_app. cbn. exact He. }
    pose proof (logical_line_safe rest Hw (n ++ bs ": " ++ e) SN Hscan) as L. cbn [LL] in L.
    unfold header_line. rewrite <- !app_assoc in *. rewrite L.
    change (bs ": " ++ e) with (58 :: SP :: e). rewrite (split_colon_name n (SP :: e) Hname).
    destruct n as [|n0 ns]; [discriminate|].
    unfold rest. rewrite (IH fuel body); [|cbn in Hf; lia|exact HF'].
    rewrite unfold_sp_cons. cbn [strip_one_sp]. change (SP =? SP) with true. reflexivity.
Qed.
