(* C18: what the sendmail and file transports hand to their sinks is read back by the sinks' own
   conventions (POSIX utility arguments; RFC 8259 JSON) as exactly the envelope. *)
From Coq Require Import Strings.String.
From LV Require Import Base.Bytes Base.Str Base.Utf8 Model.Transports Spec.Sinks.
From Coq Require Import Lia Arith PeanoNat.

Theorem sendmail_args_read e : sendmail_reads (sendmail_args e) = Some (mkSm true (e_from e) (e_to e)).
Proof. destruct e as [[f|] to]; reflexivity. Qed.

(* ---------- JSON strings ---------- *)
Lemma hexval_hexl x : x < 16 -> hexval (hexl x) = Some x.
Proof.
  intros H. unfold hexl, hexval. destruct (x <? 10) eqn:E.
  - apply N.ltb_lt in E. replace ((48 <=? x + 48) && (x + 48 <=? 57)) with true by (symmetry; apply andb_true_intro; split; apply N.leb_le; lia).
    f_equal. lia.
  - apply N.ltb_ge in E.
    replace ((48 <=? x - 10 + 97) && (x - 10 + 97 <=? 57)) with false by (symmetry; apply andb_false_intro2; apply N.leb_gt; lia).
    replace ((97 <=? x - 10 + 97) && (x - 10 + 97 <=? 102)) with true by (symmetry; apply andb_true_intro; split; apply N.leb_le; lia).
    f_equal. lia.
Qed.

Lemma jstr_esc b f t s rest : jstr f t = Some (s, rest) -> jstr (S f) (json_escape_byte b ++ t) = Some (b :: s, rest).
Proof.
  intros H. unfold json_escape_byte.
  destruct (b =? 34) eqn:E1; [apply N.eqb_eq in E1; subst b; cbn; rewrite H; reflexivity|].
  destruct (b =? 92) eqn:E2; [apply N.eqb_eq in E2; subst b; cbn; rewrite H; reflexivity|].
  destruct (b =? 8) eqn:E3; [apply N.eqb_eq in E3; subst b; cbn; rewrite H; reflexivity|].
  destruct (b =? 9) eqn:E4; [apply N.eqb_eq in E4; subst b; cbn; rewrite H; reflexivity|].
  destruct (b =? 10) eqn:E5; [apply N.eqb_eq in E5; subst b; cbn; rewrite H; reflexivity|].
  destruct (b =? 12) eqn:E6; [apply N.eqb_eq in E6; subst b; cbn; rewrite H; reflexivity|].
  destruct (b =? 13) eqn:E7; [apply N.eqb_eq in E7; subst b; cbn; rewrite H; reflexivity|].
  destruct (b <? 32) eqn:E8.
  - apply N.ltb_lt in E8. cbn [app jstr].
    change (92 =? 34) with false. change (92 =? 92) with true. cbv iota.
    change (117 =? 34) with false. change (117 =? 92) with false. change (117 =? 47) with false.
    change (117 =? 98) with false. change (117 =? 102) with false. change (117 =? 110) with false.
    change (117 =? 114) with false. change (117 =? 116) with false. change (117 =? 117) with true. cbv iota.
    change (hexval 48) with (Some 0).
    rewrite (hexval_hexl (b / 16)) by (apply N.div_lt_upper_bound; lia).
    rewrite (hexval_hexl (b mod 16)) by (apply N.mod_lt; lia).
    replace (((0 * 16 + 0) * 16 + b / 16) * 16 + b mod 16) with b
      by (rewrite (N.div_mod b 16) at 1 by lia; lia).
    replace (b <? 128) with true by (symmetry; apply N.ltb_lt; lia).
    rewrite H. reflexivity.
  - cbn [app jstr]. rewrite E1, E2, E8. rewrite H. reflexivity.
Qed.

Lemma jstr_escaped : forall s fuel rest, (length (flat_map json_escape_byte s) < fuel)%nat ->
  jstr fuel (flat_map json_escape_byte s ++ 34 :: rest) = Some (s, rest).
Proof.
  induction s as [|b s IH]; intros fuel rest Hf.
  - destruct fuel; [cbn in Hf; lia|]. reflexivity.
  - cbn [flat_map] in *. rewrite app_length in Hf. destruct fuel as [|f]; [lia|].
    rewrite <- app_assoc. apply jstr_esc. apply IH.
    assert (1 <= length (json_escape_byte b))%nat.
    { unfold json_escape_byte. repeat match goal with |- context [if ?c then _ else _] => destruct c end; cbn; lia. }
    lia.
Qed.

Lemma jstr_string s rest : jstr (length (flat_map json_escape_byte s ++ 34 :: rest)) (flat_map json_escape_byte s ++ 34 :: rest) = Some (s, rest).
Proof. apply jstr_escaped. rewrite app_length. cbn. lia. Qed.

Lemma json_strings_cons s s2 r : json_strings (s :: s2 :: r) = json_string s ++ [44] ++ json_strings (s2 :: r).
Proof. reflexivity. Qed.

Lemma jarr_strings : forall l fuel rest, (length l < fuel)%nat ->
  jarr fuel (json_strings l ++ 93 :: rest) = Some (l, rest).
Proof.
  induction l as [|s l IH]; intros fuel rest Hf; (destruct fuel as [|f]; [cbn in Hf; lia|]).
  - reflexivity.
  - destruct l as [|s2 l].
    + cbn [json_strings json_string app jarr jws]. change (34 =? 32) with false. change (34 =? 9) with false.
      change (34 =? 10) with false. change (34 =? 13) with false. cbn [orb]. change (34 =? 93) with false. change (34 =? 34) with true. cbv iota.
      rewrite <- app_assoc. cbn [app]. rewrite jstr_string. cbn [jws]. reflexivity.
    + rewrite json_strings_cons. unfold json_string at 1. cbn [app jarr jws]. change (34 =? 32) with false. change (34 =? 9) with false.
      change (34 =? 10) with false. change (34 =? 13) with false. cbn [orb]. change (34 =? 93) with false. change (34 =? 34) with true. cbv iota.
      rewrite <- !app_assoc. cbn [app]. rewrite jstr_string. cbn [jws]. change (44 =? 32) with false. change (44 =? 9) with false.
      change (44 =? 10) with false. change (44 =? 13) with false. cbn [orb]. change (44 =? 44) with true. cbv iota.
      rewrite IH by (cbn in Hf |- *; lia). reflexivity.
Qed.

Lemma json_strings_len l : (length l <= length (json_strings l))%nat.
Proof.
  induction l as [|s l IH]; [cbn; lia|]. destruct l as [|s2 l].
  - cbn. lia.
  - rewrite json_strings_cons. rewrite !app_length. unfold json_string at 1. cbn [length app] in *. lia.
Qed.

Definition K1 : bytes := Eval vm_compute in bs "forward_path".
Definition K2 : bytes := Eval vm_compute in bs "reverse_path".
Lemma json_envelope_shape e : json_envelope e =
  123 :: 34 :: K1 ++ 34 :: 58 :: 91 :: json_strings (e_to e) ++ 93 :: 44 :: 34 :: K2 ++ 34 :: 58 ::
  match e_from e with Some f => 34 :: flat_map json_escape_byte f ++ 34 :: [125] | None => [110; 117; 108; 108; 125] end.
Proof.
  unfold json_envelope.
  change (bs "{""forward_path"":[") with (123 :: 34 :: K1 ++ 34 :: 58 :: [91]).
  change (bs "],""reverse_path"":") with (93 :: 44 :: 34 :: K2 ++ 34 :: 58 :: []).
  change (bs "}") with [125]. change (bs "null") with [110; 117; 108; 108].
  destruct (e_from e); unfold json_string, K1, K2; cbn [app]; rewrite <- ?app_assoc; cbn [app]; reflexivity.
Qed.

Theorem envelope_json_reads_back e : read_envelope (json_envelope e) = Some (e_from e, e_to e).
Proof.
  rewrite json_envelope_shape. unfold read_envelope. cbn [jws]. 
  change (123 =? 32) with false. change (123 =? 9) with false. change (123 =? 10) with false. change (123 =? 13) with false.
  cbn [orb]. change (123 =? 123) with true. cbv iota.
  (* first member *)
  cbn [jmembers jws]. change (34 =? 32) with false. change (34 =? 9) with false. change (34 =? 10) with false. change (34 =? 13) with false.
  cbn [orb]. change (34 =? 34) with true. cbv iota.
  assert (E1 : forall rest, jstr (length (K1 ++ 34 :: rest)) (K1 ++ 34 :: rest) = Some (K1, rest)).
  { intros rest. exact (jstr_string K1 rest). }
  rewrite E1. cbn [jws]. change (58 =? 32) with false. change (58 =? 9) with false. change (58 =? 10) with false. change (58 =? 13) with false.
  cbn [orb]. change (58 =? 58) with true. cbv iota.
  change (list_eqb K1 (bs "forward_path")) with true. cbv iota.
  cbn [jws]. change (91 =? 32) with false. change (91 =? 9) with false. change (91 =? 10) with false. change (91 =? 13) with false.
  cbn [orb]. change (91 =? 91) with true. cbv iota.
  rewrite jarr_strings; [|rewrite app_length; pose proof (json_strings_len (e_to e)) as LL; cbn [length]; lia].
  cbn [jws]. change (44 =? 32) with false. change (44 =? 9) with false. change (44 =? 10) with false. change (44 =? 13) with false.
  cbn [orb]. change (44 =? 44) with true. cbv iota.
  (* second member *)
  cbn [jmembers jws]. change (34 =? 32) with false. change (34 =? 9) with false. change (34 =? 10) with false. change (34 =? 13) with false.
  cbn [orb]. change (34 =? 34) with true. cbv iota.
  assert (E2 : forall rest, jstr (length (K2 ++ 34 :: rest)) (K2 ++ 34 :: rest) = Some (K2, rest)).
  { intros rest. exact (jstr_string K2 rest). }
  rewrite E2. cbn [jws]. change (58 =? 32) with false. change (58 =? 9) with false. change (58 =? 10) with false. change (58 =? 13) with false.
  cbn [orb]. change (58 =? 58) with true. cbv iota.
  change (list_eqb K2 (bs "forward_path")) with false. change (list_eqb K2 (bs "reverse_path")) with true. cbv iota.
  destruct (e_from e) as [f|].
  - cbn [jws]. change (34 =? 32) with false. change (34 =? 9) with false. change (34 =? 10) with false. change (34 =? 13) with false.
    cbn [orb]. change (34 =? 34) with true. cbv iota. rewrite jstr_string. reflexivity.
  - reflexivity.
Qed.

(* the stub keeps the octets exactly when they are UTF-8 (what every message without 8-bit binary parts is) *)
Lemma stub_ascii msg : is_ascii msg = true -> stub_keeps_octets msg = true.
Proof.
  unfold stub_keeps_octets.
  assert (G : forall l n, (length l < n)%nat -> is_ascii l = true -> utf8_valid_fuel n l = true).
  { induction l as [|b l IH]; intros n Hn Ha; (destruct n as [|n]; [cbn in Hn; lia|]); [reflexivity|].
    cbn in Ha. apply andb_prop in Ha. destruct Ha as [Hb Hl]. cbn [utf8_valid_fuel]. unfold is_ascii_b in Hb. rewrite Hb.
    apply IH; [cbn in Hn; lia|exact Hl]. }
  intros Ha. unfold utf8_valid. apply G; [lia|exact Ha].
Qed.
