(* Every encoded-word the encoder emits is, on its own, a valid RFC 2047 encoded-word of at most
   75 characters that decodes to exactly the bytes that were put into it. *)
From Coq Require Import Strings.String.
From LV Require Import Base.Bytes Base.Str Base.Base64 Model.HeaderEnc Spec.Rfc5322 Spec.Rfc2047
  Proofs.Base64Proofs.
From Coq Require Import Lia Arith PeanoNat ZArith ZifyBool ZifyN.
Local Arguments N.eqb : simpl never.

Definition b64text (c : N) : bool := negb (c =? 63) && negb (is_wsp c).

Lemma b64_char_text v : b64text (b64_char v) = true.
Proof. unfold b64text, is_wsp, b64_char, SP, TAB. destruct (v <? 26) eqn:A; [lia|]. destruct (v <? 52) eqn:B; [lia|].
       destruct (v <? 62) eqn:C; [lia|]. destruct (v =? 62); reflexivity. Qed.

Lemma b64enc_text_n n : forall w, (length w <= n)%nat -> forallb b64text (b64enc w) = true.
Proof.
  induction n as [|n IH]; intros w Hl.
  - destruct w; [reflexivity|cbn in Hl; lia].
  - destruct w as [|a [|b [|c r]]]; [reflexivity| | |]; cbn [b64enc forallb]; rewrite ?b64_char_text; try reflexivity.
    cbn [andb]. apply IH. cbn in Hl. lia.
Qed.
Lemma b64enc_text w : forallb b64text (b64enc w) = true.
Proof. apply (b64enc_text_n (length w)). lia. Qed.

Lemma b64enc_length_n n : forall w, (length w <= n)%nat -> (length (b64enc w) <= 4 * ((length w + 2) / 3))%nat.
Proof.
  induction n as [|n IH]; intros w Hl.
  - destruct w; [cbn; lia|cbn in Hl; lia].
  - destruct w as [|a [|b [|c r]]]; [cbn; lia|cbn; lia|cbn; lia|].
    cbn [b64enc length]. specialize (IH r). cbn in Hl. 
    assert (length r <= n)%nat by lia. specialize (IH H).
    replace (S (S (S (length r))) + 2)%nat with (length r + 2 + 1 * 3)%nat by lia.
    rewrite Nat.div_add by lia. lia.
Qed.

(* split on '?' : text without '?' stays one piece *)
Lemma split_q_text t : forall cur rest, forallb b64text t = true ->
  split_q (t ++ 63 :: rest) cur = frev (rev t ++ cur) :: split_q rest [].
Proof.
  induction t as [|b t IH]; intros cur rest H; cbn [app split_q].
  - change (63 =? 63) with true. reflexivity.
  - cbn [forallb] in H. apply andb_prop in H. destruct H as [Hb Ht].
    replace (b =? 63) with false by (unfold b64text in Hb; lia).
    rewrite (IH (b :: cur) rest Ht). cbn [rev]. rewrite <- app_assoc. reflexivity.
Qed.
Lemma split_q_last t : forall cur, forallb (fun c => negb (c =? 63)) t = true -> split_q t cur = [frev (rev t ++ cur)].
Proof.
  induction t as [|b t IH]; intros cur H; cbn [split_q]; [reflexivity|].
  cbn [forallb] in H. apply andb_prop in H. destruct H as [Hb Ht].
  replace (b =? 63) with false by lia. rewrite (IH (b :: cur) Ht). cbn [rev]. rewrite <- app_assoc. reflexivity.
Qed.

Theorem encoded_word_decodes w : bytes_ok w = true -> (length w <= 45)%nat ->
  decode_word (ENC_START ++ b64enc w ++ ENC_END) = Some w /\
  (length (ENC_START ++ b64enc w ++ ENC_END) <= 75)%nat.
Proof.
  intros Hok Hl.
  assert (Hlen : (length (b64enc w) <= 60)%nat).
  { pose proof (b64enc_length_n (length w) w (le_n _)) as L.
    assert ((length w + 2) / 3 < 16)%nat by (apply Nat.div_lt_upper_bound; lia). lia. }
  split.
  2:{ rewrite !app_length. change (length ENC_START) with 10%nat. change (length ENC_END) with 2%nat. lia. }
  unfold decode_word.
  replace (Nat.ltb 75 (length (ENC_START ++ b64enc w ++ ENC_END))) with false.
  2:{ symmetry. apply Nat.ltb_ge. rewrite !app_length. change (length ENC_START) with 10%nat. change (length ENC_END) with 2%nat. lia. }
  replace (ENC_START ++ b64enc w ++ ENC_END)
    with ([61] ++ 63 :: (bs "utf-8" ++ 63 :: ([98] ++ 63 :: (b64enc w ++ 63 :: [61])))) by reflexivity.
  rewrite (split_q_text [61] [] _ eq_refl).
  rewrite (split_q_text (bs "utf-8") [] _ eq_refl).
  rewrite (split_q_text [98] [] _ eq_refl).
  rewrite (split_q_text (b64enc w) [] [61] (b64enc_text w)).
  rewrite (split_q_last [61] [] eq_refl).
  rewrite !frev_rev, !app_nil_r, !rev_involutive.
  cbn [rev app]. change (list_eqb [61] [61]) with true. cbn [andb].
  replace (eq_ignore_case (bs "utf-8") (bs "utf-8")) with true by reflexivity. cbn [orb andb].
  replace (existsb is_wsp (b64enc w)) with false.
  2:{ symmetry. apply Bool.not_true_iff_false. intros E. apply existsb_exists in E. destruct E as (c & Hin & Hc).
      pose proof (proj1 (forallb_forall _ _) (b64enc_text w) c Hin) as T. unfold b64text in T. rewrite Hc in T.
      rewrite andb_false_r in T. discriminate. }
  cbn [negb]. replace (eq_ignore_case [98] (bs "b")) with true by reflexivity.
  apply b64_roundtrip. exact Hok.
Qed.

(* the pieces rfc2047::encode cuts are never longer than 45 bytes *)
Lemma trunc_go_length s m : (length (trunc_go s m) <= m)%nat.
Proof.
  induction m as [|m IH]; cbn [trunc_go]; [cbn; lia|].
  destruct (is_boundary s (S m)); [rewrite firstn_length; lia | lia].
Qed.
