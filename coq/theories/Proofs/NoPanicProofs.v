(* C19: the modelled entry points of the SMTP client never take a panic branch, for any peer script. *)
From Coq Require Import Strings.String.
From LV Require Import Base.Bytes Base.Str Base.Utf8 Base.Res Base.Base64
  Model.Codec Model.Response Model.ServerInfo Model.Auth Model.Client Proofs.ClientProofs Proofs.AuthProofs Proofs.TlsProofs.

Lemma info_line_some i l : exists i', info_line i l = Some i'.
Proof.
  unfold info_line. destruct l as [|b l]; [eauto|]. destruct (split_ws (b :: l)) as [|w rest]; [eauto|].
  repeat match goal with |- context [if ?c then _ else _] => destruct c end; eauto.
Qed.
Lemma info_lines_some ls : forall i, exists i', info_lines i ls = Some i'.
Proof.
  induction ls as [|l ls IH]; intros i; cbn [info_lines]; [eauto|].
  destruct (info_line_some i l) as (i1 & ->). apply IH.
Qed.
Lemma from_response_no_panic r : from_response r <> Panic.
Proof.
  unfold from_response. destruct (first_word r); [|discriminate].
  match goal with |- context [info_lines ?i ?l] => destruct (info_lines_some l i) as (i' & ->) end. discriminate.
Qed.

Lemma read_response_no_panic s : fst (read_response s) <> Panic.
Proof. pose proof (read_response_verdict s) as V. destruct (fst (read_response s)); [discriminate|discriminate|contradiction]. Qed.

Lemma ehlo_no_panic hello s : shut s = false -> panic s = false -> fst (ehlo hello s) <> Panic.
Proof.
  intros Hs Hp. unfold ehlo. destruct (hello_ok hello); [|cbn; discriminate]. unfold ehlo_send. pose proof (try_command (bs "EHLO " ++ hello ++ CRLF) s Hs Hp) as T.
  destruct (try_smtp (command (bs "EHLO " ++ hello ++ CRLF) s)) as [[r|e|] s1]; cbn [step_post] in T; [|discriminate|contradiction].
  pose proof (from_response_no_panic r) as F. destruct (from_response r); cbn; try discriminate. contradiction.
Qed.

Lemma connect_no_panic hello sc : fst (connect hello sc) <> Panic.
Proof.
  unfold connect. destruct (open_ctl sc) as (O1 & O2 & _).
  destruct (read_response_ctl (open sc)) as (_ & C2 & _ & C4 & _).
  pose proof (read_response_no_panic (open sc)) as R.
  destruct (read_response (open sc)) as [[r|e|] s1]; cbn [fst snd] in *; [|discriminate|contradiction].
  apply ehlo_no_panic; congruence.
Qed.

Lemma send_no_panic env msg s : shut s = false -> panic s = false -> fst (send env msg s) <> Panic.
Proof.
  intros Hs Hp. pose proof (send_units env msg s Hs Hp) as H.
  destruct (send env msg s) as [[r|e|] s']; cbn; try discriminate. contradiction.
Qed.
