(* C02, the line-length clause for text values that are written verbatim: when the value is made of printable
   ASCII words separated by SINGLE spaces (no TAB, no two spaces in a row - the classes of the known findings
   F29 and F7), every physical line the folding writer produces is at most 76 octets long (77 with the one
   trailing space the value may end in), or it holds exactly one word of the value, preceded by at most one
   space (and, on the first line, by the field name and its colon: the first word is never folded, F27).
   So a line longer than 78 octets occurs only where a single white-space-free token is itself that long, and
   with words shorter than 900 octets no line comes near 998. *)
From Coq Require Import Strings.String.
From LV Require Import Base.Bytes Base.Str Base.Utf8 Base.Res Base.Base64 Model.HeaderEnc Spec.Rfc5322
  Proofs.HeaderPlainProofs Proofs.CteShapeProofs.
From Coq Require Import Lia Arith PeanoNat.

Definition wordc (c : N) : bool := (33 <=? c) && (c <=? 126).
Definition valc (c : N) : bool := wordc c || (c =? SP).
Definition starts_sp (s : bytes) : bool := match s with b :: _ => b =? SP | [] => false end.
(* no two spaces in a row *)
Fixpoint nodsp (s : bytes) : bool :=
  match s with
  | a :: r => negb ((a =? SP) && starts_sp r) && nodsp r
  | [] => true
  end.

Definition word_ok2 (t : token) : Prop := match t with TSp => True | TWord w => w <> [] /\ forallb wordc w = true end.
Definition word_le (M : nat) (t : token) : Prop := match t with TSp => True | TWord w => (length w <= M)%nat end.
(* spaces and words alternate *)
Fixpoint alt (ts : list token) : Prop :=
  match ts with
  | [] => True
  | t :: r => match t, r with TSp, TSp :: _ => False | TWord _, TWord _ :: _ => False | _, _ => True end /\ alt r
  end.

Lemma wordc_nosp w : forallb wordc w = true -> mem SP w = false.
Proof.
  induction w as [|c w IH]; [reflexivity|]. cbn [forallb mem]. intros H. apply andb_prop in H. destruct H as [Hc Hw].
  rewrite (IH Hw). unfold wordc, SP in *. lia.
Qed.
Lemma wordc_okc w : forallb wordc w = true -> forallb okc w = true.
Proof.
  induction w as [|c w IH]; [reflexivity|]. cbn [forallb]. intros H. apply andb_prop in H. destruct H as [Hc Hw].
  rewrite (IH Hw). unfold wordc, okc, CR, LF in *. lia.
Qed.
Lemma forallb_rev {A} (f : A -> bool) l : forallb f l = true -> forallb f (rev l) = true.
Proof. intros H. apply forallb_forall. intros x Hx. apply in_rev in Hx. exact (proj1 (forallb_forall _ _) H x Hx). Qed.
Lemma okc_sp_run n : forallb okc (sp_run n) = true.
Proof. induction n; [reflexivity|]. cbn. exact IHn. Qed.

(* ---- the tokens of a value ---- *)
Lemma tokens_go_head s : forall c cur, exists w rest, tokens_go s (c :: cur) = TWord w :: rest.
Proof.
  induction s as [|b s IH]; intros c cur; cbn [tokens_go].
  - eexists; eexists; reflexivity.
  - destruct (b =? SP); [eexists; eexists; reflexivity|apply IH].
Qed.
Lemma tokens_go_nil_head s : starts_sp s = false -> match tokens_go s [] with TSp :: _ => False | _ => True end.
Proof.
  destruct s as [|b s]; cbn [starts_sp tokens_go]; [trivial|]. intros H. rewrite H.
  destruct (tokens_go_head s b []) as (w & rest & E). rewrite E. trivial.
Qed.
Lemma alt_tokens s : forall cur, nodsp s = true -> alt (tokens_go s cur).
Proof.
  induction s as [|b s IH]; intros cur H; cbn [tokens_go].
  - destruct cur; cbn; auto.
  - cbn [nodsp] in H. apply andb_prop in H. destruct H as [Hh Hs]. destruct (b =? SP) eqn:Eb.
    + cbn [andb] in Hh. apply negb_true_iff in Hh. pose proof (tokens_go_nil_head s Hh) as Hd.
      destruct cur as [|c cur].
      * cbn [alt]. split; [|apply IH; exact Hs]. destruct (tokens_go s []) as [|[|w] r]; auto.
      * cbn [alt]. split; [trivial|]. split; [|apply IH; exact Hs]. destruct (tokens_go s []) as [|[|w] r]; auto.
    + apply IH. exact Hs.
Qed.
Lemma tokens_go_ok2 s : forall cur, forallb valc s = true -> forallb wordc cur = true -> Forall word_ok2 (tokens_go s cur).
Proof.
  induction s as [|b s IH]; intros cur Hs Hc; cbn [tokens_go].
  - destruct cur as [|c cur]; [constructor|]. constructor; [|constructor]. cbn [word_ok2]. rewrite frev_rev. split.
    + intros E. apply (f_equal (@length N)) in E. rewrite rev_length in E. cbn in E. lia.
    + apply forallb_rev. exact Hc.
  - cbn [forallb] in Hs. apply andb_prop in Hs. destruct Hs as [Hb Hs]. destruct (b =? SP) eqn:Eb.
    + destruct cur as [|c cur].
      * constructor; [exact I|]. apply IH; auto.
      * constructor; [|constructor; [exact I|apply IH; auto]]. cbn [word_ok2]. rewrite frev_rev. split.
        -- intros E. apply (f_equal (@length N)) in E. rewrite rev_length in E. cbn in E. lia.
        -- apply forallb_rev. exact Hc.
    + apply IH; [exact Hs|]. cbn [forallb]. rewrite Hc. unfold valc in Hb. rewrite Eb in Hb. rewrite orb_false_r in Hb. rewrite Hb. reflexivity.
Qed.

(* the value encoder cuts the value after every space and hands the pieces to the folding writer one by one;
   that is the same as handing it the tokens of the whole value *)
Lemma tokens_go_nosp x : forall y acc, mem SP x = false -> tokens_go (x ++ y) acc = tokens_go y (rev x ++ acc).
Proof.
  induction x as [|a x IH]; intros y acc H; [reflexivity|]. cbn [mem] in H. apply orb_false_iff in H. destruct H as [Ha Hx].
  cbn [app tokens_go]. rewrite N.eqb_sym in Ha. rewrite Ha. rewrite IH by exact Hx. cbn [rev]. rewrite <- app_assoc. reflexivity.
Qed.
Lemma flat_tokens_split s : forall cur, mem SP cur = false -> flat_map tokens (split_incl_go s cur) = tokens_go s cur.
Proof.
  induction s as [|b s IH]; intros cur Hc; cbn [split_incl_go tokens_go].
  - destruct cur as [|c cur]; [reflexivity|]. cbn [flat_map]. rewrite app_nil_r. unfold tokens. rewrite frev_rev.
    rewrite <- (app_nil_r (rev (c :: cur))). rewrite tokens_go_nosp by (rewrite mem_rev; exact Hc).
    rewrite rev_involutive, app_nil_r. cbn [tokens_go]. rewrite ?frev_rev, ?app_nil_r. reflexivity.
  - destruct (b =? SP) eqn:Eb.
    + cbn [flat_map]. rewrite IH by reflexivity. unfold tokens. rewrite frev_rev. cbn [rev].
      rewrite tokens_go_nosp by (rewrite mem_rev; exact Hc). rewrite rev_involutive, app_nil_r.
      cbn [tokens_go]. rewrite Eb. destruct cur; reflexivity.
    + apply IH. cbn [mem]. rewrite N.eqb_sym, Eb. exact Hc.
Qed.

Lemma fold_tokens_app a : forall b st,
  fold_tokens (a ++ b) st =
  let '(s1, o1) := fold_tokens a st in let '(s2, o2) := fold_tokens b s1 in (s2, o1 ++ o2).
Proof.
  induction a as [|t a IH]; intros b st.
  - cbn [app fold_tokens]. destruct (fold_tokens b st). reflexivity.
  - destruct t as [|w]; cbn [app fold_tokens].
    + apply IH.
    + destruct (fold_word w st) as [st1 o1]. rewrite IH. destruct (fold_tokens a st1) as [s1 o1'].
      destruct (fold_tokens b s1) as [s2 o2]. rewrite app_assoc. reflexivity.
Qed.
Lemma hv_format_plain_tokens ws : forall st, Forall (fun w => allowed_str w = true) ws ->
  hv_format ws [] st = Ok (fold_tokens (flat_map tokens ws) st).
Proof.
  induction ws as [|w ws IH]; intros st F; [reflexivity|].
  inversion F as [|? ? Hw F']; subst. cbn [hv_format flat_map]. cbn [negb andb]. rewrite Hw. cbn [andb negb flush_encode_buf].
  unfold fold_write_str. rewrite fold_tokens_app. destruct (fold_tokens (tokens w) st) as [st2 o2].
  rewrite IH by exact F'. destruct (fold_tokens (flat_map tokens ws) st2) as [st3 o3]. reflexivity.
Qed.

(* ---- lines ---- *)
Section Lines.
Variable M : nat.          (* a bound on the length of the words of the value *)
Variable pre0 : bytes.     (* what stands in front of the value on the first line: the name, the colon, SP *)

(* a line that holds one word: [pre] (nothing on continuation lines), at most one space, the word *)
Definition OW (pre ln : bytes) : Prop :=
  exists k body, ln = pre ++ sp_run k ++ body /\ (k <= 1)%nat /\ forallb wordc body = true /\ (length body <= M)%nat.
Definition Lok (pre ln : bytes) : Prop := (length ln <= 76)%nat \/ OW pre ln.
Definition LinesOk (ls : list bytes) (pre : bytes) : Prop :=
  match ls with [] => pre = pre0 | l0 :: r => Lok pre0 l0 /\ Forall (Lok []) r /\ pre = [] end.

Record Inv (ls : list bytes) (cur pre : bytes) (st : wst) : Prop := mkInv {
  i_len : line_len st = length cur;
  i_sp : (spaces st <= 1)%nat;
  i_ls : LinesOk ls pre;
  i_cur : Lok pre cur;
  i_nf : can_fold st = false -> cur = pre;
  i_okl : Forall (fun ln => forallb okc ln = true) ls;
  i_okc : forallb okc cur = true }.

(* what the alternation of the tokens says about the writer's pending spaces *)
Definition hc (ts : list token) (st : wst) : Prop :=
  match ts with
  | TSp :: _ => spaces st = 0%nat
  | TWord _ :: _ => can_fold st = true -> spaces st = 1%nat
  | [] => True
  end.

Lemma LinesOk_snoc ls pre cur : LinesOk ls pre -> Lok pre cur -> LinesOk (ls ++ [cur]) [].
Proof.
  destruct ls as [|l0 r]; cbn [LinesOk app].
  - intros -> H. split; [exact H|]. split; [constructor|reflexivity].
  - intros (H0 & Hr & ->) H. split; [exact H0|]. split; [|reflexivity]. apply Forall_app. split; [exact Hr|]. constructor; [exact H|constructor].
Qed.

Lemma fold_tokens_lines ts : forall ls cur pre st st' o,
  alt ts -> Forall word_ok2 ts -> Forall (word_le M) ts -> hc ts st -> Inv ls cur pre st ->
  fold_tokens ts st = (st', o) ->
  exists ls' cur' pre', join ls cur ++ o = join ls' cur' /\ Inv ls' cur' pre' st'.
Proof.
  induction ts as [|t ts IH]; intros ls cur pre st st' o Ha Fw Fm Hh HI H.
  - cbn in H. inversion H; subst. exists ls, cur, pre. split; [rewrite app_nil_r; reflexivity|exact HI].
  - inversion Fw as [|? ? Ht Fw']; subst. inversion Fm as [|? ? Hm Fm']; subst. cbn [alt] in Ha. destruct Ha as [Ha1 Ha].
    destruct HI as [Il Is Ils Ic Inf Iol Ioc]. destruct t as [|w].
    + (* a space *)
      cbn [fold_tokens] in H. cbn [hc] in Hh.
      apply (IH ls cur pre (w_space st) st' o Ha Fw' Fm'); [| |exact H].
      * destruct ts as [|[|w] r]; cbn [hc]; [trivial|contradiction|]. intros _. cbn [w_space spaces]. lia.
      * constructor; cbn [w_space line_len spaces can_fold]; auto. lia.
    + (* a word *)
      destruct Ht as (Hne & Hwc). cbn [word_le] in Hm. cbn [hc] in Hh.
      pose proof (wordc_nosp w Hwc) as Hnsp.
      assert (Hnext : forall stx, spaces stx = 0%nat -> hc ts stx).
      { intros stx Hx. destruct ts as [|[|w'] r]; cbn [hc]; [trivial|exact Hx|contradiction]. }
      cbn [fold_tokens] in H. unfold fold_word in H.
      destruct (can_fold st && Nat.leb 1 (spaces st) && Nat.ltb MAX_LINE_LEN (line_len st + spaces st + length w)) eqn:Cnd.
      * (* fold: the line is finished, the word opens the next one *)
        apply andb_prop in Cnd. destruct Cnd as [Cnd _]. apply andb_prop in Cnd. destruct Cnd as [_ Hs1]. apply Nat.leb_le in Hs1.
        cbn [w_new_line] in H. rewrite (w_write_str_word w _ Hne Hnsp) in H. cbn [spaces line_len] in H.
        destruct (fold_tokens ts _) as [st2 o2] eqn:E2. inversion H; subst. clear H.
        match type of E2 with fold_tokens ts ?sx = _ => assert (I2 : Inv (ls ++ [cur]) (sp_run (spaces st) ++ w) [] sx) end.
        { constructor; cbn [line_len spaces can_fold].
          - rewrite app_length. unfold sp_run. rewrite repeat_length. lia.
          - lia.
          - apply (LinesOk_snoc ls pre cur Ils Ic).
          - right. exists (spaces st), w. repeat split; auto.
          - discriminate.
          - apply Forall_app. split; [exact Iol|]. constructor; [exact Ioc|constructor].
          - rewrite forallb_app, okc_sp_run, (wordc_okc w Hwc). reflexivity. }
        match type of E2 with fold_tokens ts ?sx = _ => destruct (IH _ _ _ sx st' o2 Ha Fw' Fm' (Hnext sx eq_refl) I2 E2) as (ls' & cur' & pre' & J & I') end.
        exists ls', cur', pre'. split; [|exact I']. rewrite <- J, join_snoc, !join_app. f_equal. unfold CRLF. cbn [app]. rewrite <- ?app_assoc. cbn [app]. rewrite <- ?app_assoc. reflexivity.
      * (* no fold *)
        rewrite (w_write_str_word w _ Hne Hnsp) in H.
        destruct (fold_tokens ts _) as [st2 o2] eqn:E2. inversion H; subst. clear H.
        match type of E2 with fold_tokens ts ?sx = _ => assert (I2 : Inv ls (cur ++ sp_run (spaces st) ++ w) pre sx) end.
        { constructor; cbn [line_len spaces can_fold].
          - rewrite !app_length. unfold sp_run. rewrite repeat_length. lia.
          - lia.
          - exact Ils.
          - destruct (can_fold st) eqn:Ecf.
            + pose proof (Hh eq_refl) as Hs. rewrite Hs in Cnd. cbn [Nat.leb andb] in Cnd.
              apply Nat.ltb_ge in Cnd. left. rewrite !app_length. unfold sp_run. rewrite repeat_length. unfold MAX_LINE_LEN in Cnd. lia.
            + right. rewrite (Inf eq_refl). exists (spaces st), w. repeat split; auto.
          - discriminate.
          - exact Iol.
          - rewrite !forallb_app, Ioc, okc_sp_run, (wordc_okc w Hwc). reflexivity. }
        match type of E2 with fold_tokens ts ?sx = _ => destruct (IH _ _ _ sx st' o2 Ha Fw' Fm' (Hnext sx eq_refl) I2 E2) as (ls' & cur' & pre' & J & I') end.
        exists ls', cur', pre'. split; [|exact I']. rewrite <- J, !join_app. f_equal. rewrite <- ?app_assoc. reflexivity.
Qed.
End Lines.

(* what a finished line looks like: the value may end in one space, which the writer appends at the very end *)
Definition LokF (M : nat) (pre ln : bytes) : Prop :=
  (length ln <= 77)%nat \/
  exists k body j, ln = pre ++ sp_run k ++ body ++ sp_run j /\ (k <= 1)%nat /\ (j <= 1)%nat /\
                   forallb wordc body = true /\ (length body <= M)%nat.
Lemma Lok_LokF M pre ln j : (j <= 1)%nat -> Lok M pre ln -> LokF M pre (ln ++ sp_run j).
Proof.
  intros Hj [H|(k & body & E & Hk & Hb & Hl)].
  - left. rewrite app_length. unfold sp_run. rewrite repeat_length. lia.
  - right. exists k, body, j. subst ln. rewrite <- !app_assoc. auto.
Qed.
Lemma Lok_LokF0 M pre ln : Lok M pre ln -> LokF M pre ln.
Proof. intros H. rewrite <- (app_nil_r ln). apply (Lok_LokF M pre ln 0); [lia|exact H]. Qed.

Lemma ftext_okc n : forallb is_ftext_b n = true -> forallb okc n = true.
Proof.
  induction n as [|c n IH]; [reflexivity|]. cbn [forallb]. intros H. apply andb_prop in H. destruct H as [Hc Hn].
  rewrite (IH Hn). unfold is_ftext_b, okc, CR, LF in *. lia.
Qed.

Theorem plain_value_lines (M : nat) name value :
  header_name_ok name = true ->
  Forall (fun w => allowed_str w = true) (split_inclusive_sp value) ->
  forallb valc value = true -> nodsp value = true ->
  Forall (word_le M) (tokens value) ->
  exists e l0 rest, header_value_encode name value = Ok e /\
    lines_of (name ++ bs ": " ++ e) = l0 :: rest /\
    LokF M (name ++ bs ": ") l0 /\ Forall (LokF M []) rest.
Proof.
  intros Hn Fa Hv Hd Hm. unfold header_value_encode. rewrite hv_format_plain_tokens by exact Fa.
  unfold split_inclusive_sp. rewrite flat_tokens_split by reflexivity. fold (tokens value).
  set (pre0 := name ++ bs ": "). set (st0 := mkW (length name + 2) 0 false).
  destruct (fold_tokens (tokens value) st0) as [st' o] eqn:E. cbn [finish].
  unfold header_name_ok in Hn. apply andb_prop in Hn. destruct Hn as [Hn Hft]. apply andb_prop in Hn. destruct Hn as [_ Hlen].
  assert (Hpre : forallb okc pre0 = true).
  { unfold pre0. rewrite forallb_app, (ftext_okc name Hft). reflexivity. }
  assert (I0 : Inv M pre0 [] pre0 pre0 st0).
  { constructor; cbn [st0 line_len spaces can_fold LinesOk]; auto.
    - unfold pre0. rewrite app_length. reflexivity.
    - right. exists 0%nat, []. cbn [sp_run repeat app]. rewrite app_nil_r. repeat split; auto; cbn [length]; lia. }
  assert (H0 : hc (tokens value) st0).
  { destruct (tokens value) as [|[|w] r]; cbn [hc st0 spaces can_fold]; auto. discriminate. }
  destruct (fold_tokens_lines M pre0 (tokens value) [] pre0 pre0 st0 st' o (alt_tokens value [] Hd)
              (tokens_go_ok2 value [] Hv eq_refl) Hm H0 I0 E) as (ls' & cur' & pre' & J & I').
  destruct I' as [Il Is Ils Ic Inf Iol Ioc].
  exists (o ++ sp_run (spaces st')).
  assert (T : name ++ bs ": " ++ o ++ sp_run (spaces st') = join ls' (cur' ++ sp_run (spaces st'))).
  { rewrite <- join_app. rewrite <- J. unfold join. cbn [flat_map app]. unfold pre0. rewrite <- !app_assoc. reflexivity. }
  assert (L : lines_of (name ++ bs ": " ++ o ++ sp_run (spaces st')) = ls' ++ [cur' ++ sp_run (spaces st')]).
  { rewrite T. apply lines_of_join; [exact Iol|]. rewrite forallb_app, Ioc, okc_sp_run. reflexivity. }
  destruct ls' as [|l0 r]; cbn [LinesOk] in Ils.
  - subst pre'. exists (cur' ++ sp_run (spaces st')), []. split; [reflexivity|]. split; [exact L|].
    split; [apply Lok_LokF; assumption|constructor].
  - destruct Ils as (H0l & Hr & ->). exists l0, (r ++ [cur' ++ sp_run (spaces st')]). split; [reflexivity|]. split; [exact L|].
    split; [apply Lok_LokF0; exact H0l|]. apply Forall_app. split.
    + eapply Forall_impl; [|exact Hr]. intros a Ha. apply Lok_LokF0. exact Ha.
    + constructor; [apply Lok_LokF; assumption|constructor].
Qed.

(* with words shorter than 900 octets no line is longer than 998 octets (it is at most 76 + 2 + 1 + 899 + 1) *)
Theorem plain_value_lines_998 name value :
  header_name_ok name = true ->
  Forall (fun w => allowed_str w = true) (split_inclusive_sp value) ->
  forallb valc value = true -> nodsp value = true ->
  Forall (word_le 899) (tokens value) ->
  exists e, header_value_encode name value = Ok e /\
    Forall (fun ln => (length ln <= 998)%nat) (lines_of (name ++ bs ": " ++ e)).
Proof.
  intros Hn Fa Hv Hd Hm. destruct (plain_value_lines 899 name value Hn Fa Hv Hd Hm) as (e & l0 & rest & He & L & H0 & Hr).
  exists e. split; [exact He|]. rewrite L.
  unfold header_name_ok in Hn. apply andb_prop in Hn. destruct Hn as [Hn _]. apply andb_prop in Hn. destruct Hn as [_ Hlen]. apply Nat.leb_le in Hlen.
  assert (G : forall pre ln, (length pre <= 78)%nat -> LokF 899 pre ln -> (length ln <= 998)%nat).
  { intros pre ln Hp [H|(k & body & j & -> & Hk & Hj & _ & Hb)]; [lia|].
    rewrite !app_length. unfold sp_run. rewrite !repeat_length. lia. }
  constructor.
  - apply (G (name ++ bs ": ")); [rewrite app_length; cbn [length bs]; cbn; lia|exact H0].
  - eapply Forall_impl; [|exact Hr]. intros a Ha. apply (G []); [cbn; lia|exact Ha].
Qed.
