(* A built message has exactly one Date, exactly one From (a builder without one is refused), MIME-Version exactly
   when its body is MIME (or the caller asked for the field), and never two fields of one name. *)
From Coq Require Import Strings.String Lia Bool.
From LV Require Import Base.Bytes Base.Str Model.BuilderFields.

Definition lname (n : bytes) : bytes := map to_lower n.
Lemma list_eqb_iff a : forall b, list_eqb a b = true <-> a = b.
Proof.
  induction a as [|x a IH]; intros [|y b]; cbn [list_eqb]; split; intros H; try discriminate; try reflexivity.
  - apply andb_prop in H. destruct H as [A B]. apply N.eqb_eq in A. apply IH in B. subst. reflexivity.
  - injection H as -> ->. rewrite N.eqb_refl. cbn [andb]. apply IH. reflexivity.
Qed.
Lemma eq_ic_iff a b : eq_ignore_case a b = true <-> lname a = lname b.
Proof. unfold eq_ignore_case, lname. apply list_eqb_iff. Qed.
Lemma eq_ic_false a b : eq_ignore_case a b = false <-> lname a <> lname b.
Proof.
  split.
  - intros H E. apply eq_ic_iff in E. rewrite E in H. discriminate.
  - intros H. destruct (eq_ignore_case a b) eqn:E; [|reflexivity]. apply eq_ic_iff in E. contradiction.
Qed.

Lemma has_name_iff n ns : has_name n ns = true <-> In (lname n) (map lname ns).
Proof.
  unfold has_name. rewrite existsb_exists. split.
  - intros (x & Hx & E). apply eq_ic_iff in E. rewrite E. apply in_map. exact Hx.
  - intros H. apply in_map_iff in H. destruct H as (x & E & Hx). exists x. split; [exact Hx|]. apply eq_ic_iff. symmetry. exact E.
Qed.

Definition uniq (ns : list bytes) : Prop := NoDup (map lname ns).

Lemma NoDup_snoc {A} (l : list A) a : NoDup l -> ~ In a l -> NoDup (l ++ [a]).
Proof.
  induction l as [|x l IH]; intros H Hn; cbn [app].
  - constructor; [intros []|constructor].
  - inversion H as [|? ? Hx Hl]; subst. constructor.
    + intros Hin. apply in_app_or in Hin. destruct Hin as [Hin|[Hin|[]]]; [contradiction|]. subst. apply Hn. left. reflexivity.
    + apply IH; [exact Hl|]. intros Hin. apply Hn. right. exact Hin.
Qed.

Lemma set_name_uniq ns n : uniq ns -> uniq (set_name ns n).
Proof.
  unfold uniq, set_name. intros H. destruct (has_name n ns) eqn:E; [exact H|].
  rewrite map_app. cbn [map]. apply NoDup_snoc; [exact H|].
  intros Hin. apply has_name_iff in Hin. rewrite Hin in E. discriminate.
Qed.

Lemma set_name_has ns n : has_name n (set_name ns n) = true.
Proof.
  unfold set_name. destruct (has_name n ns) eqn:E; [exact E|]. apply has_name_iff. rewrite map_app. apply in_or_app. right. left. reflexivity.
Qed.
Lemma set_name_keeps ns n m : has_name m ns = true -> has_name m (set_name ns n) = true.
Proof.
  intros H. unfold set_name. destruct (has_name n ns); [exact H|]. apply has_name_iff. apply has_name_iff in H.
  rewrite map_app. apply in_or_app. left. exact H.
Qed.
Lemma set_name_other ns n m : lname m <> lname n -> has_name m (set_name ns n) = has_name m ns.
Proof.
  intros Hne. unfold set_name. destruct (has_name n ns); [reflexivity|]. unfold has_name. rewrite existsb_app. cbn [existsb].
  replace (eq_ignore_case m n) with false by (symmetry; apply eq_ic_false; exact Hne). rewrite !orb_false_r. reflexivity.
Qed.

Lemma remove_uniq n ns : uniq ns -> uniq (remove_name n ns).
Proof.
  unfold uniq, remove_name. induction ns as [|x ns IH]; intros H; [constructor|]. cbn [map] in H. inversion H as [|? ? Hx Hl]; subst.
  cbn [filter]. destruct (negb (eq_ignore_case n x)); [|apply IH; exact Hl]. cbn [map]. constructor; [|apply IH; exact Hl].
  intros Hin. apply Hx. apply in_map_iff in Hin. destruct Hin as (y & E & Hy). apply filter_In in Hy. destruct Hy as [Hy _].
  rewrite <- E. apply in_map. exact Hy.
Qed.
Lemma remove_has n m ns : lname m <> lname n -> has_name m (remove_name n ns) = has_name m ns.
Proof.
  intros Hne. unfold has_name, remove_name. induction ns as [|x ns IH]; [reflexivity|]. cbn [filter existsb].
  destruct (eq_ignore_case n x) eqn:E; cbn [negb existsb].
  - rewrite IH. replace (eq_ignore_case m x) with false; [reflexivity|]. symmetry. apply eq_ic_false. apply eq_ic_iff in E. congruence.
  - rewrite IH. reflexivity.
Qed.
Lemma remove_gone n ns : has_name n (remove_name n ns) = false.
Proof.
  unfold has_name, remove_name. induction ns as [|x ns IH]; [reflexivity|]. cbn [filter].
  destruct (eq_ignore_case n x) eqn:E; cbn [negb existsb]; [exact IH|]. rewrite E, IH. reflexivity.
Qed.

(* in a map without two fields of one name, a name that is held is held once *)
Lemma count_uniq n ns : uniq ns -> count_name n ns = (if has_name n ns then 1 else 0)%nat.
Proof.
  unfold uniq, count_name, has_name. induction ns as [|x ns IH]; intros H; [reflexivity|]. cbn [map] in H. inversion H as [|? ? Hx Hl]; subst.
  cbn [filter existsb]. destruct (eq_ignore_case n x) eqn:E; cbn [orb length].
  - rewrite (IH Hl). replace (existsb (eq_ignore_case n) ns) with false; [reflexivity|]. symmetry.
    destruct (existsb (eq_ignore_case n) ns) eqn:E2; [|reflexivity]. exfalso. apply Hx.
    apply eq_ic_iff in E. rewrite <- E. apply has_name_iff. exact E2.
  - apply IH. exact Hl.
Qed.

Lemma fold_uniq ops : forall ns, uniq ns -> uniq (fold_left apply_op ops ns).
Proof.
  induction ops as [|o ops IH]; intros ns H; [exact H|]. cbn [fold_left]. apply IH. unfold apply_op.
  destruct (name_of o); [apply set_name_uniq; exact H|exact H].
Qed.
Lemma fold_has n ops : forall ns, has_name n (fold_left apply_op ops ns) = has_name n ns || sets n ops.
Proof.
  induction ops as [|o ops IH]; intros ns; cbn [fold_left sets existsb]; [rewrite orb_false_r; reflexivity|].
  rewrite IH. unfold apply_op. destruct (name_of o) as [m|]; cbn [orb]; [|reflexivity].
  destruct (eq_ignore_case n m) eqn:E.
  - assert (X : has_name n (set_name ns m) = true).
    { apply eq_ic_iff in E. pose proof (set_name_has ns m) as Y. apply has_name_iff in Y. apply has_name_iff. rewrite E. exact Y. }
    rewrite X. cbn [orb]. rewrite orb_true_r. reflexivity.
  - rewrite set_name_other by (apply eq_ic_false; exact E). reflexivity.
Qed.

Theorem fields_uniq ops k : uniq (fields_after ops k).
Proof.
  unfold fields_after. set (ns2 := set_name _ (bs "Date")).
  assert (U : uniq ns2). { unfold ns2. apply set_name_uniq, set_name_uniq, fold_uniq. constructor. }
  destruct (keeps_bcc ops); [exact U|apply remove_uniq; exact U].
Qed.

Lemma fields_has n ops k : lname n <> lname (bs "Bcc") ->
  has_name n (fields_after ops k) =
  has_name n (set_name (set_name (fold_left apply_op ops []) (match k with KRaw => bs "Content-Transfer-Encoding" | KMime => bs "MIME-Version" end)) (bs "Date")).
Proof. intros H. unfold fields_after. destruct (keeps_bcc ops); [reflexivity|apply remove_has; exact H]. Qed.

Theorem required_fields ops k :
  count_name (bs "Date") (fields_after ops k) = 1%nat /\
  count_name (bs "From") (fields_after ops k) = (if sets (bs "From") ops then 1 else 0)%nat /\
  count_name (bs "MIME-Version") (fields_after ops k) =
    (match k with KMime => 1 | KRaw => if sets (bs "MIME-Version") ops then 1 else 0 end)%nat /\
  count_name (bs "Bcc") (fields_after ops k) = (if keeps_bcc ops && sets (bs "Bcc") ops then 1 else 0)%nat /\
  (forall n, count_name n (fields_after ops k) <= 1)%nat.
Proof.
  pose proof (fields_uniq ops k) as U. repeat split.
  - rewrite count_uniq by exact U. rewrite fields_has by (vm_compute; discriminate). rewrite set_name_has. reflexivity.
  - rewrite count_uniq by exact U. rewrite fields_has by (vm_compute; discriminate).
    rewrite set_name_other by (vm_compute; discriminate). rewrite set_name_other by (destruct k; vm_compute; discriminate).
    rewrite fold_has. reflexivity.
  - rewrite count_uniq by exact U. rewrite fields_has by (vm_compute; discriminate).
    rewrite set_name_other by (vm_compute; discriminate). destruct k.
    + rewrite set_name_other by (vm_compute; discriminate). rewrite fold_has. reflexivity.
    + rewrite set_name_has. reflexivity.
  - rewrite count_uniq by exact U. unfold fields_after. destruct (keeps_bcc ops); cbn [andb].
    + rewrite set_name_other by (vm_compute; discriminate). rewrite set_name_other by (destruct k; vm_compute; discriminate).
      rewrite fold_has. reflexivity.
    + rewrite remove_gone. reflexivity.
  - intros n. rewrite count_uniq by exact U. destruct (has_name n _); lia.
Qed.
Print Assumptions required_fields.
