(* C12, display names: for EVERY display name, the mailbox header that Mailbox::encode writes for
   `name <address>` unfolds to  phrase " <" address ">"  where an RFC 5322 / RFC 2047 reader of the phrase
   (Spec/Rfc2047.v decode_phrase: atoms, quoted-strings with quoted-pairs, encoded-words, white space between
   adjacent encoded-words dropped) recovers exactly the name.  All four strategies of quoted_string::encode. *)
From Coq Require Import Strings.String.
From LV Require Import Base.Bytes Base.Str Base.Utf8 Base.Res Base.Base64 Model.HeaderEnc Spec.Rfc5322 Spec.Rfc2047
  Proofs.HeaderProofs Proofs.HeaderPlainProofs Proofs.Rfc2047Proofs Proofs.Rfc2047DecProofs Proofs.HeaderRtProofs.
From Coq Require Import Lia Arith PeanoNat ZArith ZifyBool ZifyNat ZifyN.
Local Arguments N.eqb : simpl never.
Local Arguments N.leb : simpl never.
Local Arguments N.ltb : simpl never.
Local Arguments Nat.div : simpl never.
Local Arguments Nat.mul : simpl never.
Local Arguments Nat.sub : simpl never.

(* ---------- the writer primitives ---------- *)
Lemma w_write_char_sem c st : list_eqb c [SP] = false ->
  w_write_char c st = (mkW (line_len st + spaces st + length c) 0 true, sp_run (spaces st) ++ c).
Proof. intros H. unfold w_write_char. rewrite H. reflexivity. Qed.

Lemma trim_end_last s0 c : (c =? SP) = false -> trim_end_sp (s0 ++ [c]) = s0 ++ [c].
Proof.
  intros H. unfold trim_end_sp. rewrite !frev_rev, rev_app_distr. cbn [rev app trim_end_sp_rev]. rewrite H.
  cbn [rev]. rewrite rev_involutive. reflexivity.
Qed.
Lemma w_write_str_last s0 c st : (c =? SP) = false ->
  w_write_str (s0 ++ [c]) st = (mkW (line_len st + spaces st + length (s0 ++ [c])) 0 true, sp_run (spaces st) ++ s0 ++ [c]).
Proof.
  intros H. unfold w_write_str, w_write_spaces. rewrite trim_end_last by exact H. rewrite Nat.sub_diag.
  destruct (s0 ++ [c]) eqn:E; [destruct s0; discriminate|]. reflexivity.
Qed.

(* ---------- the strategies ---------- *)
Lemma drop_while_split f v : exists p, v = p ++ drop_while f v /\ forallb f p = true.
Proof.
  induction v as [|b v IH]; [exists []; split; reflexivity|]. cbn [drop_while]. destruct (f b) eqn:E.
  - destruct IH as (p & A & B). exists (b :: p). split; [cbn; rewrite <- A; reflexivity|cbn; rewrite E; exact B].
  - exists []. split; reflexivity.
Qed.
Lemma drop_while_all f g v : (forall b, f b = true -> g b = true) -> forallb g (drop_while f v) = true -> forallb g v = true.
Proof.
  intros Hfg H. destruct (drop_while_split f v) as (p & A & B). rewrite A, forallb_app, H, andb_true_r.
  apply (forallb_impl f g); assumption.
Qed.

Definition f_plain (b : N) : bool := is_plain_b b.
Definition f_quoted (b : N) : bool := is_plain_b b || (b =? 32).
Definition f_escaped (b : N) : bool := is_plain_b b || (b =? 32) || (b =? 92) || (b =? 34).

Lemma strategy_plain v : qs_strategy v = SPlain -> forallb f_plain v = true.
Proof.
  unfold qs_strategy. destruct (drop_while is_plain_b v) as [|x1 r1] eqn:E.
  - intros _. apply (drop_while_all is_plain_b f_plain v); [auto|]. rewrite E. reflexivity.
  - destruct (drop_while _ (x1 :: r1)) as [|x2 r2]; [discriminate|]. destruct (drop_while _ (x2 :: r2)); discriminate.
Qed.
Lemma strategy_quoted v : qs_strategy v = SQuoted -> forallb f_quoted v = true.
Proof.
  unfold qs_strategy. destruct (drop_while is_plain_b v) as [|x1 r1] eqn:E; [discriminate|].
  destruct (drop_while (fun b => is_plain_b b || (b =? 32)) (x1 :: r1)) as [|x2 r2] eqn:E2.
  - intros _. apply (drop_while_all is_plain_b f_quoted v); [intros b Hb; unfold f_quoted; rewrite Hb; reflexivity|]. rewrite E.
    apply (drop_while_all (fun b => is_plain_b b || (b =? 32)) f_quoted (x1 :: r1)); [auto|]. rewrite E2. reflexivity.
  - destruct (drop_while _ (x2 :: r2)); discriminate.
Qed.
Lemma strategy_escaped v : qs_strategy v = SQuotedEscaped -> forallb f_escaped v = true.
Proof.
  unfold qs_strategy. destruct (drop_while is_plain_b v) as [|x1 r1] eqn:E; [discriminate|].
  destruct (drop_while (fun b => is_plain_b b || (b =? 32)) (x1 :: r1)) as [|x2 r2] eqn:E2; [discriminate|].
  destruct (drop_while (fun b => is_plain_b b || (b =? 32) || (b =? 92) || (b =? 34)) (x2 :: r2)) as [|x3 r3] eqn:E3; [|discriminate].
  intros _. apply (drop_while_all is_plain_b f_escaped v); [intros b Hb; unfold f_escaped; rewrite Hb; reflexivity|]. rewrite E.
  apply (drop_while_all (fun b => is_plain_b b || (b =? 32)) f_escaped (x1 :: r1)); [intros b Hb; unfold f_escaped; rewrite Hb; reflexivity|]. rewrite E2.
  apply (drop_while_all (fun b => is_plain_b b || (b =? 32) || (b =? 92) || (b =? 34)) f_escaped (x2 :: r2)); [auto|]. rewrite E3. reflexivity.
Qed.
Lemma strategy_2047_ne v : qs_strategy v = SRfc2047 -> v <> [].
Proof. intros H ->. discriminate. Qed.

Lemma plain_facts b : is_plain_b b = true -> is_wsp b = false /\ (b =? 34) = false /\ (b =? 92) = false /\ (b =? 63) = false /\ (b =? CR) = false /\ (b =? SP) = false.
Proof.
  unfold is_plain_b, is_alnum_ascii, is_alpha, is_upper, is_lower, is_digit, is_wsp, CR, SP, TAB. intros H. lia.
Qed.

(* ---------- the phrase reader ---------- *)
Fixpoint take_atom (l : bytes) : bytes * bytes :=
  match l with
  | [] => ([], [])
  | c :: r => if is_wsp c || (c =? 34) then ([], l) else let '(a, t) := take_atom r in (c :: a, t)
  end.
Definition atomic (w : bytes) : bool := forallb (fun c => negb (is_wsp c || (c =? 34))) w.
Definition stop (r : bytes) : bool := match r with [] => true | c :: _ => is_wsp c || (c =? 34) end.

Lemma take_atom_word w : forall r, atomic w = true -> stop r = true -> take_atom (w ++ r) = (w, r).
Proof.
  induction w as [|c w IH]; intros r Hw Hr.
  - destruct r as [|d r]; [reflexivity|]. cbn in *. rewrite Hr. reflexivity.
  - cbn in Hw. apply andb_prop in Hw. destruct Hw as [Hc Hw]. apply negb_true_iff in Hc. cbn [app take_atom]. rewrite Hc.
    rewrite (IH r Hw Hr). reflexivity.
Qed.

Lemma phrase_items_atom f w r : w <> [] -> atomic w = true -> stop r = true ->
  phrase_items (S f) (w ++ r) = option_map (cons (PAtom w)) (phrase_items f r).
Proof.
  intros Hne Hw Hr. destruct w as [|c w]; [contradiction|].
  cbn in Hw. apply andb_prop in Hw. destruct Hw as [Hc Hw]. pose proof (take_atom_word w r Hw Hr) as T.
  apply negb_true_iff in Hc. apply orb_false_iff in Hc. destruct Hc as [Hc1 Hc2].
  cbn [app phrase_items]. rewrite Hc1, Hc2. cbn [orb].
  change ((fix take (l : bytes) : bytes * bytes := match l with
      | [] => ([], [])
      | c0 :: r0 => if is_wsp c0 || (c0 =? 34) then ([], l) else let '(a, t) := take r0 in (c0 :: a, t)
      end) (w ++ r)) with (take_atom (w ++ r)).
  rewrite T. reflexivity.
Qed.
Lemma phrase_items_sp f b r : is_wsp b = true -> phrase_items (S f) (b :: r) = phrase_items f r.
Proof. intros H. cbn [phrase_items]. rewrite H. reflexivity. Qed.
Lemma phrase_items_q f l : phrase_items (S f) (34 :: l) =
  match read_qs l with Some (q, t) => option_map (cons (PQuoted q)) (phrase_items f t) | None => None end.
Proof. reflexivity. Qed.

Lemma read_qs_plain v : forall t, forallb f_quoted v = true -> read_qs (v ++ 34 :: t) = Some (v, t).
Proof.
  induction v as [|b v IH]; intros t H; [reflexivity|]. cbn in H. apply andb_prop in H. destruct H as [Hb Hv].
  cbn [app read_qs]. assert ((b =? 34) = false /\ (b =? 92) = false) as [A B].
  { unfold f_quoted in Hb. apply orb_prop in Hb. destruct Hb as [Hb|Hb]; [apply plain_facts in Hb; tauto|]. apply N.eqb_eq in Hb. subst b. split; reflexivity. }
  rewrite A, B, (IH t Hv). reflexivity.
Qed.
Lemma read_qs_escaped v : forall t, read_qs (escape_bytes v ++ 34 :: t) = Some (v, t).
Proof.
  induction v as [|b v IH]; intros t; [reflexivity|]. unfold escape_bytes. cbn [flat_map]. fold (escape_bytes v).
  destruct (b =? 92) eqn:E1.
  - apply N.eqb_eq in E1. subst b. cbn [app read_qs]. change (92 =? 34) with false. change (92 =? 92) with true. cbn [app]. rewrite IH. reflexivity.
  - destruct (b =? 34) eqn:E2.
    + apply N.eqb_eq in E2. subst b. cbn [app read_qs]. change (92 =? 34) with false. change (92 =? 92) with true. rewrite IH. reflexivity.
    + cbn [app read_qs]. rewrite E1, E2, IH. reflexivity.
Qed.

Definition b64atom (c : N) : bool := negb (is_wsp c || (c =? 34)).
Lemma b64_char_atom v : b64atom (b64_char v) = true.
Proof. unfold b64atom, is_wsp, b64_char, SP, TAB. destruct (v <? 26) eqn:A; [lia|]. destruct (v <? 52) eqn:B; [lia|].
       destruct (v <? 62) eqn:C; [lia|]. destruct (v =? 62); reflexivity. Qed.
Lemma b64enc_atom_n n : forall w, (length w <= n)%nat -> forallb b64atom (b64enc w) = true.
Proof.
  induction n as [|n IH]; intros w Hl.
  - destruct w; [reflexivity|cbn in Hl; lia].
  - destruct w as [|a [|b [|c r]]]; [reflexivity| | |]; cbn [b64enc forallb]; rewrite ?b64_char_atom; try reflexivity.
    cbn [andb]. apply IH. cbn in Hl. lia.
Qed.
Lemma encw_atomic p : atomic (encw p) = true.
Proof.
  unfold atomic, encw. rewrite !forallb_app. apply andb_true_intro. split; [reflexivity|]. apply andb_true_intro. split; [|reflexivity].
  apply (b64enc_atom_n (length p)). lia.
Qed.

(* ---------- what the reader makes of each form ---------- *)
Lemma nocr_unfold l : nocr l = true -> unfold l = l.
Proof. intros H. rewrite <- (app_nil_r l) at 1. rewrite unfold_nocr by exact H. cbn. apply app_nil_r. Qed.

Lemma decode_word_no_q w : forallb (fun c => negb (c =? 63)) w = true -> decode_word w = None.
Proof.
  intros H. unfold decode_word. destruct (Nat.ltb 75 (length w)); [reflexivity|]. rewrite split_q_last by exact H. reflexivity.
Qed.

Lemma phrase_plain v : forallb f_plain v = true -> decode_phrase v = Some v.
Proof.
  intros H. unfold decode_phrase.
  assert (Hn : nocr v = true) by (apply (forallb_impl f_plain); [intros x Hx; apply plain_facts in Hx; apply negb_true_iff; tauto|exact H]).
  rewrite (nocr_unfold v Hn). destruct v as [|c v]; [reflexivity|].
  rewrite <- (app_nil_r (c :: v)) at 2. rewrite phrase_items_atom; [|discriminate| |reflexivity].
  - cbn [length phrase_items option_map join_items]. rewrite decode_word_no_q.
    + cbn. rewrite app_nil_r. reflexivity.
    + apply (forallb_impl f_plain); [intros x Hx; apply plain_facts in Hx; apply negb_true_iff; tauto|exact H].
  - apply (forallb_impl f_plain); [|exact H]. intros x Hx. apply plain_facts in Hx. apply negb_true_iff. apply orb_false_iff. tauto.
Qed.

Lemma quoted_nocr v : forallb f_escaped v = true -> nocr v = true.
Proof.
  apply forallb_impl. intros x Hx. apply negb_true_iff. unfold f_escaped in Hx.
  destruct (is_plain_b x) eqn:P; [apply plain_facts in P; tauto|]. cbn [orb] in Hx. unfold CR. lia.
Qed.
Lemma f_quoted_escaped v : forallb f_quoted v = true -> forallb f_escaped v = true.
Proof. apply forallb_impl. intros x H. unfold f_quoted, f_escaped in *. rewrite H. reflexivity. Qed.

Lemma phrase_quoted v : forallb f_quoted v = true -> decode_phrase (34 :: v ++ [34]) = Some v.
Proof.
  intros H. unfold decode_phrase.
  assert (Hn : nocr (34 :: v ++ [34]) = true).
  { change (34 :: v ++ [34]) with ([34] ++ v ++ [34]). rewrite !nocr_app, (quoted_nocr v (f_quoted_escaped v H)). reflexivity. }
  rewrite (nocr_unfold _ Hn). cbn [length]. rewrite phrase_items_q, read_qs_plain by exact H.
  rewrite app_length. cbn [length]. replace (length v + 1)%nat with (S (length v)) by lia. cbn [phrase_items option_map join_items].
  cbn. rewrite app_nil_r. reflexivity.
Qed.

Lemma escape_nocr v : nocr v = true -> nocr (escape_bytes v) = true.
Proof.
  induction v as [|b v IH]; [reflexivity|]. intros H. cbn in H. apply andb_prop in H. destruct H as [Hb Hv].
  unfold escape_bytes. cbn [flat_map]. fold (escape_bytes v). rewrite nocr_app, (IH Hv), andb_true_r.
  destruct (b =? 92); [reflexivity|]. destruct (b =? 34); [reflexivity|]. cbn. rewrite Hb. reflexivity.
Qed.
Lemma phrase_escaped v : nocr v = true -> decode_phrase (34 :: escape_bytes v ++ [34]) = Some v.
Proof.
  intros H. unfold decode_phrase.
  assert (Hn : nocr (34 :: escape_bytes v ++ [34]) = true).
  { change (34 :: escape_bytes v ++ [34]) with ([34] ++ escape_bytes v ++ [34]). rewrite !nocr_app, (escape_nocr v H). reflexivity. }
  rewrite (nocr_unfold _ Hn). cbn [length]. rewrite phrase_items_q, read_qs_escaped.
  rewrite app_length. cbn [length]. replace (length (escape_bytes v) + 1)%nat with (S (length (escape_bytes v))) by lia.
  cbn [phrase_items option_map join_items]. cbn. rewrite app_nil_r. reflexivity.
Qed.

Lemma stop_joinenc_tail q ps : stop (SP :: joinenc (q :: ps)) = true.
Proof. reflexivity. Qed.
Lemma phrase_items_group ps : forall f, ps <> [] -> (2 * length ps <= f)%nat ->
  phrase_items f (joinenc ps) = Some (map (fun p => PAtom (encw p)) ps).
Proof.
  induction ps as [|p ps IH]; intros f Hne Hf; [contradiction|]. destruct f as [|f]; [cbn [length] in Hf; lia|].
  destruct ps as [|q ps'].
  - cbn [joinenc]. rewrite <- (app_nil_r (encw p)). rewrite phrase_items_atom; [|apply encw_ne|apply encw_atomic|reflexivity].
    destruct f; [cbn [length] in Hf; lia|]. reflexivity.
  - change (joinenc (p :: q :: ps')) with (encw p ++ SP :: joinenc (q :: ps')).
    rewrite phrase_items_atom; [|apply encw_ne|apply encw_atomic|reflexivity].
    destruct f as [|f]; [cbn [length] in Hf; lia|]. rewrite phrase_items_sp by reflexivity.
    rewrite IH; [reflexivity|discriminate|cbn [length] in *; lia].
Qed.
Lemma join_items_group ps : forall first pe, Forall piece_ok ps -> first || pe = true ->
  join_items (map (fun p => PAtom (encw p)) ps) first pe = concat ps.
Proof.
  induction ps as [|p ps IH]; intros first pe F H; [reflexivity|]. inversion F as [|? ? Hp F']; subst.
  cbn [map join_items concat]. rewrite (encw_dec p Hp). rewrite H. cbn [app]. f_equal. apply IH; [exact F'|reflexivity].
Qed.
Lemma joinenc_len ps : (2 * length ps <= S (length (joinenc ps)))%nat.
Proof.
  induction ps as [|p ps IH]; [cbn; lia|]. destruct ps as [|q ps'].
  - cbn [joinenc length]. unfold encw. rewrite !app_length. change (length ENC_START) with 10%nat. lia.
  - change (joinenc (p :: q :: ps')) with (encw p ++ SP :: joinenc (q :: ps')). rewrite app_length. cbn [length] in *.
    unfold encw. rewrite !app_length. change (length ENC_START) with 10%nat. lia.
Qed.
Lemma nocr_joinenc ps : nocr (joinenc ps) = true.
Proof.
  induction ps as [|p ps IH]; [reflexivity|]. destruct ps as [|q ps']; [apply nocr_encw|].
  change (joinenc (p :: q :: ps')) with (encw p ++ [SP] ++ joinenc (q :: ps')). rewrite !nocr_app, nocr_encw, IH. reflexivity.
Qed.
Lemma phrase_group ps : ps <> [] -> Forall piece_ok ps -> decode_phrase (joinenc ps) = Some (concat ps).
Proof.
  intros Hne F. unfold decode_phrase. rewrite (nocr_unfold _ (nocr_joinenc ps)).
  rewrite phrase_items_group; [|exact Hne|apply joinenc_len]. rewrite join_items_group; [reflexivity|exact F|reflexivity].
Qed.

(* ---------- what the encoder writes for each form ---------- *)
Definition writes (st : wst) (r : res unit (wst * bytes)) (text : bytes) : Prop :=
  exists st' o e, r = Ok (st', o) /\ reads_as o e /\ e ++ sp_run (spaces st') = sp_run (spaces st) ++ text.

Lemma escaped_fold v : forall st acc, forallb f_escaped v = true ->
  exists st' o e,
    fold_left (fun '(s, o) b =>
                 let '(s', o') := fold_write_str (if b =? 92 then [92; 92] else if b =? 34 then [92; 34] else [b]) s in (s', o ++ o')) v (st, acc) = (st', acc ++ o) /\
    reads_as o e /\ e ++ sp_run (spaces st') = sp_run (spaces st) ++ escape_bytes v.
Proof.
  induction v as [|b v IH]; intros st acc H.
  - exists st, [], []. cbn. rewrite !app_nil_r. split; [reflexivity|]. split; [apply reads_as_nil|reflexivity].
  - cbn in H. apply andb_prop in H. destruct H as [Hb Hv]. cbn [fold_left]. cbv beta iota zeta.
    set (piece := if b =? 92 then [92; 92] else if b =? 34 then [92; 34] else [b]).
    assert (Hp : nocr piece = true).
    { unfold piece. destruct (b =? 92); [reflexivity|]. destruct (b =? 34); [reflexivity|]. apply (quoted_nocr [b]). cbn. rewrite Hb. reflexivity. }
    destruct (fold_write_str piece st) as [s1 o1] eqn:E1.
    destruct (fold_write_str_sem piece st s1 o1 Hp E1) as (e1 & R1 & Q1).
    destruct (IH s1 (acc ++ o1) Hv) as (st' & o & e & E & R & Q). exists st', (o1 ++ o), (e1 ++ e).
    change (fold_write_str (if b =? 92 then [92; 92] else if b =? 34 then [92; 34] else [b]) st) with (fold_write_str piece st). rewrite E1.
    split; [transitivity (st', (acc ++ o1) ++ o); [exact E|rewrite <- app_assoc; reflexivity]|]. split; [apply reads_as_app; assumption|].
    rewrite <- app_assoc, Q, app_assoc, Q1, <- app_assoc. unfold escape_bytes. cbn [flat_map]. reflexivity.
Qed.

Lemma quoted_string_writes n st : nc4 n = true -> bytes_ok n = true ->
  exists ph, writes st (quoted_string_encode n st) ph /\ decode_phrase ph = Some n /\ nocr ph = true.
Proof.
  intros Hn Hb. unfold quoted_string_encode. destruct (qs_strategy n) eqn:S.
  - (* as it is *)
    pose proof (strategy_plain n S) as P. exists n. split; [|split; [apply phrase_plain; exact P|]].
    + destruct n as [|c n'].
      * exists (mkW (line_len st + spaces st) 0 (can_fold st)), (sp_run (spaces st)), (sp_run (spaces st)).
        split; [reflexivity|]. split; [apply reads_as_nocr; apply nocr_sp_run|]. cbn. rewrite !app_nil_r. reflexivity.
      * rewrite w_write_str_word; [|discriminate|].
        -- eexists _, _, _. split; [reflexivity|]. split; [apply reads_as_nocr|cbn [spaces sp_run repeat]; rewrite app_nil_r; reflexivity].
           rewrite nocr_app, nocr_sp_run. apply (forallb_impl f_plain); [intros x Hx; apply plain_facts in Hx; apply negb_true_iff; tauto|exact P].
        -- apply wordb_mem_sp. apply (forallb_impl f_plain); [|exact P]. intros x Hx. apply plain_facts in Hx. apply negb_true_iff. tauto.
    + apply (forallb_impl f_plain); [intros x Hx; apply plain_facts in Hx; apply negb_true_iff; tauto|exact P].
  - (* between quotes *)
    pose proof (strategy_quoted n S) as P. pose proof (quoted_nocr n (f_quoted_escaped n P)) as Hcr.
    exists (34 :: n ++ [34]). split; [|split; [apply phrase_quoted; exact P|]].
    + rewrite w_write_char_sem by reflexivity. set (st1 := mkW _ 0 true).
      destruct (fold_write_str n st1) as [st2 o2] eqn:E2. destruct (fold_write_str_sem n st1 st2 o2 Hcr E2) as (e2 & R2 & Q2).
      rewrite w_write_char_sem by reflexivity. eexists _, _, ((sp_run (spaces st) ++ [34]) ++ e2 ++ (sp_run (spaces st2) ++ [34])).
      split; [reflexivity|]. split.
      * apply reads_as_app; [apply reads_as_nocr; rewrite nocr_app, nocr_sp_run; reflexivity|]. apply reads_as_app; [exact R2|].
        apply reads_as_nocr. rewrite nocr_app, nocr_sp_run. reflexivity.
      * cbn [spaces sp_run repeat]. rewrite app_nil_r. rewrite (app_assoc e2), Q2. cbn [spaces sp_run repeat app]. rewrite <- !app_assoc. reflexivity.
    + change (34 :: n ++ [34]) with ([34] ++ n ++ [34]). rewrite !nocr_app, Hcr. reflexivity.
  - (* between quotes, with quoted-pairs *)
    pose proof (strategy_escaped n S) as P. pose proof (quoted_nocr n P) as Hcr.
    exists (34 :: escape_bytes n ++ [34]). split; [|split; [apply phrase_escaped; exact Hcr|]].
    + rewrite w_write_char_sem by reflexivity. set (st1 := mkW _ 0 true).
      destruct (escaped_fold n st1 [] P) as (st2 & o2 & e2 & E2 & R2 & Q2).
      match goal with |- context [fold_left ?F n (st1, [])] => assert (E2' : fold_left F n (st1, []) = (st2, [] ++ o2)) by exact E2; rewrite E2' end. cbn [app].
      rewrite w_write_char_sem by reflexivity. eexists _, _, ((sp_run (spaces st) ++ [34]) ++ e2 ++ (sp_run (spaces st2) ++ [34])).
      split; [reflexivity|]. split.
      * apply reads_as_app; [apply reads_as_nocr; rewrite nocr_app, nocr_sp_run; reflexivity|]. apply reads_as_app; [exact R2|].
        apply reads_as_nocr. rewrite nocr_app, nocr_sp_run. reflexivity.
      * cbn [spaces sp_run repeat]. rewrite app_nil_r. rewrite (app_assoc e2), Q2. cbn [spaces sp_run repeat app]. rewrite <- !app_assoc. reflexivity.
    + change (34 :: escape_bytes n ++ [34]) with ([34] ++ escape_bytes n ++ [34]). rewrite !nocr_app, (escape_nocr n Hcr). reflexivity.
  - (* encoded-words *)
    pose proof (strategy_2047_ne n S) as Hne. unfold rfc2047_encode.
    destruct (rfc2047_go_sem (2 * length n + 2) n false st Hne Hn Hb) as (ps & st' & o & E & Hsp & Hpn & HF & Hc & HR & _);
      [unfold req; destruct (Nat.eqb (line_len st) 0); lia|left; reflexivity|].
    exists (joinenc ps). split; [|split; [rewrite phrase_group by assumption; rewrite Hc; reflexivity|apply nocr_joinenc]].
    exists st', o, (sp_run (spaces st) ++ joinenc ps). split; [exact E|]. split; [exact HR|]. rewrite Hsp. cbn. rewrite app_nil_r. reflexivity.
Qed.

(* name <address> as the only mailbox of a header *)
Theorem display_name_roundtrip hname n e0 c : nc4 n = true -> bytes_ok n = true ->
  nocr (e0 ++ [c]) = true -> (c =? SP) = false ->
  exists e ph, mailboxes_header_encode hname [(Some n, e0 ++ [c])] = Ok e /\
    unfold e = ph ++ bs " <" ++ (e0 ++ [c]) ++ bs ">" /\ decode_phrase ph = Some n.
Proof.
  intros Hn Hb Hcr Hc. unfold mailboxes_header_encode. cbn [mailboxes_encode_go mailbox_encode].
  set (st0 := mkW (length hname + 2) 0 false).
  destruct (quoted_string_writes n st0 Hn Hb) as (ph & (st1 & o1 & e1 & E1 & R1 & Q1) & Hd & Hpc).
  rewrite E1. rewrite w_write_char_sem by reflexivity. rewrite w_write_str_last by exact Hc. rewrite w_write_char_sem by reflexivity.
  cbn [finish spaces line_len w_space sp_run repeat app]. eexists _, ph. split; [reflexivity|]. split; [|exact Hd].
  rewrite !app_nil_r.
  assert (R : reads_as (o1 ++ (SP :: sp_run (spaces st1) ++ [60]) ++ (e0 ++ [c]) ++ [62]) (e1 ++ (SP :: sp_run (spaces st1) ++ [60]) ++ (e0 ++ [c]) ++ [62])).
  { apply reads_as_app; [exact R1|]. apply reads_as_nocr. change (SP :: sp_run (spaces st1) ++ [60]) with ([SP] ++ sp_run (spaces st1) ++ [60]).
    pose proof Hcr as Hcr2. rewrite nocr_app in Hcr2. rewrite !nocr_app, nocr_sp_run, Hcr2. reflexivity. }
  pose proof (R []) as R0. rewrite app_nil_r in R0. cbn [unfold] in R0. rewrite app_nil_r in R0.
  change (unfold (o1 ++ (SP :: sp_run (spaces st1) ++ [60]) ++ (e0 ++ [c]) ++ [62]) = ph ++ bs " <" ++ (e0 ++ [c]) ++ bs ">").
  rewrite R0. cbn [spaces sp_run repeat app] in Q1.
  change (SP :: sp_run (spaces st1) ++ [60]) with (sp_run (S (spaces st1)) ++ [60]). rewrite sp_run_snoc.
  rewrite <- !app_assoc. rewrite (app_assoc e1), Q1. cbn [bs app]. rewrite <- !app_assoc. reflexivity.
Qed.

Theorem display_name_roundtrip_utf8 hname n e0 c : utf8_valid n = true -> nocr (e0 ++ [c]) = true -> (c =? SP) = false ->
  exists e ph, mailboxes_header_encode hname [(Some n, e0 ++ [c])] = Ok e /\
    unfold e = ph ++ bs " <" ++ (e0 ++ [c]) ++ bs ">" /\ decode_phrase ph = Some n.
Proof.
  intros H. apply display_name_roundtrip; [apply utf8_valid_nc4; exact H|apply (utf8_valid_fuel_bytes_ok _ _ H)].
Qed.
