(* ServerInfo::from_response reads the EHLO keywords and the AUTH mechanisms from exactly the lines of the reply
   that carry them: a feature is recorded iff some line after the first has that keyword as its first word (in any
   letter case), a mechanism iff some line whose first word is AUTH lists it; nothing else in the reply matters. *)
From Coq Require Import Strings.String.
From LV Require Import Base.Bytes Base.Str Base.Utf8 Base.Res Model.Response Model.ServerInfo.
From Coq Require Import Lia Bool.

Definition first_is (kw : bytes) (line : bytes) : bool :=
  match split_ws line with w :: _ => eq_ignore_case w kw | [] => false end.
Definition auth_lists (m : bytes) (line : bytes) : bool :=
  match split_ws line with w :: rest => eq_ignore_case w (bs "AUTH") && existsb (fun x => eq_ignore_case x m) rest | [] => false end.

Lemma list_eqb_true a : forall b, list_eqb a b = true -> a = b.
Proof.
  induction a as [|x a IH]; intros [|y b] H; try discriminate H; [reflexivity|].
  cbn [list_eqb] in H. apply andb_prop in H. destruct H as [A B]. apply N.eqb_eq in A. rewrite A, (IH b B). reflexivity.
Qed.
Lemma eq_ic_excl w a b : map to_lower a <> map to_lower b -> eq_ignore_case w a = true -> eq_ignore_case w b = false.
Proof.
  unfold eq_ignore_case. intros Hne Ha. destruct (list_eqb (map to_lower w) (map to_lower b)) eqn:Hb; [|reflexivity].
  apply list_eqb_true in Ha. apply list_eqb_true in Hb. exfalso. apply Hne. rewrite <- Ha, <- Hb. reflexivity.
Qed.

Record flags_rel (i i' : sinfo) (p l x : bool) : Prop := {
  fr_name : si_name i' = si_name i; fr_8 : f_8bit i' = f_8bit i; fr_u : f_utf8 i' = f_utf8 i; fr_s : f_starttls i' = f_starttls i;
  fr_p : f_plain i' = f_plain i || p; fr_l : f_login i' = f_login i || l; fr_x : f_xoauth2 i' = f_xoauth2 i || x }.

Lemma set_mech_rel i w : flags_rel i (set_mech i w) (eq_ignore_case w (bs "PLAIN")) (eq_ignore_case w (bs "LOGIN")) (eq_ignore_case w (bs "XOAUTH2")).
Proof.
  unfold set_mech. destruct (eq_ignore_case w (bs "PLAIN")) eqn:E1.
  - rewrite (eq_ic_excl w (bs "PLAIN") (bs "LOGIN")), (eq_ic_excl w (bs "PLAIN") (bs "XOAUTH2")) by (try exact E1; vm_compute; discriminate).
    constructor; cbn; rewrite ?orb_false_r, ?orb_true_r; reflexivity.
  - destruct (eq_ignore_case w (bs "LOGIN")) eqn:E2.
    + rewrite (eq_ic_excl w (bs "LOGIN") (bs "XOAUTH2")) by (try exact E2; vm_compute; discriminate).
      constructor; cbn; rewrite ?orb_false_r, ?orb_true_r; reflexivity.
    + destruct (eq_ignore_case w (bs "XOAUTH2")) eqn:E3; constructor; cbn; rewrite ?orb_false_r, ?orb_true_r; reflexivity.
Qed.

Lemma fold_mech_rel ws : forall i, flags_rel i (fold_left set_mech ws i)
  (existsb (fun x => eq_ignore_case x (bs "PLAIN")) ws) (existsb (fun x => eq_ignore_case x (bs "LOGIN")) ws)
  (existsb (fun x => eq_ignore_case x (bs "XOAUTH2")) ws).
Proof.
  induction ws as [|w ws IH]; intros i.
  - constructor; cbn; rewrite ?orb_false_r; reflexivity.
  - cbn [fold_left existsb]. destruct (IH (set_mech i w)) as [A1 A2 A3 A4 A5 A6 A7]. destruct (set_mech_rel i w) as [B1 B2 B3 B4 B5 B6 B7].
    constructor; try congruence.
    + rewrite A5, B5, orb_assoc. reflexivity.
    + rewrite A6, B6, orb_assoc. reflexivity.
    + rewrite A7, B7, orb_assoc. reflexivity.
Qed.

(* everything one line contributes *)
Record line_rel (i i' : sinfo) (line : bytes) : Prop := {
  lr_name : si_name i' = si_name i;
  lr_8 : f_8bit i' = f_8bit i || first_is (bs "8BITMIME") line;
  lr_u : f_utf8 i' = f_utf8 i || first_is (bs "SMTPUTF8") line;
  lr_s : f_starttls i' = f_starttls i || first_is (bs "STARTTLS") line;
  lr_p : f_plain i' = f_plain i || auth_lists (bs "PLAIN") line;
  lr_l : f_login i' = f_login i || auth_lists (bs "LOGIN") line;
  lr_x : f_xoauth2 i' = f_xoauth2 i || auth_lists (bs "XOAUTH2") line }.

Lemma split_ws_nil : split_ws [] = []. Proof. reflexivity. Qed.

Lemma info_line_rel i line i' : info_line i line = Some i' -> line_rel i i' line.
Proof.
  unfold info_line. intros H.
  assert (G : match split_ws line with
              | [] => Some i
              | w :: rest =>
                if eq_ignore_case w (bs "8BITMIME") then Some (mkInfo (si_name i) true (f_utf8 i) (f_starttls i) (f_plain i) (f_login i) (f_xoauth2 i))
                else if eq_ignore_case w (bs "SMTPUTF8") then Some (mkInfo (si_name i) (f_8bit i) true (f_starttls i) (f_plain i) (f_login i) (f_xoauth2 i))
                else if eq_ignore_case w (bs "STARTTLS") then Some (mkInfo (si_name i) (f_8bit i) (f_utf8 i) true (f_plain i) (f_login i) (f_xoauth2 i))
                else if eq_ignore_case w (bs "AUTH") then Some (fold_left set_mech rest i)
                else Some i
              end = Some i').
  { destruct line; [rewrite split_ws_nil|]; exact H. }
  clear H. destruct (split_ws line) as [|w rest] eqn:Es.
  - injection G as <-. constructor; unfold first_is, auth_lists; rewrite ?Es, ?orb_false_r; reflexivity.
  - destruct (eq_ignore_case w (bs "8BITMIME")) eqn:E1.
    { injection G as <-.
      pose proof (eq_ic_excl w (bs "8BITMIME") (bs "SMTPUTF8") ltac:(vm_compute; discriminate) E1) as X1.
      pose proof (eq_ic_excl w (bs "8BITMIME") (bs "STARTTLS") ltac:(vm_compute; discriminate) E1) as X2.
      pose proof (eq_ic_excl w (bs "8BITMIME") (bs "AUTH") ltac:(vm_compute; discriminate) E1) as X3.
      constructor; unfold first_is, auth_lists; rewrite ?Es, ?E1, ?X1, ?X2, ?X3; cbn [andb f_8bit f_utf8 f_starttls f_plain f_login f_xoauth2 si_name]; rewrite ?orb_false_r, ?orb_true_r; reflexivity. }
    destruct (eq_ignore_case w (bs "SMTPUTF8")) eqn:E2.
    { injection G as <-.
      pose proof (eq_ic_excl w (bs "SMTPUTF8") (bs "STARTTLS") ltac:(vm_compute; discriminate) E2) as X2.
      pose proof (eq_ic_excl w (bs "SMTPUTF8") (bs "AUTH") ltac:(vm_compute; discriminate) E2) as X3.
      constructor; unfold first_is, auth_lists; rewrite ?Es, ?E1, ?E2, ?X2, ?X3; cbn [andb f_8bit f_utf8 f_starttls f_plain f_login f_xoauth2 si_name]; rewrite ?orb_false_r, ?orb_true_r; reflexivity. }
    destruct (eq_ignore_case w (bs "STARTTLS")) eqn:E3.
    { injection G as <-.
      pose proof (eq_ic_excl w (bs "STARTTLS") (bs "AUTH") ltac:(vm_compute; discriminate) E3) as X3.
      constructor; unfold first_is, auth_lists; rewrite ?Es, ?E1, ?E2, ?E3, ?X3; cbn [andb f_8bit f_utf8 f_starttls f_plain f_login f_xoauth2 si_name]; rewrite ?orb_false_r, ?orb_true_r; reflexivity. }
    destruct (eq_ignore_case w (bs "AUTH")) eqn:E4.
    { injection G as <-. destruct (fold_mech_rel rest i) as [A1 A2 A3 A4 A5 A6 A7].
      constructor; unfold first_is, auth_lists; rewrite ?Es, ?E1, ?E2, ?E3, ?E4; cbn [andb]; rewrite ?orb_false_r; assumption. }
    injection G as <-. constructor; unfold first_is, auth_lists; rewrite ?Es, ?E1, ?E2, ?E3, ?E4; cbn [andb]; rewrite ?orb_false_r; reflexivity.
Qed.

Lemma info_lines_rel ls : forall i i', info_lines i ls = Some i' ->
  si_name i' = si_name i /\
  f_8bit i' = f_8bit i || existsb (first_is (bs "8BITMIME")) ls /\
  f_utf8 i' = f_utf8 i || existsb (first_is (bs "SMTPUTF8")) ls /\
  f_starttls i' = f_starttls i || existsb (first_is (bs "STARTTLS")) ls /\
  f_plain i' = f_plain i || existsb (auth_lists (bs "PLAIN")) ls /\
  f_login i' = f_login i || existsb (auth_lists (bs "LOGIN")) ls /\
  f_xoauth2 i' = f_xoauth2 i || existsb (auth_lists (bs "XOAUTH2")) ls.
Proof.
  induction ls as [|l ls IH]; intros i i' H; cbn [info_lines existsb] in *.
  - injection H as <-. rewrite !orb_false_r. repeat split; reflexivity.
  - destruct (info_line i l) as [i1|] eqn:E; [|discriminate H].
    destruct (info_line_rel _ _ _ E) as [B1 B2 B3 B4 B5 B6 B7].
    destruct (IH _ _ H) as (A1 & A2 & A3 & A4 & A5 & A6 & A7).
    rewrite A1, A2, A3, A4, A5, A6, A7, B1, B2, B3, B4, B5, B6, B7, !orb_assoc. repeat split; reflexivity.
Qed.

Theorem from_response_exact r i : from_response r = Ok i ->
  first_word r = Some (si_name i) /\
  f_8bit i = existsb (first_is (bs "8BITMIME")) (tl (rlines r)) /\
  f_utf8 i = existsb (first_is (bs "SMTPUTF8")) (tl (rlines r)) /\
  f_starttls i = existsb (first_is (bs "STARTTLS")) (tl (rlines r)) /\
  f_plain i = existsb (auth_lists (bs "PLAIN")) (tl (rlines r)) /\
  f_login i = existsb (auth_lists (bs "LOGIN")) (tl (rlines r)) /\
  f_xoauth2 i = existsb (auth_lists (bs "XOAUTH2")) (tl (rlines r)).
Proof.
  unfold from_response. destruct (first_word r) as [name|]; [|discriminate].
  destruct (info_lines _ (tl (rlines r))) as [i1|] eqn:E; [|discriminate]. intros H. injection H as <-.
  destruct (info_lines_rel _ _ _ E) as (A1 & A2 & A3 & A4 & A5 & A6 & A7). cbn in *.
  rewrite A1. repeat split; assumption.
Qed.
Print Assumptions from_response_exact.
