(* C20: in the client model a read that finds no complete line while the peer has not closed is a blocked
   read; it is the only source of errors flagged as timeouts, and it ends the operation at once. *)
From Coq Require Import Strings.String.
From LV Require Import Base.Bytes Base.Str Base.Utf8 Base.Res Base.Base64
  Model.Codec Model.Response Model.ServerInfo Model.Auth Model.Client Proofs.ClientProofs.
From Coq Require Import Lia.

Definition TIMEOUT : error := mkErr ENetwork None [] true.

Lemma blocked_read s : closed s = false -> split_lf (inbuf s) = None ->
  read_response s = (Err TIMEOUT, upd_in s []).
Proof.
  intros Hc Hl. unfold read_response. cbn [read_loop]. unfold read_line. rewrite Hl, Hc. reflexivity.
Qed.

Lemma code_error_no_timeout r : etimeout (code_error r) = false.
Proof. unfold code_error. destruct (sev (rcode r) =? 4)%N; [reflexivity|]. destruct (sev (rcode r) =? 5)%N; reflexivity. Qed.

Lemma read_loop_timeout fuel : forall buffer s e s',
  read_loop fuel buffer s = (Err e, s') -> etimeout e = true -> e = TIMEOUT /\ inbuf s' = [].
Proof.
  induction fuel as [|f IH]; intros buffer s e s' H Ht; cbn [read_loop] in H; [discriminate|].
  destruct (read_line (inbuf s) (closed s)) as [l rest| |rest|].
  - destruct (parse_response (buffer ++ l)) as [r rem| | |];
      try (inversion H; subst; cbn in Ht; discriminate Ht); try exact (IH _ _ _ _ H Ht).
    destruct (is_positive r); inversion H; subst. rewrite code_error_no_timeout in Ht. discriminate Ht.
  - inversion H; subst. cbn in Ht. discriminate Ht.
  - inversion H; subst. cbn in Ht. discriminate Ht.
  - inversion H; subst. split; reflexivity.
Qed.

Lemma timeout_only_when_blocked s e s' :
  read_response s = (Err e, s') -> etimeout e = true -> e = TIMEOUT /\ inbuf s' = [].
Proof. unfold read_response. apply read_loop_timeout. Qed.

Lemma shut_refuses line s : shut s = true -> command line s = (Err e_net, s).
Proof. intros H. unfold command. rewrite H. reflexivity. Qed.
