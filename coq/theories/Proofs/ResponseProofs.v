(* parse_response: soundness (what is accepted is exactly an RFC 5321 4.2 reply, and nothing
   else was consumed) and completeness (every well-formed reply parses back to itself). *)
From LV Require Import Base.Bytes Base.Utf8 Model.Response.
From Coq Require Import Lia.
Local Arguments N.eqb : simpl never.

(* ---------- starts_with / find_sub ---------- *)
Lemma starts_with_split p : forall l, starts_with p l = true -> exists t, l = p ++ t.
Proof.
  induction p as [|x p IH]; intros l H; [exists l; reflexivity|].
  destruct l as [|y l]; [discriminate|]. cbn in H. apply andb_prop in H. destruct H as [E H].
  apply N.eqb_eq in E; subst. destruct (IH _ H) as [t ->]. exists t; reflexivity.
Qed.
Lemma starts_with_app_l p : forall a b, starts_with p a = true -> starts_with p (a ++ b) = true.
Proof.
  induction p as [|x p IH]; intros a b H; [reflexivity|].
  destruct a as [|y a]; [discriminate|]. cbn in *. apply andb_prop in H. destruct H as [E H].
  rewrite E, (IH _ _ H). reflexivity.
Qed.
Lemma starts_with_refl p t : starts_with p (p ++ t) = true.
Proof. induction p as [|x p IH]; [reflexivity|]. cbn. now rewrite N.eqb_refl, IH. Qed.

Lemma find_sub_spec p : forall l a b, find_sub p l = Some (a, b) ->
  l = a ++ b /\ starts_with p b = true /\ (p <> [] -> find_sub p a = None).
Proof.
  induction l as [|x l IH]; intros a b H.
  - cbn in H. destruct (starts_with p []) eqn:E; [|discriminate]. inversion H; subst.
    repeat split; auto. intros Hp. destruct p; [contradiction|reflexivity].
  - cbn [find_sub] in H. destruct (starts_with p (x :: l)) eqn:E.
    + inversion H; subst. repeat split; auto. intros Hp. destruct p; [contradiction|reflexivity].
    + destruct (find_sub p l) as [[a' b']|] eqn:F; [|discriminate]. inversion H; subst.
      destruct (IH _ _ eq_refl) as (L & S & Nn). repeat split; [cbn; now f_equal | exact S |].
      intros Hp. cbn [find_sub].
      destruct (starts_with p (x :: a')) eqn:E2.
      * rewrite L in E. change (x :: a' ++ b) with ((x :: a') ++ b) in E.
        rewrite (starts_with_app_l _ _ _ E2) in E. discriminate.
      * rewrite (Nn Hp). reflexivity.
Qed.

Definition no_crlf (t : bytes) : Prop := find_sub CRLF t = None.

Lemma find_crlf_after t : forall rest, no_crlf t -> find_sub CRLF (t ++ CRLF ++ rest) = Some (t, CRLF ++ rest).
Proof.
  unfold no_crlf. induction t as [|x t IH]; intros rest H.
  - reflexivity.
  - cbn [find_sub] in H. destruct (starts_with CRLF (x :: t)) eqn:E; [discriminate|].
    destruct (find_sub CRLF t) as [[a b]|] eqn:F; [discriminate|].
    cbn [app find_sub].
    assert (E2 : starts_with CRLF (x :: t ++ CRLF ++ rest) = false).
    { cbn. destruct (CR =? x) eqn:Ex; [|reflexivity]. cbn [andb].
      destruct t as [|y t]; [reflexivity|]. cbn in E. rewrite Ex in E. cbn [andb] in E.
      cbn. destruct (LF =? y); [discriminate|reflexivity]. }
    change (x :: t ++ CRLF ++ rest) with (x :: (t ++ CRLF ++ rest)) in *.
    rewrite E2, (IH rest eq_refl). reflexivity.
Qed.

(* ---------- code ---------- *)
Definition code_ok (c : code) : Prop := 2 <= sev c <= 5 /\ cat c <= 5 /\ det c <= 9.

Lemma parse_digit_spec lo hi i d i' : 48 <= lo ->
  parse_digit lo hi i = Done d i' -> i = (d + 48) :: i' /\ lo <= d + 48 <= hi.
Proof.
  intros Hlo. unfold parse_digit. destruct i as [|b r]; [discriminate|].
  destruct ((lo <=? b) && (b <=? hi)) eqn:E; [|discriminate]. intros H; inversion H; subst.
  apply andb_prop in E. destruct E as [A B]. apply N.leb_le in A, B.
  replace (b - 48 + 48) with b by lia. split; [reflexivity|lia].
Qed.

Lemma parse_code_spec i c i' : parse_code i = Done c i' -> i = digits c ++ i' /\ code_ok c.
Proof.
  unfold parse_code.
  destruct (parse_digit 50 53 i) as [s i1| | |] eqn:E1; try discriminate.
  destruct (parse_digit 48 53 i1) as [k i2| | |] eqn:E2; try discriminate.
  destruct (parse_digit 48 57 i2) as [d i3| | |] eqn:E3; try discriminate.
  intros H; inversion H; subst.
  apply parse_digit_spec in E1, E2, E3; try lia.
  destruct E1 as [-> ?], E2 as [-> ?], E3 as [-> ?]. unfold code_ok, digits; cbn. split; [reflexivity|lia].
Qed.

Lemma parse_code_digits c rest : code_ok c -> parse_code (digits c ++ rest) = Done c rest.
Proof.
  intros (Hs & Hc & Hd). unfold parse_code, digits, parse_digit. cbn [app].
  replace ((50 <=? sev c + 48) && (sev c + 48 <=? 53)) with true
    by (symmetry; apply andb_true_intro; split; apply N.leb_le; lia).
  replace ((48 <=? cat c + 48) && (cat c + 48 <=? 53)) with true
    by (symmetry; apply andb_true_intro; split; apply N.leb_le; lia).
  replace ((48 <=? det c + 48) && (det c + 48 <=? 57)) with true
    by (symmetry; apply andb_true_intro; split; apply N.leb_le; lia).
  replace (sev c + 48 - 48) with (sev c) by lia.
  replace (cat c + 48 - 48) with (cat c) by lia.
  replace (det c + 48 - 48) with (det c) by lia.
  destruct c; reflexivity.
Qed.

(* ---------- lines ---------- *)
Lemma take_line_spec i t i' : take_line i = Done t i' -> i = t ++ CRLF ++ i' /\ no_crlf t.
Proof.
  unfold take_line. destruct (find_sub CRLF i) as [[a b]|] eqn:F; [|discriminate].
  intros H; inversion H; subst. destruct (find_sub_spec _ _ _ _ F) as (L & S & Nn).
  destruct (starts_with_split _ _ S) as [r ->]. cbn [skipn app]. split; [exact L|].
  apply Nn. discriminate.
Qed.
Lemma take_line_ok t rest : no_crlf t -> take_line (t ++ CRLF ++ rest) = Done t rest.
Proof. intros H. unfold take_line. rewrite (find_crlf_after t rest H). reflexivity. Qed.

Definition render_cont (x : code * bytes) : bytes := digits (fst x) ++ [45] ++ snd x ++ CRLF.

Lemma cont_line_spec i x i' : cont_line i = Done x i' ->
  i = render_cont x ++ i' /\ code_ok (fst x) /\ no_crlf (snd x).
Proof.
  unfold cont_line. destruct (parse_code i) as [c i1| | |] eqn:E1; try discriminate.
  unfold tag1. destruct i1 as [|b i2]; [discriminate|]. destruct (b =? 45) eqn:Eb; [|discriminate].
  destruct (take_line i2) as [t i3| | |] eqn:E3; try discriminate.
  intros H; inversion H; subst. apply parse_code_spec in E1. destruct E1 as [-> Hc].
  apply take_line_spec in E3. destruct E3 as [-> Ht]. apply N.eqb_eq in Eb; subst.
  unfold render_cont. cbn [fst snd]. rewrite <- ?app_assoc. cbn. auto.
Qed.

Lemma cont_line_ok c t rest : code_ok c -> no_crlf t ->
  cont_line (render_cont (c, t) ++ rest) = Done (c, t) rest.
Proof.
  intros Hc Ht. unfold cont_line, render_cont. cbn [fst snd]. rewrite <- ?app_assoc.
  rewrite (parse_code_digits c _ Hc). cbn [app tag1]. change (45 =? 45) with true. cbn iota.
  rewrite <- ?app_assoc. rewrite (take_line_ok t rest Ht). reflexivity.
Qed.

Lemma many_cont_spec fuel : forall i acc ls i', many_cont fuel i acc = Done ls i' ->
  exists new, ls = rev acc ++ new /\ i = flat_map render_cont new ++ i' /\
              Forall (fun x => code_ok (fst x) /\ no_crlf (snd x)) new /\ cont_line i' = Error.
Proof.
  induction fuel as [|f IH]; intros i acc ls i' H; [discriminate|]. cbn [many_cont] in H.
  destruct (cont_line i) as [x i1| | |] eqn:E; try discriminate.
  - destruct (IH _ _ _ _ H) as (new & -> & -> & F & Hn).
    apply cont_line_spec in E. destruct E as (-> & Hc & Ht).
    exists (x :: new). cbn [rev flat_map]. rewrite <- ?app_assoc. cbn [app]. repeat split; auto.
  - inversion H; subst. exists []. rewrite app_nil_r. cbn. auto.
Qed.

(* ---------- the whole reply ---------- *)
Definition render_last (bare : bool) (c : code) (t : bytes) : bytes :=
  if bare then digits c ++ CRLF else digits c ++ [32] ++ t ++ CRLF.

Lemma last_text_spec i t i' : last_text i = Done t i' ->
  (i = [32] ++ t ++ CRLF ++ i' \/ (t = [] /\ i = CRLF ++ i')) /\ no_crlf t.
Proof.
  unfold last_text, tag1. destruct i as [|b r]; [discriminate|].
  destruct (b =? 32) eqn:E.
  - intros H. apply take_line_spec in H. destruct H as [-> Ht]. apply N.eqb_eq in E; subst. auto.
  - destruct (b =? CR) eqn:E1; [|discriminate]. apply N.eqb_eq in E1; subst.
    destruct r as [|b2 r2]; [discriminate|].
    destruct (b2 =? LF) eqn:E2; [|discriminate]. apply N.eqb_eq in E2; subst.
    intros H; inversion H; subst. split; [right; auto | reflexivity].
Qed.

Theorem parse_response_sound b r rest : parse_response b = Done r rest ->
  exists (init : list bytes) (last : bytes) (bare : bool),
    rlines r = init ++ [last] /\
    b = flat_map (fun t => render_cont (rcode r, t)) init ++ render_last bare (rcode r) last ++ rest /\
    (bare = true -> last = []) /\
    code_ok (rcode r) /\ Forall no_crlf (rlines r).
Proof.
  unfold parse_response.
  destruct (many_cont (S (length b)) b []) as [lines i1| | |] eqn:EM; try discriminate.
  destruct (parse_code i1) as [c i2| | |] eqn:EC; try discriminate.
  destruct (last_text i2) as [t i4| | |] eqn:EL; try discriminate.
  destruct (forallb (fun x => code_eqb (fst x) c) lines) eqn:EF; [|discriminate].
  intros H; inversion H; subst. cbn [rcode rlines].
  destruct (many_cont_spec _ _ _ _ _ EM) as (new & -> & -> & F & _). cbn [rev app] in *.
  apply parse_code_spec in EC. destruct EC as [-> Hc].
  apply last_text_spec in EL. destruct EL as [Hsh Ht].
  assert (Hall : Forall (fun x => fst x = c) new).
  { apply Forall_forall. intros x Hx. pose proof (proj1 (forallb_forall _ _) EF x Hx) as Hx'.
    unfold code_eqb in Hx'. apply andb_prop in Hx'. destruct Hx' as [Hx' H3].
    apply andb_prop in Hx'. destruct Hx' as [H1 H2]. apply N.eqb_eq in H1, H2, H3.
    destruct (fst x), c; cbn in *; congruence. }
  assert (Hmap : forall tl, flat_map render_cont new ++ tl =
                 flat_map (fun t0 => render_cont (c, t0)) (map snd new) ++ tl).
  { intros tl. f_equal. clear -Hall. induction new as [|x new IH]; [reflexivity|]. inversion Hall; subst.
    cbn [map flat_map]. rewrite IH by assumption. destruct x; reflexivity. }
  assert (Hno : Forall no_crlf (map snd new ++ [t])).
  { apply Forall_app. split; [|constructor; [exact Ht|constructor]].
    clear -F. induction F as [|x new [_ Hx] _ IH]; constructor; auto. }
  destruct Hsh as [Hi | [Ht0 Hi]]; subst i2.
  - exists (map snd new), t, false. split; [reflexivity|]. split.
    + rewrite Hmap. f_equal; unfold render_last; rewrite <- ?app_assoc; reflexivity.
    + split; [discriminate|]. split; assumption.
  - subst t. exists (map snd new), [], true. split; [reflexivity|]. split.
    + rewrite Hmap. f_equal; unfold render_last; rewrite <- ?app_assoc; reflexivity.
    + split; [reflexivity|]. split; assumption.
Qed.

(* completeness: the canonical rendering of a well-formed reply parses back *)
Definition reply_ok (r : response) : Prop :=
  code_ok (rcode r) /\ rlines r <> [] /\ Forall no_crlf (rlines r).

Lemma cont_line_last_error c t rest : code_ok c -> cont_line (digits c ++ [32] ++ t ++ CRLF ++ rest) = Error.
Proof. intros Hc. unfold cont_line. rewrite (parse_code_digits c _ Hc). reflexivity. Qed.

Lemma many_cont_ok c (init : list bytes) : forall fuel acc last rest,
  code_ok c -> Forall no_crlf init -> (length init < fuel)%nat ->
  many_cont fuel (flat_map (fun t => render_cont (c, t)) init ++ digits c ++ [32] ++ last ++ CRLF ++ rest) acc
  = Done (rev acc ++ map (fun t => (c, t)) init) (digits c ++ [32] ++ last ++ CRLF ++ rest).
Proof.
  induction init as [|t init IH]; intros fuel acc last rest Hc F Hf.
  - destruct fuel; [cbn in Hf; lia|]. cbn [flat_map many_cont]. rewrite app_nil_l.
    rewrite (cont_line_last_error c last rest Hc). cbn [map]. rewrite app_nil_r. reflexivity.
  - destruct fuel; [cbn in Hf; lia|]. inversion F; subst. cbn [flat_map many_cont].
    rewrite <- app_assoc. rewrite (cont_line_ok c t _ Hc H1).
    rewrite IH; auto; [|cbn in Hf; lia]. cbn [rev map]. rewrite <- app_assoc. reflexivity.
Qed.

Lemma wire_of_lines_cons c t b l :
  wire_of_lines c (t :: b :: l) = digits c ++ [45] ++ t ++ CRLF ++ wire_of_lines c (b :: l).
Proof. reflexivity. Qed.

Lemma wire_of_lines_split c init last :
  wire_of_lines c (init ++ [last]) =
  flat_map (fun t => render_cont (c, t)) init ++ digits c ++ [32] ++ last ++ CRLF.
Proof.
  induction init as [|t init IH]; [reflexivity|].
  change ((t :: init) ++ [last]) with (t :: (init ++ [last])).
  destruct (init ++ [last]) as [|b l] eqn:E.
  - destruct init; discriminate.
  - rewrite wire_of_lines_cons, IH. cbn [flat_map].
    change (render_cont (c, t)) with (digits c ++ [45] ++ t ++ CRLF).
    rewrite <- ?app_assoc. reflexivity.
Qed.

Lemma flat_render_length c init : (length init <= length (flat_map (fun t => render_cont (c, t)) init))%nat.
Proof.
  induction init as [|t init IH]; [cbn; lia|]. cbn [flat_map length]. rewrite app_length.
  assert (1 <= length (render_cont (c, t)))%nat by (unfold render_cont, digits; cbn; lia). lia.
Qed.

Theorem parse_response_complete r rest : reply_ok r ->
  parse_response (wire_of r ++ rest) = Done r rest.
Proof.
  intros (Hc & Hne & F). destruct r as [c ls]. cbn [rcode rlines] in *.
  destruct (exists_last Hne) as (init & last & ->).
  apply Forall_app in F. destruct F as [Fi Fl]. inversion Fl; subst.
  unfold parse_response, wire_of. cbn [rcode rlines]. rewrite wire_of_lines_split.
  rewrite <- ?app_assoc.
  rewrite (many_cont_ok c init _ [] last rest Hc Fi).
  2:{ rewrite app_length. pose proof (flat_render_length c init). lia. }
  cbn [rev app]. rewrite (parse_code_digits c _ Hc).
  unfold last_text. cbn [app tag1]. change (32 =? 32) with true. cbn iota.
  rewrite (take_line_ok last rest H1).
  replace (forallb (fun x => code_eqb (fst x) c) (map (fun t => (c, t)) init)) with true.
  - rewrite map_map. cbn [snd]. rewrite map_id. reflexivity.
  - symmetry. apply forallb_forall. intros x Hx. apply in_map_iff in Hx. destruct Hx as (t & <- & _).
    cbn [fst]. unfold code_eqb. rewrite !N.eqb_refl. reflexivity.
Qed.
