(* C04: MAIL / RCPT lines with custom ESMTP parameters (MailParameter::Other, RcptParameter::Other: keyword, or
   keyword "=" xtext(value)) are one line whatever the values hold. *)
From Coq Require Import Strings.String Lia.
From LV Require Import Base.Bytes Base.Str Base.Res Model.Codec Model.Response Model.ServerInfo Model.Client Proofs.XtextProofs.

Definition show_param (k : bytes) (v : option bytes) : bytes :=
  k ++ match v with Some x => 61 :: xtext x | None => [] end.
Definition crlf_free (l : bytes) : Prop := ~ In CR l /\ ~ In LF l.

Lemma crlf_free_app a b : crlf_free a -> crlf_free b -> crlf_free (a ++ b).
Proof. intros [A1 A2] [B1 B2]. split; intros I; apply in_app_or in I; tauto. Qed.
Lemma crlf_free_xtext v : crlf_free (xtext v).
Proof. split; intros I; apply xtext_line_safe in I; unfold CR, LF in *; lia. Qed.
Lemma crlf_free_param k v : crlf_free k -> crlf_free (show_param k v).
Proof.
  intros Hk. unfold show_param. apply crlf_free_app; [exact Hk|]. destruct v as [x|]; [|split; intros []].
  change (61 :: xtext x) with ([61] ++ xtext x). apply crlf_free_app; [|apply crlf_free_xtext].
  split; intros [E|[]]; discriminate.
Qed.
Lemma crlf_free_opts ps : Forall (fun p => crlf_free (fst p)) ps ->
  crlf_free (flat_map (fun o => 32 :: o) (map (fun p => show_param (fst p) (snd p)) ps)).
Proof.
  induction ps as [|[k v] ps IH]; intros F; [split; intros []|]. inversion F as [|? ? Hk F']; subst. cbn [map flat_map fst snd].
  change (32 :: show_param k v) with ([32] ++ show_param k v). rewrite <- app_assoc.
  apply crlf_free_app; [split; intros [E|[]]; discriminate|]. apply crlf_free_app; [apply crlf_free_param; exact Hk|apply IH; exact F'].
Qed.

(* for every reverse path and every list of custom parameters whose KEYWORDS hold no CR / LF - the values are arbitrary
   octets - the MAIL command is one line *)
Theorem mail_with_params_one_line from ps :
  match from with Some f => crlf_free f | None => True end -> Forall (fun p => crlf_free (fst p)) ps ->
  exists body, show_mail from (map (fun p => show_param (fst p) (snd p)) ps) = body ++ CRLF /\ crlf_free body.
Proof.
  intros Hf Hp. unfold show_mail.
  exists (bs "MAIL FROM:<" ++ match from with Some f => f | None => [] end ++ bs ">" ++ flat_map (fun o => 32 :: o) (map (fun p => show_param (fst p) (snd p)) ps)).
  split; [rewrite <- !app_assoc; reflexivity|].
  apply crlf_free_app; [split; cbn; intros I; repeat (destruct I as [I|I]; [discriminate|]); contradiction|].
  apply crlf_free_app; [destruct from; [exact Hf|split; intros []]|].
  apply crlf_free_app; [split; cbn; intros I; repeat (destruct I as [I|I]; [discriminate|]); contradiction|].
  apply crlf_free_opts. exact Hp.
Qed.
