(* C01 for mailboxes with display names: the two round-trip premises of build_eq_spec discharged for the class
   Pnamed of MailboxNamedListProofs.v. *)
From LV Require Import Base.Bytes Base.Utf8 Base.Res Model.Address Model.Mailbox Model.Builder Spec.Envelope
  Proofs.BuilderProofs Proofs.MailboxProofs Proofs.MailboxListProofs Proofs.MailboxNamedListProofs.

Theorem build_eq_spec_named alnum idna ip_ok ops :
  Forall (op_ok (Pnamed alnum idna ip_ok)) ops -> build_ops alnum idna ip_ok ops = spec_build ops.
Proof.
  intros H. apply (build_eq_spec alnum idna ip_ok (Pnamed alnum idna ip_ok)); [| |exact H].
  - intros L F. destruct (list_roundtrip_named alnum idna ip_ok L F) as (v & Hv & L' & HL & He & HP & _). exists v. split; [exact Hv|].
    exists L'. split; [exact HL|]. split; [exact He|exact HP].
  - intros m Pm. destruct (one_roundtrip_named alnum idna ip_ok m Pm) as (v & Hv & m' & Hm & He & _). exists v. split; [exact Hv|].
    exists m'. split; [exact Hm|exact He].
Qed.
