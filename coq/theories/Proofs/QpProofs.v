(* quoted-printable: decoding what the encoder wrote gives back the input, for every byte string *)
From LV Require Import Base.Bytes Base.Res Model.Body Spec.Rfc2047 Spec.Cte.
From Coq Require Import Lia Arith PeanoNat ZArith ZifyBool ZifyN.
Ltac Zify.zify_post_hook ::= Z.div_mod_to_equations.
Local Arguments N.eqb : simpl never.
Local Arguments N.leb : simpl never.
Local Arguments N.ltb : simpl never.
Local Arguments N.div : simpl never.
Local Arguments N.modulo : simpl never.

(* ---------- the decoder is compositional on decodable prefixes ---------- *)
Lemma qp_decode_app_n n : forall a b da, (length a <= n)%nat ->
  qp_decode a = Some da -> qp_decode (a ++ b) = match qp_decode b with Some db => Some (da ++ db) | None => None end.
Proof.
  induction n as [|n IH]; intros a b da Hl H.
  - destruct a; [|cbn in Hl; lia]. cbn in H. inversion H; subst. cbn. destruct (qp_decode b); reflexivity.
  - destruct a as [|x a]; [cbn in H; inversion H; subst; cbn; destruct (qp_decode b); reflexivity|].
    cbn [app qp_decode] in *. destruct (x =? 61) eqn:E.
    + destruct a as [|h1 [|h2 a']]; try discriminate. cbn [app].
      destruct ((h1 =? CR) && (h2 =? LF)) eqn:E2.
      * apply (IH a' b da); [cbn in Hl; lia|exact H].
      * destruct (hexv h1) as [v1|]; [|discriminate]. destruct (hexv h2) as [v2|]; [|discriminate].
        destruct (qp_decode a') as [t|] eqn:Ea; [|discriminate]. inversion H; subst.
        rewrite (IH a' b t); [|cbn in Hl; lia|exact Ea]. destruct (qp_decode b); reflexivity.
    + destruct (qp_decode a) as [t|] eqn:Ea; [|discriminate]. cbn in H. inversion H; subst.
      rewrite (IH a b t); [|cbn in Hl; lia|exact Ea]. destruct (qp_decode b); reflexivity.
Qed.
Lemma qp_decode_app a b da db : qp_decode a = Some da -> qp_decode b = Some db -> qp_decode (a ++ b) = Some (da ++ db).
Proof. intros Ha Hb. rewrite (qp_decode_app_n (length a) a b da (le_n _) Ha), Hb. reflexivity. Qed.

(* a decodable string that is a decodable prefix followed by something: that something decodes too *)
Lemma qp_decode_suffix a b d da : qp_decode (a ++ b) = Some d -> qp_decode a = Some da ->
  exists db, qp_decode b = Some db /\ d = da ++ db.
Proof.
  intros H Ha. rewrite (qp_decode_app_n (length a) a b da (le_n _) Ha) in H.
  destruct (qp_decode b) as [db|]; [|discriminate]. inversion H. eauto.
Qed.

(* ---------- items ---------- *)
Lemma hexu_hexv v : v < 16 -> hexv (hexu v) = Some v.
Proof.
  intros H. unfold hexu, hexv, is_digit. destruct (v <? 10) eqn:E.
  - replace ((48 <=? v + 48) && (v + 48 <=? 57)) with true by lia. f_equal. lia.
  - replace ((48 <=? v - 10 + 65) && (v - 10 + 65 <=? 57)) with false by lia.
    replace ((65 <=? v - 10 + 65) && (v - 10 + 65 <=? 70)) with true by lia. f_equal. lia.
Qed.
Lemma hexu_not_cr v : v < 16 -> (hexu v =? CR) = false.
Proof. intros H. unfold hexu, CR. destruct (v <? 10) eqn:E; lia. Qed.

Lemma triplet_decodes b : b < 256 -> qp_decode (hex_triplet b) = Some [b].
Proof.
  intros H. unfold hex_triplet. cbn [qp_decode]. change (61 =? 61) with true. cbn iota.
  rewrite hexu_not_cr by lia. cbn [andb]. rewrite !hexu_hexv by lia. cbn [qp_decode]. f_equal. f_equal. lia.
Qed.

(* what q_encode_byte appends for byte b always decodes to [b] *)
Definition item_of (b : N) : bytes :=
  if b =? 61 then [61; 51; 68] else if (b =? 9) || ((32 <=? b) && (b <=? 126)) then [b] else hex_triplet b.
Lemma item_decodes b : b < 256 -> qp_decode (item_of b) = Some [b].
Proof.
  intros H. unfold item_of. destruct (b =? 61) eqn:E.
  - apply N.eqb_eq in E. subst. reflexivity.
  - destruct ((b =? 9) || ((32 <=? b) && (b <=? 126))); [|apply triplet_decodes; exact H].
    cbn [qp_decode]. rewrite E. reflexivity.
Qed.

Lemma soft_decodes : qp_decode SOFT = Some []. Proof. reflexivity. Qed.

(* ---------- the encoder state ---------- *)
Definition out_of (q : qst) : bytes := rev (res_rev q).
(* invariant: the output decodes to `d`, and so does its part before the backup position *)
Definition QInv (q : qst) (d : bytes) : Prop :=
  qp_decode (out_of q) = Some d /\ (bk q <= length (res_rev q))%nat /\
  exists d1, qp_decode (rev (skipn (bk q) (res_rev q))) = Some d1.

Lemma rev_append_rev' {A} (x y : list A) : rev_append x y = rev x ++ y.
Proof. apply rev_append_rev. Qed.

Lemma out_split q : out_of q = rev (skipn (bk q) (res_rev q)) ++ rev (firstn (bk q) (res_rev q)).
Proof. unfold out_of. rewrite <- rev_app_distr, firstn_skipn. reflexivity. Qed.

Lemma q_append_ok x dx q d : qp_decode x = Some dx -> QInv q d -> QInv (q_append x q) (d ++ dx).
Proof.
  intros Hx (Hd & Hb & d1 & H1). unfold q_append.
  destruct (Nat.ltb QP_LIMIT (on_line q + length x)) eqn:E1.
  - destruct (Nat.eqb (on_line q) QP_LIMIT) eqn:E2.
    + (* soft break inserted before the last item *)
      rewrite out_split in Hd.
      destruct (qp_decode_suffix _ _ _ _ Hd H1) as (dl & Hl & ->).
      unfold QInv, out_of. cbn [res_rev bk].
      rewrite !rev_append_rev'. 
      assert (Eout : rev (rev x ++ firstn (bk q) (res_rev q) ++ rev SOFT ++ skipn (bk q) (res_rev q)) =
                     (rev (skipn (bk q) (res_rev q)) ++ SOFT) ++ rev (firstn (bk q) (res_rev q)) ++ x).
      { rewrite !rev_app_distr, !rev_involutive. rewrite <- !app_assoc. reflexivity. }
      split; [|split].
      * rewrite Eout.
        assert (P1 : qp_decode (rev (skipn (bk q) (res_rev q)) ++ SOFT) = Some (d1 ++ []))
          by (apply qp_decode_app; [exact H1|exact soft_decodes]).
        rewrite app_nil_r in P1.
        rewrite (qp_decode_app _ _ _ _ P1 (qp_decode_app _ _ _ _ Hl Hx)). rewrite app_assoc. reflexivity.
      * rewrite !app_length, rev_length. lia.
      * exists (d1 ++ dl). rewrite skipn_app. rewrite skipn_all2 by (rewrite rev_length; lia).
        rewrite rev_length, Nat.sub_diag. cbn [skipn app].
        rewrite rev_app_distr, rev_app_distr, rev_involutive. rewrite <- app_assoc.
        assert (P1 : qp_decode (rev (skipn (bk q) (res_rev q)) ++ SOFT) = Some (d1 ++ []))
          by (apply qp_decode_app; [exact H1|exact soft_decodes]).
        rewrite app_nil_r in P1. rewrite app_assoc.
        apply qp_decode_app; [exact P1|exact Hl].
    + (* soft break at the end *)
      unfold QInv, out_of. cbn [res_rev bk]. rewrite !rev_append_rev'.
      assert (P1 : qp_decode (out_of q ++ SOFT) = Some (d ++ []))
        by (apply qp_decode_app; [exact Hd|exact soft_decodes]).
      rewrite app_nil_r in P1. unfold out_of in P1.
      split; [|split].
      * rewrite !rev_app_distr, !rev_involutive. apply qp_decode_app; [exact P1|exact Hx].
      * rewrite !app_length, !rev_length. lia.
      * exists d. rewrite skipn_app, skipn_all2 by (rewrite rev_length; lia).
        rewrite rev_length, Nat.sub_diag. cbn [skipn app]. rewrite rev_app_distr, rev_involutive. exact P1.
  - unfold QInv, out_of. cbn [res_rev bk]. rewrite !rev_append_rev'.
    split; [|split].
    * rewrite rev_app_distr, rev_involutive. apply qp_decode_app; [exact Hd|exact Hx].
    * rewrite app_length, rev_length. lia.
    * exists d. rewrite skipn_app, skipn_all2 by (rewrite rev_length; lia).
      rewrite rev_length, Nat.sub_diag. cbn [skipn app]. exact Hd.
Qed.

(* ---------- stripping a literal last character ---------- *)
Lemma decode_snoc_lit n : forall a c d, (length a <= n)%nat ->
  hexv c = None -> c <> LF -> c <> 61 ->
  qp_decode (a ++ [c]) = Some d -> exists d', qp_decode a = Some d' /\ d = d' ++ [c].
Proof.
  induction n as [|n IH]; intros a c d Hl Hh Hlf He H.
  - destruct a; [|cbn in Hl; lia]. cbn [app qp_decode] in H.
    replace (c =? 61) with false in H by (symmetry; apply N.eqb_neq; exact He).
    cbn in H. inversion H. exists []. auto.
  - destruct a as [|x a].
    + cbn [app qp_decode] in H. replace (c =? 61) with false in H by (symmetry; apply N.eqb_neq; exact He).
      cbn in H. inversion H. exists []. auto.
    + cbn [app qp_decode] in *. destruct (x =? 61) eqn:E.
      * destruct a as [|h1 [|h2 a']].
        -- cbn [app] in H. discriminate.
        -- cbn [app] in H. 
           replace ((h1 =? CR) && (c =? LF)) with false in H
             by (symmetry; apply andb_false_iff; right; apply N.eqb_neq; exact Hlf).
           rewrite Hh in H. destruct (hexv h1); discriminate.
        -- cbn [app] in H. destruct ((h1 =? CR) && (h2 =? LF)) eqn:E2.
           ++ apply (IH a' c d); auto. cbn in Hl. lia.
           ++ destruct (hexv h1) as [v1|]; [|discriminate]. destruct (hexv h2) as [v2|]; [|discriminate].
              destruct (qp_decode (a' ++ [c])) as [t|] eqn:Ea; [|discriminate]. inversion H; subst.
              destruct (IH a' c t) as (d' & Hd' & ->); auto; [cbn in Hl; lia|].
              rewrite Hd'. exists ((16 * v1 + v2) :: d'). auto.
      * destruct (qp_decode (a ++ [c])) as [t|] eqn:Ea; [|discriminate]. cbn in H. inversion H; subst.
        destruct (IH a c t) as (d' & Hd' & ->); auto; [cbn in Hl; lia|].
        rewrite Hd'. exists (x :: d'). auto.
Qed.

Lemma q_trailing_ok q d : QInv q d -> QInv (q_trailing q) d.
Proof.
  intros HI. unfold q_trailing. destruct (res_rev q) as [|c r] eqn:Er; [exact HI|].
  assert (G : forall x, (c = 32 \/ c = 9) -> qp_decode x = Some [c] ->
              QInv (q_append x (mkQ r (pred (on_line q)) (pred (bk q)))) d).
  { intros x Hc Hx. destruct HI as (Hd & Hb & d1 & H1). unfold out_of in Hd. rewrite Er in *. cbn [rev] in Hd.
    destruct (decode_snoc_lit (length (rev r)) (rev r) c d (le_n _)) as (d' & Hd' & ->); auto.
    - destruct Hc as [->| ->]; reflexivity.
    - destruct Hc as [->| ->]; discriminate.
    - destruct Hc as [->| ->]; discriminate.
    - apply q_append_ok; [exact Hx|]. unfold QInv, out_of. cbn [res_rev bk]. split; [exact Hd'|]. split.
      + cbn [length] in Hb. lia.
      + destruct (bk q) as [|k] eqn:Ek; cbn [pred skipn].
        * exists d'. exact Hd'.
        * cbn [skipn] in H1. exists d1. exact H1. }
  destruct (c =? 32) eqn:E1.
  - apply N.eqb_eq in E1. subst c. apply G; [left; reflexivity|reflexivity].
  - destruct (c =? 9) eqn:E2; [|exact HI].
    apply N.eqb_eq in E2. subst c. apply G; [right; reflexivity|reflexivity].
Qed.

Lemma crlf_push_ok q d : QInv q d -> QInv (mkQ (rev_append CRLF (res_rev q)) 0 (bk q + 2)) (d ++ CRLF).
Proof.
  intros (Hd & Hb & d1 & H1). unfold QInv, out_of. cbn [res_rev bk]. rewrite rev_append_rev'.
  split; [|split].
  - rewrite rev_app_distr, rev_involutive. apply qp_decode_app; [exact Hd|reflexivity].
  - rewrite app_length. cbn. lia.
  - exists d1. replace (bk q + 2)%nat with (2 + bk q)%nat by lia. cbn [rev CRLF app]. cbn [plus skipn]. exact H1.
Qed.

(* ---------- runs of literal characters ---------- *)
Lemma take_run_prefix cap : forall l, exists rest, l = take_run cap l ++ rest.
Proof.
  induction cap as [|c IH]; intros l; [exists l; destruct l; reflexivity|].
  destruct l as [|b r]; [exists []; reflexivity|]. cbn [take_run].
  destruct (needs_encoding b); [exists (b :: r); reflexivity|].
  destruct (IH r) as [rest E]. exists rest. cbn. f_equal. exact E.
Qed.
Lemma take_run_literal cap : forall l, qp_decode (take_run cap l) = Some (take_run cap l).
Proof.
  induction cap as [|c IH]; intros l; [destruct l; reflexivity|].
  destruct l as [|b r]; [reflexivity|]. cbn [take_run]. destruct (needs_encoding b) eqn:E; [reflexivity|].
  cbn [qp_decode]. unfold needs_encoding in E. apply orb_false_iff in E. destruct E as [E _]. rewrite E.
  rewrite IH. reflexivity.
Qed.

Lemma run_push_ok q d run : QInv q d -> qp_decode run = Some run ->
  QInv (mkQ (rev_append run (res_rev q)) (on_line q + length run) 0) (d ++ run).
Proof.
  intros (Hd & Hb & _) Hr. unfold QInv, out_of. cbn [res_rev bk skipn]. rewrite rev_append_rev'.
  rewrite rev_app_distr, rev_involutive.
  assert (P : qp_decode (rev (res_rev q) ++ run) = Some (d ++ run)) by (apply qp_decode_app; assumption).
  split; [exact P|]. split; [lia|]. exists (d ++ run). exact P.
Qed.

Lemma encode_byte_ok b q d : b < 256 -> QInv q d -> QInv (q_encode_byte b q) (d ++ [b]).
Proof.
  intros Hb HI. pose proof (item_decodes b Hb) as Hi. unfold item_of in Hi. unfold q_encode_byte.
  destruct (b =? 61); [apply q_append_ok; assumption|].
  destruct ((b =? 9) || ((32 <=? b) && (b <=? 126))); apply q_append_ok; assumption.
Qed.

(* ---------- the main loop ---------- *)
Theorem qp_go_ok l : forall skip was_cr q d, QInv q d -> (skip <= length l)%nat -> bytes_ok l = true ->
  qp_decode (rev (res_rev (qp_go l skip was_cr q))) = Some (d ++ (if was_cr then [CR] else []) ++ skipn skip l).
Proof.
  induction l as [|b r IH]; intros skip was_cr q d HI Hs Hok.
  - cbn [qp_go]. assert (skip = 0%nat) by (cbn in Hs; lia). subst skip. cbn [skipn]. rewrite app_nil_r.
    destruct was_cr.
    + destruct (q_append_ok [61; 48; 68] [CR] q d eq_refl HI) as (Hd & _). exact Hd.
    + rewrite app_nil_r. destruct (q_trailing_ok q d HI) as (Hd & _). exact Hd.
  - unfold bytes_ok in Hok. cbn [forallb] in Hok. apply andb_prop in Hok. destruct Hok as [Hb Hr].
    assert (Hb' : b < 256) by (unfold byte_ok in Hb; lia).
    cbn [qp_go]. destruct skip as [|k].
    2:{ cbn [skipn]. apply IH; auto. cbn in Hs. lia. }
    cbn [skipn].
    destruct (was_cr && (b =? LF)) eqn:E.
    + apply andb_prop in E. destruct E as [-> El]. apply N.eqb_eq in El. subst b.
      pose proof (crlf_push_ok _ d (q_trailing_ok q d HI)) as H2.
      rewrite (IH 0%nat false _ _ H2); [|lia|exact Hr]. cbn [skipn app]. rewrite <- app_assoc. reflexivity.
    + set (q0 := if was_cr then q_append [61; 48; 68] q else q).
      set (d0 := d ++ (if was_cr then [CR] else [])).
      assert (H0 : QInv q0 d0).
      { unfold q0, d0. destruct was_cr; [apply (q_append_ok [61;48;68] [CR]); [reflexivity|exact HI] | rewrite app_nil_r; exact HI]. }
      destruct (b =? CR) eqn:Ec.
      * apply N.eqb_eq in Ec. subst b. rewrite (IH 0%nat true q0 d0 H0); [|lia|exact Hr].
        unfold d0. cbn [skipn]. rewrite <- !app_assoc. reflexivity.
      * destruct (Nat.leb 3 (QP_LIMIT - on_line q0) && negb (needs_encoding b)) eqn:Er.
        -- apply andb_prop in Er. destruct Er as [E3 En]. apply Nat.leb_le in E3. apply negb_true_iff in En.
           set (run := take_run (QP_LIMIT - on_line q0 - 2) (b :: r)).
           assert (Hrun : exists run', run = b :: run' /\ exists rest, r = run' ++ rest).
           { unfold run. destruct (QP_LIMIT - on_line q0 - 2)%nat as [|c] eqn:Ecap; [lia|].
             cbn [take_run]. rewrite En. exists (take_run c r). split; [reflexivity|apply take_run_prefix]. }
           destruct Hrun as (run' & Erun & rest & Erest).
           pose proof (run_push_ok q0 d0 run H0 (take_run_literal _ _)) as H2.
           rewrite (IH (pred (length run)) false _ _ H2); [| |exact Hr].
           ++ rewrite Erun. cbn [length pred]. unfold d0. cbn [app]. rewrite <- !app_assoc. cbn [app].
              assert (Es : run' ++ skipn (length run') r = r).
              { rewrite Erest at 1. rewrite skipn_app, skipn_all, Nat.sub_diag. cbn [skipn app]. symmetry. exact Erest. }
              rewrite Es. reflexivity.
           ++ rewrite Erun. cbn [length pred]. rewrite Erest, app_length. lia.
        -- pose proof (encode_byte_ok b q0 d0 Hb' H0) as H2.
           rewrite (IH 0%nat false _ _ H2); [|lia|exact Hr]. unfold d0. cbn [skipn app]. rewrite <- !app_assoc. reflexivity.
Qed.

Theorem qp_roundtrip l : bytes_ok l = true -> qp_decode (qp_encode l) = Some l.
Proof.
  intros H. unfold qp_encode. rewrite frev_rev.
  assert (I0 : QInv (mkQ [] 0 0) []).
  { unfold QInv, out_of. cbn. split; [reflexivity|]. split; [lia|]. exists []. reflexivity. }
  rewrite (qp_go_ok l 0 false _ [] I0); [reflexivity|lia|exact H].
Qed.
