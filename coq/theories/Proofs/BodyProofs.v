(* Body: the in-place LF -> CRLF conversion equals the specification; the base64 body encoding
   decodes back to the content for every byte string; the choice / refusal matrix. *)
From LV Require Import Base.Bytes Base.Res Base.Base64 Model.Body Spec.Rfc2047 Spec.Cte Proofs.Base64Proofs.
From Coq Require Import Lia Arith PeanoNat.
Local Arguments N.eqb : simpl never.

(* ---------- CRLF conversion ---------- *)
Fixpoint H (r : bytes) (found : bool) (t : bytes) : bytes :=
  match r with
  | [] => if found then CR :: t else t
  | c :: r' => H r' (c =? LF) (c :: (if found && negb (c =? CR) then CR :: t else t))
  end.

Lemma insert_at_end a t b : insert_at (a ++ t) (length a) b = a ++ b :: t.
Proof. unfold insert_at. rewrite firstn_app, firstn_all, Nat.sub_diag. cbn [firstn]. rewrite app_nil_r.
       rewrite skipn_app, skipn_all, Nat.sub_diag. reflexivity. Qed.

Lemma fold_insert r : forall found t,
  fold_left (fun acc i => insert_at acc i CR) (lf_indices_go r (pred (length r)) found) (rev r ++ t) = H r found t.
Proof.
  induction r as [|c r IH]; intros found t.
  - cbn. destruct found; [|reflexivity]. cbn. reflexivity.
  - cbn [lf_indices_go length pred H].
    destruct (found && negb (c =? CR)) eqn:E.
    + cbn [app fold_left]. cbn [rev].
      replace (S (length r)) with (length (rev r ++ [c])) by (rewrite app_length, rev_length; cbn; lia).
      rewrite insert_at_end. rewrite <- app_assoc. cbn [app]. apply IH.
    + cbn [app]. cbn [rev]. rewrite <- app_assoc. cbn [app]. apply IH.
Qed.

Definition head_not_cr (r : bytes) : bool := match r with c :: _ => negb (c =? CR) | [] => true end.

Lemma crlf_go_snoc a : forall c pc,
  crlf_spec_go (a ++ [c]) pc =
  crlf_spec_go a pc ++
  (if (c =? LF) && negb (match rev a with d :: _ => d =? CR | [] => pc end) then [CR; LF] else [c]).
Proof.
  induction a as [|x a IH]; intros c pc.
  - cbn. rewrite app_nil_r. reflexivity.
  - cbn [app crlf_spec_go]. rewrite IH. rewrite <- app_assoc. f_equal. f_equal.
    cbn [rev]. destruct (rev a) as [|d ra] eqn:Er; [reflexivity|]. cbn. reflexivity.
Qed.

Lemma H_spec r : forall found t,
  H r found t = crlf_spec (rev r) ++ (if found && head_not_cr r then [CR] else []) ++ t.
Proof.
  induction r as [|c r IH]; intros found t.
  - cbn. destruct found; reflexivity.
  - cbn [H]. rewrite IH. cbn [rev]. unfold crlf_spec. rewrite crlf_go_snoc. rewrite rev_involutive.
    rewrite <- !app_assoc. f_equal.
    assert (Eh : negb (match r with d :: _ => d =? CR | [] => false end) = head_not_cr r)
      by (destruct r; reflexivity).
    rewrite Eh. cbn [head_not_cr].
    destruct (N.eq_dec c LF) as [->|Hne].
    + change (LF =? LF) with true. change (LF =? CR) with false. cbn [negb andb].
      rewrite andb_true_r.
      destruct (head_not_cr r); cbn [andb app]; destruct found; reflexivity.
    + replace (c =? LF) with false by (symmetry; apply N.eqb_neq; exact Hne).
      cbn [andb app]. destruct (found && negb (c =? CR)); reflexivity.
Qed.

Theorem in_place_crlf_spec s : in_place_crlf s = crlf_spec s.
Proof.
  unfold in_place_crlf, find_all_lf_indices. rewrite frev_rev.
  pose proof (fold_insert (rev s) false []) as F. rewrite rev_involutive, app_nil_r, rev_length in F.
  rewrite F, H_spec, rev_involutive. cbn. rewrite app_nil_r. reflexivity.
Qed.

(* converting twice changes nothing more *)
Lemma crlf_spec_go_idem l : forall pc, crlf_spec_go (crlf_spec_go l pc) pc = crlf_spec_go l pc.
Proof.
  induction l as [|b l IH]; intros pc; [reflexivity|]. cbn [crlf_spec_go].
  destruct ((b =? LF) && negb pc) eqn:E.
  - apply andb_prop in E. destruct E as [E1 E2]. apply N.eqb_eq in E1. subst b.
    destruct pc; [discriminate|]. cbn [app crlf_spec_go]. change (CR =? LF) with false. cbn [andb app].
    change (CR =? CR) with true. change (LF =? LF) with true. cbn [negb andb app].
    change (LF =? CR) with false. f_equal. f_equal. apply IH.
  - cbn [app crlf_spec_go]. rewrite E. cbn [app]. f_equal. apply IH.
Qed.
Theorem crlf_idempotent s : crlf_spec (crlf_spec s) = crlf_spec s.
Proof. apply crlf_spec_go_idem. Qed.

(* ---------- base64 body ---------- *)
Lemma b64enc_app_n n : forall a b, (length a = 3 * n)%nat -> b64enc (a ++ b) = b64enc a ++ b64enc b.
Proof.
  induction n as [|n IH]; intros a b Hl.
  - destruct a; [reflexivity|cbn in Hl; lia].
  - destruct a as [|x [|y [|z a']]]; cbn in Hl; try lia.
    cbn [app b64enc]. rewrite (IH a' b) by lia. reflexivity.
Qed.

Definition nocrlf (b : N) : bool := negb ((b =? CR) || (b =? LF)).
Lemma b64_char_nocrlf v : nocrlf (b64_char v) = true.
Proof. unfold nocrlf, b64_char, CR, LF. destruct (v <? 26) eqn:A; [lia|]. destruct (v <? 52) eqn:B; [lia|].
       destruct (v <? 62) eqn:C; [lia|]. destruct (v =? 62); reflexivity. Qed.
Lemma b64enc_nocrlf_n n : forall w, (length w <= n)%nat -> filter nocrlf (b64enc w) = b64enc w.
Proof.
  induction n as [|n IH]; intros w Hl.
  - destruct w; [reflexivity|cbn in Hl; lia].
  - destruct w as [|a [|b [|c r]]]; [reflexivity| | |]; cbn [b64enc filter]; rewrite ?b64_char_nocrlf; try reflexivity.
    rewrite IH by (cbn in Hl; lia). reflexivity.
Qed.
Lemma b64enc_nocrlf w : filter nocrlf (b64enc w) = b64enc w.
Proof. apply (b64enc_nocrlf_n (length w)). lia. Qed.

Lemma wrap_filter fuel : forall l, (length l < fuel)%nat -> filter nocrlf (b64_wrap_go fuel l) = b64enc l.
Proof.
  induction fuel as [|f IH]; intros l Hl; [lia|]. cbn [b64_wrap_go].
  destruct l as [|x l'] eqn:El; [reflexivity|]. rewrite <- El in *.
  rewrite filter_app, b64enc_nocrlf.
  destruct (skipn 57 l) as [|y r] eqn:Es.
  - cbn. rewrite app_nil_r. rewrite <- (firstn_skipn 57 l) at 2. rewrite Es, app_nil_r. reflexivity.
  - rewrite <- Es. rewrite filter_app. cbn [filter CRLF]. change (nocrlf CR) with false. change (nocrlf LF) with false.
    cbn [app].
    assert (Hlen : length (firstn 57 l) = (3 * 19)%nat).
    { rewrite firstn_length. assert (57 <= length l)%nat.
      { destruct (Nat.le_gt_cases 57 (length l)); [assumption|]. rewrite skipn_all2 in Es by lia. discriminate. }
      lia. }
    rewrite IH.
    + rewrite <- (b64enc_app_n 19 _ _ Hlen). rewrite firstn_skipn. reflexivity.
    + rewrite skipn_length. subst l. cbn [length] in *. lia.
Qed.

Theorem b64_body_roundtrip l : bytes_ok l = true -> b64_body_decode (b64_wrap l) = Some l.
Proof.
  intros H. unfold b64_body_decode, b64_wrap.
  change (fun b => negb ((b =? CR) || (b =? LF))) with nocrlf.
  rewrite wrap_filter by lia. apply b64_roundtrip. exact H.
Qed.

(* ---------- choice and refusal ---------- *)
Theorem auto_choice_limited is_string l :
  let e := snd (body_new is_string l) in e = SevenBit \/ e = QuotedPrintable \/ e = Base64.
Proof.
  unfold body_new, choose, qp_or_b64.
  destruct (kind_of is_string l), (line_too_long l); cbn; try (destruct (quoted_printable_efficient l)); cbn; auto.
Qed.

Theorem refusal_hands_back is_string l e y :
  body_new_with_encoding is_string l e = Err y -> y = l /\ (e = SevenBit \/ e = EightBit).
Proof.
  unfold body_new_with_encoding. destruct e, (choose is_string l true); cbn; intros H; inversion H; auto.
Qed.

Theorem identity_encodings is_string l e :
  e = SevenBit \/ e = EightBit \/ e = Binary ->
  forall out e', body_new_with_encoding is_string l e = Ok (out, e') -> out = encode_crlf is_string l /\ e' = e.
Proof.
  intros He out e'. unfold body_new_with_encoding.
  destruct He as [-> | [-> | ->]]; destruct (choose is_string l true); cbn; intros H; inversion H; auto.
Qed.

(* ---------- lossless, for every input and every requested encoding ---------- *)
From LV Require Import Proofs.QpProofs.

Definition decode_cte (e : cte) (out : bytes) : option bytes :=
  match e with
  | QuotedPrintable => qp_decode out
  | Base64 => b64_body_decode out
  | _ => Some out
  end.
Definition content (is_string : bool) (l : bytes) : bytes := if is_string then crlf_spec l else l.

Lemma crlf_go_bytes_ok l : forall pc, bytes_ok l = true -> bytes_ok (crlf_spec_go l pc) = true.
Proof.
  induction l as [|b l IH]; intros pc H; [reflexivity|]. unfold bytes_ok in *. cbn [forallb crlf_spec_go] in *.
  apply andb_prop in H. destruct H as [Hb Hl]. rewrite forallb_app. rewrite (IH _ Hl).
  destruct ((b =? LF) && negb pc); cbn; [reflexivity|]. rewrite Hb. reflexivity.
Qed.

Lemma content_ok is_string l : bytes_ok l = true -> bytes_ok (content is_string l) = true.
Proof. intros H. unfold content. destruct is_string; [apply crlf_go_bytes_ok; exact H|exact H]. Qed.

Lemma encode_crlf_content is_string l : encode_crlf is_string l = content is_string l.
Proof. unfold encode_crlf, content. destruct is_string; [apply in_place_crlf_spec|reflexivity]. Qed.

Lemma new_impl_lossless buf e : bytes_ok buf = true ->
  decode_cte (snd (new_impl buf e)) (fst (new_impl buf e)) = Some buf /\ snd (new_impl buf e) = e.
Proof.
  intros H. destruct e; cbn; auto.
  - split; [apply qp_roundtrip; exact H|reflexivity].
  - split; [apply b64_body_roundtrip; exact H|reflexivity].
Qed.

Theorem body_new_lossless is_string l : bytes_ok l = true ->
  decode_cte (snd (body_new is_string l)) (fst (body_new is_string l)) = Some (content is_string l).
Proof.
  intros H. unfold body_new. rewrite encode_crlf_content.
  exact (proj1 (new_impl_lossless _ _ (content_ok is_string l H))).
Qed.

Theorem body_with_encoding_lossless is_string l e out e' : bytes_ok l = true ->
  body_new_with_encoding is_string l e = Ok (out, e') ->
  e' = e /\ decode_cte e' out = Some (content is_string l).
Proof.
  intros H. unfold body_new_with_encoding.
  match goal with |- (if ?c then _ else _) = _ -> _ => destruct c end; [|discriminate].
  intros E. inversion E as [E']. rewrite encode_crlf_content in *.
  destruct (new_impl_lossless (content is_string l) e (content_ok is_string l H)) as [A B].
  rewrite E' in *. cbn [fst snd] in *. split; [exact B|exact A].
Qed.
