(* C13: the emitted DKIM-Signature field gives back, under RFC 6376 3.7 (delete the value of b=), exactly
   the text that was hashed. *)
From Coq Require Import Strings.String.
From LV Require Import Base.Bytes Base.Str Base.Res Model.HeaderEnc Model.Headers Model.Dkim Spec.Rfc5322 Spec.Dkim.
From Coq Require Import Lia Arith PeanoNat.
Local Open Scope nat_scope.

Definition no_semi (l : bytes) : bool := forallb (fun c => negb (c =? 59)%N) l.
Definition no_eq (l : bytes) : bool := forallb (fun c => negb (c =? 61)%N) l.
Definition is_b_tag (t : bytes) : bool := match split_eq t with Some (n, _) => tag_is_b n | None => false end.
Definition tags_text (ts : list bytes) : bytes := flat_map (fun t => t ++ [59%N]) ts.

Lemma upto_semi_app t rest : no_semi t = true -> upto_semicolon (t ++ 59%N :: rest) = (t, 59%N :: rest).
Proof.
  induction t as [|c t IH]; intros H; cbn [app upto_semicolon].
  - reflexivity.
  - cbn in H. apply andb_prop in H. destruct H as [Hc Ht]. apply negb_true_iff in Hc. rewrite Hc, IH by exact Ht. reflexivity.
Qed.
Lemma upto_semi_end t : no_semi t = true -> upto_semicolon t = (t, []).
Proof.
  induction t as [|c t IH]; intros H; cbn [upto_semicolon]; [reflexivity|].
  cbn in H. apply andb_prop in H. destruct H as [Hc Ht]. apply negb_true_iff in Hc. rewrite Hc, IH by exact Ht. reflexivity.
Qed.
Lemma split_eq_app n v : no_eq n = true -> split_eq (n ++ 61%N :: v) = Some (n, v).
Proof.
  induction n as [|c n IH]; intros H; cbn [app split_eq]; [reflexivity|].
  cbn in H. apply andb_prop in H. destruct H as [Hc Hn]. apply negb_true_iff in Hc. rewrite Hc, IH by exact Hn. reflexivity.
Qed.
Lemma no_semi_app a b : no_semi (a ++ b) = no_semi a && no_semi b.
Proof. unfold no_semi. apply forallb_app. Qed.

(* tags that are not b= are kept as they are; the b= tag (the last one, as lettre writes it) loses its value *)
Theorem delete_b_last : forall ts n v fuel,
  Forall (fun t => no_semi t = true /\ is_b_tag t = false) ts ->
  no_semi n = true -> no_eq n = true -> tag_is_b n = true -> no_semi v = true ->
  length ts < fuel ->
  delete_b_go fuel (tags_text ts ++ n ++ 61%N :: v) = tags_text ts ++ n ++ [61%N].
Proof.
  induction ts as [|t ts IH]; intros n v fuel F Hn Hne Hb Hv Hf; (destruct fuel as [|f]; [cbn in Hf; lia|]).
  - cbn [tags_text flat_map app delete_b_go]. rewrite upto_semi_end.
    + rewrite split_eq_app by exact Hne. rewrite Hb. reflexivity.
    + rewrite no_semi_app, Hn. cbn. exact Hv.
  - inversion F as [|? ? [Ht Htb] F']; subst.
    assert (E : tags_text (t :: ts) ++ n ++ 61%N :: v = t ++ 59%N :: (tags_text ts ++ n ++ 61%N :: v)).
    { cbn [tags_text flat_map]. rewrite <- !app_assoc. reflexivity. }
    rewrite E. cbn [delete_b_go]. rewrite upto_semi_app by exact Ht. unfold is_b_tag in Htb.
    assert (E2 : tags_text (t :: ts) ++ n ++ [61%N] = t ++ 59%N :: (tags_text ts ++ n ++ [61%N])).
    { cbn [tags_text flat_map]. rewrite <- !app_assoc. reflexivity. }
    assert (Hf' : length ts < f) by (cbn [length] in Hf; lia).
    rewrite E2. rewrite (IH n v f F' Hn Hne Hb Hv Hf').
    destruct (split_eq t) as [[nm vv]|]; [rewrite Htb|]; reflexivity.
Qed.

Lemma tags_len ts : length ts <= length (tags_text ts).
Proof. induction ts as [|t ts IH]; cbn [tags_text flat_map length]; [lia|]. rewrite !app_length. fold (tags_text ts). cbn [length]. lia. Qed.

Theorem delete_b_gives_unsigned : forall ts n sigtext,
  Forall (fun t => no_semi t = true /\ is_b_tag t = false) ts ->
  no_semi n = true -> no_eq n = true -> tag_is_b n = true -> no_semi sigtext = true ->
  delete_b (tags_text ts ++ n ++ [61%N] ++ sigtext) = tags_text ts ++ n ++ [61%N].
Proof.
  intros ts n v F Hn Hne Hb Hv. unfold delete_b. apply delete_b_last; auto.
  rewrite !app_length. pose proof (tags_len ts). lia.
Qed.

Lemma In_firstn' {A} n (l : list A) x : In x (firstn n l) -> In x l.
Proof. revert l; induction n as [|n IH]; intros [|y l] H; cbn in *; try contradiction. destruct H as [->|H]; auto. Qed.
Lemma In_skipn' {A} n (l : list A) x : In x (skipn n l) -> In x l.
Proof. revert l; induction n as [|n IH]; intros [|y l] H; cbn in *; try contradiction; auto. Qed.

(* the folded signature (CRLF SP chunk)* CRLF is such a sigtext when the signature is base64 *)
Lemma fold_sig_no_semi sig : no_semi sig = true -> no_semi (fold_sig sig ++ CRLF) = true.
Proof.
  intros H. rewrite no_semi_app. apply andb_true_intro. split; [|reflexivity].
  unfold fold_sig. generalize (length sig) at 1. intros fuel. revert sig H.
  induction fuel as [|f IH]; intros sig H; [reflexivity|]. cbn [chunks]. destruct sig as [|c sig]; [reflexivity|].
  cbn [flat_map]. rewrite !no_semi_app. apply andb_true_intro. split.
  - apply andb_true_intro. split; [reflexivity|]. apply andb_true_intro. split; [reflexivity|].
    unfold no_semi in *. apply forallb_forall. intros x Hx. apply (proj1 (forallb_forall _ _) H). eapply In_firstn'; exact Hx.
  - apply IH. unfold no_semi in *. apply forallb_forall. intros x Hx. apply (proj1 (forallb_forall _ _) H). eapply In_skipn'; exact Hx.
Qed.
