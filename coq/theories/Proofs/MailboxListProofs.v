(* C17 / C01: a list of mailboxes without display names, with addresses run(.run)*@run(.run)*, displayed by
   Mailboxes' Display and read back by the list grammar, gives the same mailboxes. *)
From Coq Require Import Lia Arith.
From LV Require Import Base.Bytes Base.Utf8 Base.Res Model.Address Model.Mailbox Proofs.MailboxProofs.

(* an item of the list: the bare address, whatever follows it starting with ',' (or nothing) *)
Lemma p_name_addr_bare a rest : saddr_ok a -> p_name_addr (sa_str a ++ rest) = None.
Proof.
  intros Ha. pose proof Ha as [[Hf Hx] Hd]. unfold p_name_addr, p_phrase.
  unfold sa_str at 1 2, sa_user, datom. rewrite <- !app_assoc.
  assert (Hst : stops is_atext_cp (dots (uxs a) ++ [64] ++ sa_domain a ++ rest)) by (destruct (uxs a); reflexivity).
  rewrite (p_word_atext _ _ Hf Hst). cbn [app].
  rewrite (p_words_dots_groups (uxs a) _ _ Hx).
  - unfold p_angle_addr, skip_ws. cbn [skip_while]. change (is_ws_cp 64) with false. cbn iota.
    change (64 =? 60) with false. reflexivity.
  - rewrite !app_length. pose proof (dots_length2 _ Hx). cbn [length]. lia.
Qed.

Definition comma_or_end (rest : ustr) : Prop := rest = [] \/ exists r, rest = 44 :: r.
Lemma comma_ends rest : comma_or_end rest -> ends rest.
Proof. intros [->|(r & ->)]; cbn; [exact I|]. split; [reflexivity|discriminate]. Qed.

Lemma p_item_bare a rest : saddr_ok a -> comma_or_end rest ->
  p_mailbox_item (sa_str a ++ rest) = Some ((None, (sa_user a, sa_domain a)), rest).
Proof.
  intros Ha Hr. unfold p_mailbox_item. rewrite (p_name_addr_bare a rest Ha).
  rewrite (p_addr_spec_ok a rest Ha (comma_ends rest Hr)). reflexivity.
Qed.

(* the displayed list *)
Fixpoint tail_text (l : list saddr) : ustr :=
  match l with [] => [] | a :: r => [44; 32] ++ sa_str a ++ tail_text r end.
Definition raw_of (a : saddr) : option ustr * (ustr * ustr) := (None, (sa_user a, sa_domain a)).

Lemma tail_comma l : comma_or_end (tail_text l).
Proof. destruct l as [|a r]; [left; reflexivity|right; cbn; eauto]. Qed.

Lemma sa_head_not_ws a t : saddr_ok a -> is_ws_cp (hd 0 (uf a)) = false ->
  skip_ws (sa_str a ++ t) = sa_str a ++ t.
Proof.
  intros [[Hf _] _] Hh. unfold sa_str, sa_user, datom. destruct (atexts_head _ Hf) as (c & r & E & _).
  rewrite E in *. cbn [hd] in Hh. cbn [app]. unfold skip_ws. cbn [skip_while]. rewrite Hh. reflexivity.
Qed.

Lemma p_list_rest_bare : forall l fuel, Forall (fun a => saddr_ok a /\ is_ws_cp (hd 0 (uf a)) = false) l ->
  (length l < fuel)%nat -> p_list_rest fuel (tail_text l) = (map raw_of l, []).
Proof.
  induction l as [|a l IH]; intros fuel F Hf; (destruct fuel as [|f]; [cbn in Hf; lia|]).
  - reflexivity.
  - inversion F as [|? ? [Ha Hh] F']; subst. cbn [tail_text p_list_rest app].
    unfold skip_ws at 1. cbn [skip_while]. change (is_ws_cp 44) with false. cbn iota. change (44 =? 44) with true. cbn iota.
    unfold skip_ws at 1. cbn [skip_while]. change (is_ws_cp 32) with true. cbn iota. fold (skip_ws (sa_str a ++ tail_text l)).
    rewrite (sa_head_not_ws a _ Ha Hh). rewrite (p_item_bare a _ Ha (tail_comma l)).
    rewrite (IH f F') by (cbn [length] in Hf; lia). reflexivity.
Qed.

Lemma tail_len l : (2 * length l <= length (tail_text l))%nat.
Proof. induction l as [|a l IH]; cbn [tail_text length]; [lia|]. rewrite !app_length. cbn [length]. lia. Qed.

Theorem parse_list_bare a l : Forall (fun a => saddr_ok a /\ is_ws_cp (hd 0 (uf a)) = false) (a :: l) ->
  parse_mailbox_list_raw (sa_str a ++ tail_text l) = Some (map raw_of (a :: l)).
Proof.
  intros F. inversion F as [|? ? [Ha Hh] F']; subst. unfold parse_mailbox_list_raw.
  rewrite (p_item_bare a _ Ha (tail_comma l)). destruct l as [|b l]; [reflexivity|].
  rewrite (p_list_rest_bare (b :: l) _ F'); [reflexivity|].
  pose proof (tail_len (b :: l)) as T. cbn [length] in *. lia.
Qed.

(* Display of such a list *)
Definition mb_of (a : saddr) : mailbox := mkMb None (sa_str a).
Lemma show_go_bare l : show_mailboxes_go (map mb_of l) false = Some (tail_text l).
Proof. induction l as [|a l IH]; [reflexivity|]. cbn [map show_mailboxes_go show_mailbox mb_of mb_name mb_email tail_text]. rewrite IH. reflexivity. Qed.
Lemma show_list_bare a l : show_mailboxes (map mb_of (a :: l)) = Some (sa_str a ++ tail_text l).
Proof. unfold show_mailboxes. cbn [map show_mailboxes_go show_mailbox mb_of mb_name mb_email]. rewrite show_go_bare. reflexivity. Qed.

Section WithOracles.
Variable alnum : N -> bool.
Variable idna : ustr -> option ustr.
Variable ip_ok : ustr -> bool.

(* the class of mailboxes: no display name, a simple address the address constructor accepts unchanged *)
Definition addr_accepted (a : saddr) : Prop :=
  exists A, addr_new alnum idna ip_ok (sa_user a) (sa_domain a) = Ok A /\ a_display A = sa_str a.
Definition bare_ok (a : saddr) : Prop := saddr_ok a /\ is_ws_cp (hd 0 (uf a)) = false /\ addr_accepted a.
Definition Pbare (m : mailbox) : Prop := exists a, bare_ok a /\ m = mb_of a.

Lemma mk_mailboxes_bare l : Forall bare_ok l -> mk_mailboxes alnum idna ip_ok (map raw_of l) = Ok (map mb_of l).
Proof.
  induction l as [|a l IH]; intros F; [reflexivity|]. inversion F as [|? ? (Ha & Hh & (A & HA & HD)) F']; subst.
  cbn [map mk_mailboxes]. unfold mk_mailbox, raw_of at 1. rewrite HA. rewrite (IH F'). unfold mb_of at 2. rewrite HD. reflexivity.
Qed.

Lemma Pbare_list L : Forall Pbare L -> exists l, Forall bare_ok l /\ L = map mb_of l.
Proof.
  induction L as [|m L IH]; intros F; [exists []; split; [constructor|reflexivity]|].
  inversion F as [|? ? (a & Ha & ->) F']; subst. destruct (IH F') as (l & Hl & ->).
  exists (a :: l). split; [constructor; assumption|reflexivity].
Qed.

Theorem list_roundtrip : forall L, Forall Pbare L ->
  exists v, show_mailboxes L = Some v /\
  exists L', mailboxes_from_str alnum idna ip_ok v = Ok L' /\ L' = L.
Proof.
  intros L F. destruct (Pbare_list L F) as (l & Hl & ->). destruct l as [|a l].
  - exists []. split; [reflexivity|]. exists []. split; reflexivity.
  - exists (sa_str a ++ tail_text l). split; [apply show_list_bare|]. exists (map mb_of (a :: l)). split; [|reflexivity].
    unfold mailboxes_from_str. rewrite parse_list_bare.
    + apply mk_mailboxes_bare. exact Hl.
    + eapply Forall_impl; [|exact Hl]. intros x (A & B & _). auto.
Qed.

Theorem one_roundtrip : forall m, Pbare m ->
  exists v, show_mailbox m = Some v /\
  exists m', mailbox_from_str alnum idna ip_ok v = Ok m' /\ m' = m.
Proof.
  intros m (a & (Ha & Hh & (A & HA & HD)) & ->). exists (sa_str a). split; [reflexivity|].
  exists (mb_of a). split; [|reflexivity]. unfold mailbox_from_str. rewrite (parse_bare a Ha Hh).
  unfold mk_mailbox. rewrite HA, HD. reflexivity.
Qed.
End WithOracles.
