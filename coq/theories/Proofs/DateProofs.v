(* C17 / C19: the Date header.  For every second from 1970-01-01 to 9999-12-31 23:59:59 the date lettre writes is
   read back by lettre as the same instant. *)
From Coq Require Import ZArith List Bool Strings.String Lia ZifyBool ZifyN.
From LV Require Import Base.Bytes Base.Str Model.Date.
Import ListNotations.
Local Open Scope Z_scope.
Ltac Zify.zify_post_hook ::= Z.to_euclidean_division_equations.

(* ---------- the 400-year period ---------- *)
Lemma era_shift days : era (days + 146097) = (fst (era days) + 1, snd (era days)).
Proof.
  unfold era.
  destruct (Z.rem days 146097 <? 0) eqn:E1; destruct (Z.rem (days + 146097) 146097 <? 0) eqn:E2; cbn [fst snd]; f_equal; lia.
Qed.

Lemma wday_shift days : wday_of (days + 146097) = wday_of days.
Proof.
  unfold wday_of.
  destruct (Z.rem (3 + days) 7 <=? 0) eqn:E1; destruct (Z.rem (3 + (days + 146097)) 7 <=? 0) eqn:E2; lia.
Qed.

Lemma civil_shift d : civil (d + 146097) =
  let '(y, m, md, w) := civil d in (y + 400, m, md, w).
Proof.
  unfold civil. replace (d + 146097 - 11017) with ((d - 11017) + 146097) by lia.
  rewrite era_shift, wday_shift. destruct (era (d - 11017)) as [qc r]. cbn [fst snd].
  destruct (in_era r) as [[yo m] md]. f_equal. f_equal. f_equal. lia.
Qed.

Lemma leap_shift y : is_leap_year (y + 400) = is_leap_year y.
Proof.
  unfold is_leap_year.
  replace (Z.rem (y + 400) 4 =? 0) with (Z.rem y 4 =? 0) by (destruct (Z.rem y 4 =? 0) eqn:A; destruct (Z.rem (y + 400) 4 =? 0) eqn:B; lia).
  replace (Z.rem (y + 400) 100 =? 0) with (Z.rem y 100 =? 0) by (destruct (Z.rem y 100 =? 0) eqn:A; destruct (Z.rem (y + 400) 100 =? 0) eqn:B; lia).
  replace (Z.rem (y + 400) 400 =? 0) with (Z.rem y 400 =? 0) by (destruct (Z.rem y 400 =? 0) eqn:A; destruct (Z.rem (y + 400) 400 =? 0) eqn:B; lia).
  reflexivity.
Qed.

Lemma days_of_shift y m md : 1970 <= y -> days_of (y + 400) m md = days_of y m md + 146097.
Proof.
  intros Hy. unfold days_of. rewrite leap_shift.
  destruct (is_leap_year y && (2 <? m)); lia.
Qed.

(* ---------- one period, by exhaustive evaluation ---------- *)
Definition day_ok (d : Z) : bool :=
  let '(y, m, md, w) := civil d in
  (days_of y m md =? d) && (1970 <=? y) && (y <=? 2370) && (1 <=? m) && (m <=? 12) && (1 <=? md) && (md <=? 31) &&
  (1 <=? w) && (w <=? 7) && ((10957 <=? d) || (y <=? 1999)).
Fixpoint all_below (k : nat) (base : Z) (lim : Z) : bool :=
  match k with
  | O => if base <? lim then day_ok base else true
  | S k' => all_below k' base lim && all_below k' (base + two_power_nat k') lim
  end.
Lemma all_below_sound k : forall base lim, all_below k base lim = true ->
  forall d, base <= d < base + two_power_nat k -> d < lim -> day_ok d = true.
Proof.
  induction k as [|k IH]; intros base lim H d Hd Hl.
  - change (two_power_nat 0) with 1 in Hd. assert (d = base) by lia. subst d. cbn in H. destruct (base <? lim) eqn:E; [exact H|lia].
  - cbn [all_below] in H. apply andb_prop in H. destruct H as [H1 H2]. rewrite two_power_nat_S in Hd.
    destruct (Z_lt_ge_dec d (base + two_power_nat k)) as [L|G].
    + apply (IH base lim H1); lia.
    + apply (IH (base + two_power_nat k) lim H2); lia.
Qed.
Lemma first_period_checked : all_below 18 0 146097 = true.
Proof. vm_compute. reflexivity. Qed.
Lemma first_period d : 0 <= d < 146097 -> day_ok d = true.
Proof.
  intros Hd. apply (all_below_sound 18 0 146097 first_period_checked); [|lia].
  change (two_power_nat 18) with 262144. lia.
Qed.

(* ---------- every day from 1970-01-01 to 9999-12-31 ---------- *)
Definition LASTDAY : Z := 2932897.       (* LIMIT / 86400 *)
Record day_spec (d y m md w : Z) : Prop := {
  ds_back : days_of y m md = d;
  ds_year : 1970 <= y <= 9999;
  ds_mon : 1 <= m <= 12;
  ds_mday : 1 <= md <= 31;
  ds_wday : 1 <= w <= 7 }.

Lemma civil_periods k : 0 <= k -> forall d0, 0 <= d0 < 146097 ->
  let '(y0, m0, md0, w0) := civil d0 in
  civil (d0 + 146097 * k) = (y0 + 400 * k, m0, md0, w0) /\ days_of (y0 + 400 * k) m0 md0 = d0 + 146097 * k.
Proof.
  intros Hk. pattern k. apply natlike_ind; [| |exact Hk].
  - intros d0 Hd. pose proof (first_period d0 Hd) as F. unfold day_ok in F.
    destruct (civil d0) as [[[y0 m0] md0] w0] eqn:E. rewrite !Z.mul_0_r, !Z.add_0_r. split; [exact E|].
    repeat (apply andb_prop in F; destruct F as [F ?]). lia.
  - intros x Hx IH d0 Hd. specialize (IH d0 Hd). pose proof (first_period d0 Hd) as F. unfold day_ok in F.
    destruct (civil d0) as [[[y0 m0] md0] w0] eqn:E. destruct IH as [I1 I2].
    replace (d0 + 146097 * Z.succ x) with ((d0 + 146097 * x) + 146097) by lia.
    rewrite civil_shift, I1. replace (y0 + 400 * Z.succ x) with ((y0 + 400 * x) + 400) by lia. split; [reflexivity|].
    rewrite days_of_shift; [lia|]. repeat (apply andb_prop in F; destruct F as [F ?]). lia.
Qed.

Theorem civil_correct d : 0 <= d < LASTDAY ->
  let '(y, m, md, w) := civil d in day_spec d y m md w.
Proof.
  intros Hd. unfold LASTDAY in Hd.
  set (k := d / 146097). set (d0 := d mod 146097).
  assert (Hk : 0 <= k <= 20) by (unfold k; lia).
  assert (H0 : 0 <= d0 < 146097) by (unfold d0; lia).
  assert (Ed : d = d0 + 146097 * k) by (unfold d0, k; lia).
  pose proof (civil_periods k (proj1 Hk) d0 H0) as P. pose proof (first_period d0 H0) as F. unfold day_ok in F.
  destruct (civil d0) as [[[y0 m0] md0] w0] eqn:E. destruct P as [P1 P2]. rewrite Ed, P1.
  repeat (apply andb_prop in F; destruct F as [F ?]).
  constructor; try lia.
Qed.

(* ---------- seconds ---------- *)
Definition fields_ok (d : hdate) : Prop :=
  0 <= hd_sec d < 60 /\ 0 <= hd_min d < 60 /\ 0 <= hd_hour d < 24 /\ 1 <= hd_day d <= 31 /\ 1 <= hd_mon d <= 12 /\
  1970 <= hd_year d <= 9999 /\ 1 <= hd_wday d <= 7.

Theorem of_secs_back s : 0 <= s < LIMIT ->
  exists d, of_secs s = Some d /\ to_secs d = s /\ fields_ok d.
Proof.
  intros Hs. unfold LIMIT in Hs. unfold of_secs.
  replace ((s <? 0) || (LIMIT <=? s)) with false by (unfold LIMIT; lia).
  assert (Hd : 0 <= Z.quot s 86400 < LASTDAY) by (unfold LASTDAY; lia).
  pose proof (civil_correct _ Hd) as C. destruct (civil (Z.quot s 86400)) as [[[y m] md] w].
  destruct C as [C1 C2 C3 C4 C5]. eexists. split; [reflexivity|]. unfold to_secs, fields_ok. cbn [hd_sec hd_min hd_hour hd_day hd_mon hd_year hd_wday].
  rewrite C1. split; [lia|]. repeat split; lia.
Qed.

Lemma hd_eqb_refl d : hd_eqb d d = true.
Proof. unfold hd_eqb. rewrite !Z.eqb_refl. reflexivity. Qed.

Lemma of_secs_valid s d : 0 <= s < LIMIT -> of_secs s = Some d -> is_valid d = true.
Proof.
  intros Hs E. destruct (of_secs_back s Hs) as (d' & E' & B & F). rewrite E in E'. injection E' as <-.
  unfold is_valid. rewrite B, E, hd_eqb_refl. unfold fields_ok in F.
  repeat (apply andb_true_intro; split); lia.
Qed.

(* ---------- Display and FromStr ---------- *)
Lemma toint_1_dg x : 0 <= x <= 9 -> toint_1 (dg x) = Some x.
Proof.
  intros Hx. unfold toint_1, dg.
  replace ((48 <=? Z.to_N (48 + x))%N && (Z.to_N (48 + x) <=? 57)%N) with true by lia.
  f_equal. lia.
Qed.
Lemma dg_ascii x : 0 <= x <= 9 -> (dg x <? 128)%N = true.
Proof. intros Hx. unfold dg. lia. Qed.
Lemma toint_2_two x : 0 <= x < 100 -> toint_2 (two x) = Some x.
Proof.
  intros Hx. unfold toint_2, two. rewrite !toint_1_dg by lia. f_equal. lia.
Qed.
Lemma toint_4_four y : 0 <= y < 10000 -> toint_4 (four y) = Some y.
Proof.
  intros Hy. unfold toint_4, four. rewrite !toint_1_dg by lia. f_equal. lia.
Qed.

Definition name3_ok (n : bytes) (tbl : list (bytes * Z)) (v : Z) : Prop :=
  exists a b c, n = [a; b; c] /\ lookup [a; b; c] tbl = Some v /\
    (a <? 128)%N = true /\ (b <? 128)%N = true /\ (c <? 128)%N = true /\ is_space a = false.
Lemma wday_name_ok w : 1 <= w <= 7 -> name3_ok (wday_name w) WDAY3 w.
Proof.
  intros Hw. assert (C : w = 1 \/ w = 2 \/ w = 3 \/ w = 4 \/ w = 5 \/ w = 6 \/ w = 7) by lia.
  destruct C as [->|[->|[->|[->|[->|[->| ->]]]]]]; do 3 eexists; repeat split.
Qed.
Lemma mon_name_ok m : 1 <= m <= 12 -> name3_ok (mon_name m) MON3 m.
Proof.
  intros Hm. assert (C : m = 1 \/ m = 2 \/ m = 3 \/ m = 4 \/ m = 5 \/ m = 6 \/ m = 7 \/ m = 8 \/ m = 9 \/ m = 10 \/ m = 11 \/ m = 12) by lia.
  destruct C as [->|[->|[->|[->|[->|[->|[->|[->|[->|[->|[->| ->]]]]]]]]]]]; do 3 eexists; repeat split.
Qed.

Lemma parse_display d : fields_ok d -> is_valid d = true -> date_parse (date_display d) = Some d.
Proof.
  destruct d as [s mi h da mo y w]. unfold fields_ok. cbn [hd_sec hd_min hd_hour hd_day hd_mon hd_year hd_wday].
  intros (Hs & Hmi & Hh & Hda & Hmo & Hy & Hw) Hv.
  destruct (wday_name_ok w Hw) as (a & b & c & Ew & Lw & Aa & Ab & Ac & Sa).
  destruct (mon_name_ok mo Hmo) as (a2 & b2 & c2 & Em & Lm & Aa2 & Ab2 & Ac2 & _).
  unfold date_parse, date_display, fmt_head, fmt_tail. cbn [hd_sec hd_min hd_hour hd_day hd_mon hd_year hd_wday].
  rewrite Ew, Em. unfold two, four.
  Opaque dg lookup toint_1 is_valid.
  cbn.
  unfold httpdate_from_str. cbn [forallb]. rewrite Aa, Ab, Ac, Aa2, Ab2, Ac2. rewrite !dg_ascii by lia.
  cbn [andb negb].
  match goal with |- (if negb ?b then _ else _) = _ => replace b with true by reflexivity end. cbn [negb].
  match goal with |- context [trim ?l] => set (L := l) end.
  assert (T : trim L = L).
  { unfold trim, L. cbn [ltrim]. rewrite Sa. cbn. reflexivity. }
  rewrite T.
  assert (P : parse_imf L = Some (mkHD s mi h da mo y w)).
  { unfold parse_imf, L. cbn. rewrite Lw, Lm. unfold toint_2, toint_4. rewrite !toint_1_dg by lia. cbn [mk7].
    f_equal. f_equal; lia. }
  rewrite P. cbn [or_else]. rewrite Hv. reflexivity.
Qed.
Transparent dg lookup toint_1 is_valid.

(* ---------- the Date header: written and read back ---------- *)
Theorem date_roundtrip s : 0 <= s < LIMIT ->
  exists d, of_secs s = Some d /\ date_parse (date_display d) = Some d /\ to_secs d = s.
Proof.
  intros Hs. destruct (of_secs_back s Hs) as (d & E & B & F). exists d. split; [exact E|]. split; [|exact B].
  apply parse_display; [exact F|]. exact (of_secs_valid s d Hs E).
Qed.

(* outside the range the conversion panics (F37); inside it never does *)
Lemma of_secs_none s : of_secs s = None <-> (s < 0 \/ LIMIT <= s).
Proof.
  unfold of_secs. destruct ((s <? 0) || (LIMIT <=? s)) eqn:E.
  - split; [intros _; lia|reflexivity].
  - destruct (civil (s ÷ 86400)) as [[[y m] md] w]. split; [discriminate|lia].
Qed.

