(* C17 / C01: lists of mailboxes WITH display names.  Every mailbox whose address is run(.run)*@run(.run)* and whose
   display name is either absent, or (trimmed) atom words separated by SP/TAB runs, or anything else without NUL,
   LF, CR (then written as a quoted string) - displayed by Mailboxes' Display and read back by the list grammar -
   gives the same addresses in the same order, names equal up to the length of inner SP/TAB runs, and the result is
   again in the class (so the builder, which re-parses its own output on every call, stays inside it). *)
From Coq Require Import Lia Arith.
From LV Require Import Base.Bytes Base.Utf8 Base.Res Model.Address Model.Mailbox Proofs.MailboxProofs Proofs.MailboxListProofs.
Local Arguments N.eqb : simpl never.
Local Arguments N.leb : simpl never.
Local Arguments N.ltb : simpl never.

(* ---------- trimmed texts ---------- *)
Definition lastc (t : ustr) : N := hd 0 (rev t).

Lemma trim_start_id t : is_ws_cp (hd 0 t) = false -> trim_start_ws t = t.
Proof. destruct t as [|c r]; [reflexivity|]. cbn. intros ->. reflexivity. Qed.
Lemma trimmed t : is_ws_cp (hd 0 t) = false -> is_ws_cp (lastc t) = false -> trim_ws t = t.
Proof.
  intros H1 H2. unfold trim_ws. rewrite (trim_start_id t H1). rewrite (trim_start_id (rev t) H2). apply rev_involutive.
Qed.
Lemma lastc_app X s : s <> [] -> lastc (X ++ s) = lastc s.
Proof.
  intros Hne. unfold lastc. rewrite rev_app_distr. destruct (rev s) as [|c t] eqn:E; [|reflexivity].
  exfalso. apply Hne. apply (f_equal (@rev N)) in E. rewrite rev_involutive in E. exact E.
Qed.

Lemma trim_start_suffix l : exists p, l = p ++ trim_start_ws l /\ is_ws_cp (hd 0 (trim_start_ws l)) = false.
Proof.
  induction l as [|c r IH]; [exists []; split; reflexivity|]. cbn [trim_start_ws]. destruct (is_ws_cp c) eqn:E.
  - destruct IH as (p & A & B). exists (c :: p). split; [cbn; rewrite <- A; reflexivity|exact B].
  - exists []. split; [reflexivity|exact E].
Qed.
(* what trim() returns is empty or begins and ends with a character that is not white space *)
Lemma trim_ws_ends n : trim_ws n = [] \/ (is_ws_cp (hd 0 (trim_ws n)) = false /\ is_ws_cp (lastc (trim_ws n)) = false).
Proof.
  unfold trim_ws. destruct (trim_start_suffix n) as (p1 & A1 & B1). set (u := trim_start_ws n) in *.
  destruct (trim_start_suffix (rev u)) as (p2 & A2 & B2). set (v := trim_start_ws (rev u)) in *.
  destruct v as [|c v'] eqn:Ev; [left; reflexivity|]. right. split.
  - assert (Eu : u = rev (c :: v') ++ rev p2).
    { apply (f_equal (@rev N)) in A2. rewrite rev_involutive, rev_app_distr in A2. exact A2. }
    assert (Hne : rev (c :: v') <> []). { intros E. apply (f_equal (@length N)) in E. rewrite rev_length in E. discriminate. }
    destruct (rev (c :: v')) as [|x xs] eqn:Er; [contradiction|]. rewrite Eu in B1. cbn in B1. exact B1.
  - unfold lastc. rewrite rev_involutive. exact B2.
Qed.

(* the last character of  A ++ pieces  when the pieces end alike *)
Lemma lastc_flat {T} (g1 g2 sfx : T -> ustr) rest :
  (forall p, In p rest -> sfx p <> [] /\ exists x1 x2, g1 p = x1 ++ sfx p /\ g2 p = x2 ++ sfx p) ->
  forall A1 A2, lastc A1 = lastc A2 -> lastc (A1 ++ flat_map g1 rest) = lastc (A2 ++ flat_map g2 rest).
Proof.
  induction rest as [|p r IH]; intros H A1 A2 E; [cbn; rewrite !app_nil_r; exact E|]. cbn [flat_map]. rewrite !app_assoc.
  apply IH; [intros q Hq; apply H; right; exact Hq|].
  destruct (H p (or_introl eq_refl)) as (Hne & x1 & x2 & -> & ->). rewrite !app_assoc. rewrite !lastc_app by exact Hne. reflexivity.
Qed.

Lemma flat_map_map {A B C} (h : A -> B) (g : B -> list C) l : flat_map g (map h l) = flat_map (fun x => g (h x)) l.
Proof. induction l as [|x l IH]; [reflexivity|]. cbn. rewrite IH. reflexivity. Qed.

Lemma wsp_is_ws c : is_wsp_cp c = true -> is_ws_cp c = true.
Proof. unfold is_wsp_cp, is_ws_cp. intros H. apply orb_prop in H. destruct H as [H|H]; apply N.eqb_eq in H; subst c; reflexivity. Qed.
Lemma wsp_is_valid c : is_wsp_cp c = true -> is_valid_atom_cp c = true.
Proof. unfold is_wsp_cp. intros H. apply orb_prop in H. destruct H as [H|H]; apply N.eqb_eq in H; subst c; reflexivity. Qed.

(* ---------- the three shapes of a mailbox ---------- *)
Inductive mkind :=
| KBare (a : saddr)
| KPlain (n w1 : ustr) (rest : list (ustr * ustr)) (a : saddr)
| KQuoted (n : ustr) (items : list (ustr * N)) (a : saddr).

Definition k_addr (k : mkind) : saddr := match k with KBare a => a | KPlain _ _ _ a => a | KQuoted _ _ a => a end.
Definition k_mb (k : mkind) : mailbox :=
  match k with
  | KBare a => mkMb None (sa_str a)
  | KPlain n _ _ a => mkMb (Some n) (sa_str a)
  | KQuoted n _ a => mkMb (Some n) (sa_str a)
  end.
Definition k_txt (k : mkind) : ustr :=
  match k with
  | KBare a => sa_str a
  | KPlain _ w1 rest a => name_text w1 rest ++ 32 :: 60 :: sa_str a ++ [62]
  | KQuoted _ items a => 34 :: quoted_text items ++ 34 :: 32 :: 60 :: sa_str a ++ [62]
  end.
Definition k_name (k : mkind) : option ustr :=
  match k with
  | KBare _ => None
  | KPlain _ w1 rest _ => Some (name_read w1 rest)
  | KQuoted _ items _ => Some (quoted_read items)
  end.
Definition k_raw (k : mkind) : option ustr * (ustr * ustr) := (k_name k, (sa_user (k_addr k), sa_domain (k_addr k))).
(* the mailbox that is read back *)
Definition k_rd (k : mkind) : mailbox := mkMb (k_name k) (sa_str (k_addr k)).

Definition k_shape (k : mkind) : Prop :=
  match k with
  | KBare a => is_ws_cp (hd 0 (uf a)) = false
  | KPlain n w1 rest a =>
      trim_ws n = name_text w1 rest /\ plain_ok w1 rest /\ forallb is_valid_atom_cp (name_text w1 rest) = true
  | KQuoted n items a =>
      trim_ws n = plain_text items /\ items <> [] /\ Forall item_ok items /\ forallb is_valid_atom_cp (plain_text items) = false
  end.

Lemma name_text_ne w1 rest : plain_ok w1 rest -> name_text w1 rest <> [] /\ hd 0 (name_text w1 rest) = hd 0 w1.
Proof. intros [H _]. unfold name_text. destruct (atexts_head _ H) as (c & t & -> & _). split; [discriminate|reflexivity]. Qed.
Lemma plain_text_ne items : items <> [] -> plain_text items <> [].
Proof.
  destruct items as [|[s c] r]; [contradiction|]. intros _. cbn [plain_text flat_map fst snd]. intros E.
  apply app_eq_nil in E. destruct E as [E _]. apply app_eq_nil in E. destruct E as [_ E]. discriminate.
Qed.

(* Display *)
Lemma k_show k : k_shape k -> show_mailbox (k_mb k) = Some (k_txt k).
Proof.
  destruct k as [a|n w1 rest a|n items a]; cbn [k_shape k_mb k_txt]; [reflexivity| |].
  - intros (Ht & Hp & Hv). unfold show_mailbox. cbn [mb_name mb_email]. rewrite Ht.
    destruct (name_text_ne w1 rest Hp) as [Hne _]. destruct (name_text w1 rest) as [|c0 t0] eqn:E; [contradiction|].
    unfold write_word. rewrite Hv. reflexivity.
  - intros (Ht & Hne & Hi & Hv). unfold show_mailbox. cbn [mb_name mb_email]. rewrite Ht.
    pose proof (plain_text_ne items Hne) as Hn. pose proof (quoted_chars_items items Hi) as Q.
    destruct (plain_text items) as [|c0 t0]; [contradiction|]. unfold write_word. rewrite Hv, Q. cbn [app]. rewrite <- !app_assoc. reflexivity.
Qed.

(* one item of a list, whatever follows it starting with ',' (or nothing) *)
Lemma skip_ws_comma rest : comma_or_end rest -> skip_ws rest = rest.
Proof. intros [->|(r & ->)]; reflexivity. Qed.

Lemma k_item k rest : k_shape k -> saddr_ok (k_addr k) -> comma_or_end rest ->
  p_mailbox_item (k_txt k ++ rest) = Some (k_raw k, rest).
Proof.
  destruct k as [a|n w1 rest0 a|n items a]; cbn [k_shape k_txt k_addr]; unfold k_raw; cbn [k_name k_addr].
  - intros _ Ha Hr. apply p_item_bare; assumption.
  - intros (_ & Hp & _) Ha Hr. unfold p_mailbox_item, p_name_addr. rewrite <- !app_assoc. cbn [app].
    rewrite (p_phrase_plain w1 rest0 _ Hp). rewrite <- app_assoc. cbn [app]. rewrite (p_angle_addr_ok a rest Ha).
    rewrite (skip_ws_comma rest Hr). reflexivity.
  - intros (_ & _ & Hi & _) Ha Hr. unfold p_mailbox_item, p_name_addr. cbn [app]. rewrite <- !app_assoc. cbn [app].
    rewrite (p_phrase_quoted items _ Hi). rewrite <- app_assoc. cbn [app]. rewrite (p_angle_addr_ok a rest Ha).
    rewrite (skip_ws_comma rest Hr). reflexivity.
Qed.

(* the text of an item does not begin with white space *)
Lemma k_head k t : k_shape k -> saddr_ok (k_addr k) -> skip_ws (k_txt k ++ t) = k_txt k ++ t.
Proof.
  destruct k as [a|n w1 rest0 a|n items a]; cbn [k_shape k_txt k_addr].
  - intros Hh Ha. apply sa_head_not_ws; assumption.
  - intros (Ht & Hp & _) _. destruct (name_text_ne w1 rest0 Hp) as [Hne Hhd].
    destruct (trim_ws_ends n) as [E|[E _]]; rewrite Ht in E; [contradiction|].
    destruct (name_text w1 rest0) as [|c r]; [contradiction|]. cbn in E. cbn [app]. unfold skip_ws. cbn [skip_while]. rewrite E. reflexivity.
  - intros _ _. reflexivity.
Qed.

Fixpoint ktail (l : list mkind) : ustr :=
  match l with [] => [] | k :: r => [44; 32] ++ k_txt k ++ ktail r end.
Lemma ktail_comma l : comma_or_end (ktail l).
Proof. destruct l as [|a r]; [left; reflexivity|right; cbn; eauto]. Qed.

Definition k_good (k : mkind) : Prop := k_shape k /\ saddr_ok (k_addr k).

Lemma p_list_rest_k : forall l fuel, Forall k_good l -> (length l < fuel)%nat ->
  p_list_rest fuel (ktail l) = (map k_raw l, []).
Proof.
  induction l as [|k l IH]; intros fuel F Hf; (destruct fuel as [|f]; [cbn in Hf; lia|]).
  - reflexivity.
  - inversion F as [|? ? [Hs Ha] F']; subst. cbn [ktail p_list_rest app].
    unfold skip_ws at 1. cbn [skip_while]. change (is_ws_cp 44) with false. cbn iota. change (44 =? 44) with true. cbn iota.
    unfold skip_ws at 1. cbn [skip_while]. change (is_ws_cp 32) with true. cbn iota. fold (skip_ws (k_txt k ++ ktail l)).
    rewrite (k_head k _ Hs Ha). rewrite (k_item k _ Hs Ha (ktail_comma l)).
    rewrite (IH f F') by (cbn [length] in Hf; lia). reflexivity.
Qed.
Lemma ktail_len l : (2 * length l <= length (ktail l))%nat.
Proof. induction l as [|a l IH]; cbn [ktail length]; [lia|]. rewrite !app_length. cbn [length]. lia. Qed.

Theorem parse_list_k k l : Forall k_good (k :: l) ->
  parse_mailbox_list_raw (k_txt k ++ ktail l) = Some (map k_raw (k :: l)).
Proof.
  intros F. inversion F as [|? ? [Hs Ha] F']; subst. unfold parse_mailbox_list_raw.
  rewrite (k_item k _ Hs Ha (ktail_comma l)). destruct l as [|b l]; [reflexivity|].
  rewrite (p_list_rest_k (b :: l) _ F'); [reflexivity|].
  pose proof (ktail_len (b :: l)) as T. cbn [length] in *. lia.
Qed.

Lemma show_go_k l : Forall k_good l -> show_mailboxes_go (map k_mb l) false = Some (ktail l).
Proof.
  induction l as [|k l IH]; intros F; [reflexivity|]. inversion F as [|? ? [Hs _] F']; subst.
  cbn [map show_mailboxes_go ktail]. rewrite (k_show k Hs), (IH F'). reflexivity.
Qed.
Lemma show_list_k k l : Forall k_good (k :: l) -> show_mailboxes (map k_mb (k :: l)) = Some (k_txt k ++ ktail l).
Proof.
  intros F. inversion F as [|? ? [Hs _] F']; subst. unfold show_mailboxes. cbn [map show_mailboxes_go].
  rewrite (k_show k Hs), (show_go_k l F'). reflexivity.
Qed.

(* ---------- the mailbox that is read back is of the same shape ---------- *)
Definition k_norm (k : mkind) : mkind :=
  match k with
  | KBare a => KBare a
  | KPlain _ w1 rest a => KPlain (name_read w1 rest) w1 (map (fun p => ([hd 0 (fst p)], snd p)) rest) a
  | KQuoted _ items a => KQuoted (quoted_read items) (map (fun p => (opt_list (hd_error (fst p)), snd p)) items) a
  end.

Lemma k_norm_mb k : k_mb (k_norm k) = k_rd k.
Proof. destruct k; reflexivity. Qed.

Lemma forallb_flat_sub {T} (f : N -> bool) (g g' : T -> ustr) rest :
  (forall p, In p rest -> forallb f (g p) = true -> forallb f (g' p) = true) ->
  forallb f (flat_map g rest) = true -> forallb f (flat_map g' rest) = true.
Proof.
  induction rest as [|p r IH]; intros H E; [reflexivity|]. cbn [flat_map] in *. rewrite forallb_app in *. apply andb_prop in E.
  destruct E as [E1 E2]. rewrite (H p (or_introl eq_refl) E1). apply IH; [intros q Hq; apply H; right; exact Hq|exact E2].
Qed.

Lemma k_norm_shape k : k_shape k -> k_shape (k_norm k).
Proof.
  destruct k as [a|n w1 rest a|n items a]; cbn [k_shape k_norm]; [auto| |].
  - intros (Ht & Hp & Hv). set (rest' := map (fun p : ustr * ustr => ([hd 0 (fst p)], snd p)) rest).
    assert (Etext : name_text w1 rest' = name_read w1 rest).
    { unfold name_text, name_read, rest'. rewrite flat_map_map. reflexivity. }
    assert (Hp' : plain_ok w1 rest').
    { destruct Hp as [H1 HF]. split; [exact H1|]. unfold rest'. clear -HF. induction HF as [|[s w] r [Hs Hw] _ IH]; [constructor|].
      cbn [map]. constructor; [|exact IH]. cbn [fst snd] in *. split; [|exact Hw].
      destruct (wsps_head s Hs) as (c & t & -> & Hc). split; [discriminate|]. cbn. rewrite Hc. reflexivity. }
    split; [|split; [exact Hp'|]].
    + change (trim_ws (name_read w1 rest) = name_text w1 rest'). rewrite Etext. destruct (name_text_ne w1 rest Hp) as [Hne Hhd].
      destruct (trim_ws_ends n) as [E|[E1 E2]]; rewrite Ht in *; [contradiction|].
      apply trimmed.
      * rewrite <- Etext. destruct (name_text_ne w1 rest' Hp') as [_ ->]. rewrite <- Hhd. exact E1.
      * rewrite <- E2. unfold name_read, name_text. f_equal.
        apply (lastc_flat (fun p => hd 0 (fst p) :: snd p) (fun p => fst p ++ snd p) (fun p => snd p)); [|reflexivity].
        intros p Hp0. destruct Hp as [_ HF]. rewrite Forall_forall in HF. destruct (HF p Hp0) as [_ [Hw _]]. split; [exact Hw|].
        exists [hd 0 (fst p)], (fst p). split; reflexivity.
    + change (forallb is_valid_atom_cp (name_text w1 rest') = true). rewrite Etext. unfold name_read, name_text in *. rewrite forallb_app in *. apply andb_prop in Hv. destruct Hv as [V1 V2]. rewrite V1. cbn [andb].
      apply (forallb_flat_sub _ (fun p => fst p ++ snd p)); [|exact V2]. intros [s w] Hp0 E. cbn [fst snd] in *. rewrite forallb_app in E. apply andb_prop in E. destruct E as [Ea Eb].
      cbn [forallb]. rewrite Eb, andb_true_r. destruct Hp as [_ HF]. rewrite Forall_forall in HF. destruct (HF (s, w) Hp0) as [Hs _]. cbn [fst] in Hs.
      destruct (wsps_head _ Hs) as (c & t & -> & Hc). cbn [hd]. apply wsp_is_valid. exact Hc.
  - intros (Ht & Hne & Hi & Hv). set (items' := map (fun p : ustr * N => (opt_list (hd_error (fst p)), snd p)) items).
    assert (Etext : plain_text items' = quoted_read items).
    { unfold plain_text, quoted_read, items'. rewrite flat_map_map. reflexivity. }
    assert (Hi' : Forall item_ok items').
    { unfold items'. clear -Hi. induction Hi as [|[s c] r [Hs Hc] _ IH]; [constructor|]. cbn [map]. constructor; [|exact IH].
      cbn [fst snd] in *. split; [|exact Hc]. destruct s as [|x s']; [reflexivity|]. cbn in *. apply andb_prop in Hs. destruct Hs as [-> _]. reflexivity. }
    assert (Hne' : items' <> []) by (unfold items'; destruct items; [contradiction|discriminate]).
    split; [|split; [exact Hne'|split; [exact Hi'|]]].
    + change (trim_ws (quoted_read items) = plain_text items'). rewrite Etext. pose proof (plain_text_ne items Hne) as Hn.
      destruct (trim_ws_ends n) as [E|[E1 E2]]; rewrite Ht in *; [contradiction|].
      (* the first item has no white space in front of its character *)
      assert (Hfirst : hd 0 (quoted_read items) = hd 0 (plain_text items)).
      { destruct items as [|[s c] r]; [contradiction|]. unfold quoted_read, plain_text in *. cbn [flat_map fst snd] in *.
        destruct s as [|x s']; [reflexivity|]. exfalso. cbn in E1. inversion Hi as [|? ? [Hs _] _]; subst. cbn in Hs. apply andb_prop in Hs.
        destruct Hs as [Hx _]. apply wsp_is_ws in Hx. congruence. }
      apply trimmed; [rewrite Hfirst; exact E1|]. rewrite <- E2.
      change (quoted_read items) with ([] ++ quoted_read items). change (plain_text items) with ([] ++ plain_text items).
      unfold quoted_read, plain_text. f_equal.
      apply (lastc_flat (fun p => opt_list (hd_error (fst p)) ++ [snd p]) (fun p => fst p ++ [snd p]) (fun p => [snd p])); [|reflexivity].
      intros p _. split; [discriminate|]. eexists _, _. split; reflexivity.
    + change (forallb is_valid_atom_cp (plain_text items') = false). destruct (forallb is_valid_atom_cp (plain_text items')) eqn:E; [|reflexivity]. rewrite <- Hv. symmetry.
      unfold plain_text, items' in *. rewrite flat_map_map in E. cbn [fst snd] in E.
      apply (forallb_flat_sub _ (fun x : ustr * N => opt_list (hd_error (fst x)) ++ [snd x])); [|exact E].
      intros [s c] Hp0 E0. cbn [fst snd] in *. rewrite forallb_app in *. apply andb_prop in E0. destruct E0 as [_ Eb]. rewrite Eb, andb_true_r.
      rewrite Forall_forall in Hi. destruct (Hi (s, c) Hp0) as [Hs _]. cbn [fst] in Hs. clear -Hs.
      induction s as [|x t IH]; [reflexivity|]. cbn in *. apply andb_prop in Hs. destruct Hs as [Hx Ht]. rewrite (wsp_is_valid x Hx). apply IH. exact Ht.
Qed.

Section WithOracles.
Variable alnum : N -> bool.
Variable idna : ustr -> option ustr.
Variable ip_ok : ustr -> bool.

(* the class: one of the three shapes, with an address the address constructor accepts unchanged *)
Definition k_ok (k : mkind) : Prop := k_shape k /\ saddr_ok (k_addr k) /\ addr_accepted alnum idna ip_ok (k_addr k).
Definition Pnamed (m : mailbox) : Prop := exists k, k_ok k /\ m = k_mb k.

Lemma mk_mailboxes_k l : Forall k_ok l -> mk_mailboxes alnum idna ip_ok (map k_raw l) = Ok (map k_rd l).
Proof.
  induction l as [|k l IH]; intros F; [reflexivity|]. inversion F as [|? ? (Hs & Ha & (A & HA & HD)) F']; subst.
  cbn [map mk_mailboxes]. unfold mk_mailbox, k_raw at 1. rewrite HA. rewrite (IH F'). unfold k_rd at 2. rewrite HD. reflexivity.
Qed.

Lemma Pnamed_list L : Forall Pnamed L -> exists l, Forall k_ok l /\ L = map k_mb l.
Proof.
  induction L as [|m L IH]; intros F; [exists []; split; [constructor|reflexivity]|].
  inversion F as [|? ? (k & Hk & ->) F']; subst. destruct (IH F') as (l & Hl & ->).
  exists (k :: l). split; [constructor; assumption|reflexivity].
Qed.

Lemma k_rd_named k : k_ok k -> Pnamed (k_rd k).
Proof.
  intros (Hs & Ha & Hacc). exists (k_norm k). split; [|symmetry; apply k_norm_mb].
  split; [apply k_norm_shape; exact Hs|]. destruct k; exact (conj Ha Hacc).
Qed.

(* names as they are read back: each inner SP/TAB run reduced to its first character *)
Definition read_back (m : mailbox) (m' : mailbox) : Prop := exists k, k_ok k /\ m = k_mb k /\ m' = k_rd k.

Lemma read_back_all l : Forall k_ok l -> Forall2 read_back (map k_mb l) (map k_rd l).
Proof. induction 1 as [|x r Hx _ IH]; [constructor|]. cbn [map]. constructor; [|exact IH]. exists x. auto. Qed.

Theorem list_roundtrip_named : forall L, Forall Pnamed L ->
  exists v, show_mailboxes L = Some v /\
  exists L', mailboxes_from_str alnum idna ip_ok v = Ok L' /\ map mb_email L' = map mb_email L /\ Forall Pnamed L' /\
             Forall2 read_back L L'.
Proof.
  intros L F. destruct (Pnamed_list L F) as (l & Hl & ->). destruct l as [|k l].
  - exists []. split; [reflexivity|]. exists []. split; [reflexivity|]. split; [reflexivity|]. split; constructor.
  - assert (G : Forall k_good (k :: l)) by (eapply Forall_impl; [|exact Hl]; intros x (A & B & _); split; assumption).
    exists (k_txt k ++ ktail l). split; [apply show_list_k; exact G|]. exists (map k_rd (k :: l)).
    split; [unfold mailboxes_from_str; rewrite (parse_list_k k l G); apply mk_mailboxes_k; exact Hl|].
    split; [rewrite !map_map; apply map_ext; intros x; destruct x; reflexivity|]. split.
    + apply Forall_forall. intros m Hm. apply in_map_iff in Hm. destruct Hm as (x & <- & Hx). apply k_rd_named.
      rewrite Forall_forall in Hl. apply Hl. exact Hx.
    + apply read_back_all. exact Hl.
Qed.

Theorem one_roundtrip_named : forall m, Pnamed m ->
  exists v, show_mailbox m = Some v /\
  exists m', mailbox_from_str alnum idna ip_ok v = Ok m' /\ mb_email m' = mb_email m /\ read_back m m'.
Proof.
  intros m (k & Hk & ->). pose proof Hk as (Hs & Ha & (A & HA & HD)). exists (k_txt k). split; [apply k_show; exact Hs|].
  exists (k_rd k). split; [|split; [destruct k; reflexivity|exists k; auto]].
  unfold mailbox_from_str, parse_mailbox_raw. rewrite <- (app_nil_r (k_txt k)). rewrite (k_head k [] Hs Ha).
  rewrite (k_item k [] Hs Ha (or_introl eq_refl)). cbn [skip_ws skip_while]. unfold mk_mailbox, k_raw. rewrite HA. unfold k_rd. rewrite HD. reflexivity.
Qed.
End WithOracles.
