(* Addresses: shape, new-vs-parse, and safety of every accepted string. *)
From LV Require Import Base.Bytes Base.Utf8 Base.Res Model.Address.
From Coq Require Import ZArith Lia ZifyBool ZifyN.
Ltac Zify.zify_post_hook ::= Z.div_mod_to_equations.
Local Arguments N.eqb : simpl never.
Local Arguments N.leb : simpl never.
Local Arguments N.ltb : simpl never.
Local Arguments N.div : simpl never.
Local Arguments N.modulo : simpl never.

(* ---------- splitting at the last '@' ---------- *)
Lemma rsplit_at_none s : rsplit_at s = None -> ~ In AT s.
Proof.
  induction s as [|c r IH]; cbn [rsplit_at]; [auto|].
  destruct (rsplit_at r) as [[u d]|]; [discriminate|].
  destruct (c =? AT) eqn:E; [discriminate|]. intros _ [H|H]; [|exact (IH eq_refl H)].
  subst. rewrite N.eqb_refl in E. discriminate.
Qed.

Lemma rsplit_at_spec s u d : rsplit_at s = Some (u, d) -> s = u ++ [AT] ++ d /\ ~ In AT d.
Proof.
  revert u d; induction s as [|c r IH]; intros u d H; [discriminate|]. cbn [rsplit_at] in H.
  destruct (rsplit_at r) as [[u' d']|] eqn:E.
  - inversion H; subst. destruct (IH _ _ eq_refl) as [-> Hn]. split; [reflexivity|exact Hn].
  - destruct (c =? AT) eqn:Ec; [|discriminate]. inversion H; subst.
    apply N.eqb_eq in Ec; subst. split; [reflexivity|]. apply rsplit_at_none. exact E.
Qed.

Lemma rsplit_at_no_at d : ~ In AT d -> rsplit_at d = None.
Proof.
  induction d as [|c r IH]; intros H; [reflexivity|]. cbn [rsplit_at].
  rewrite IH by (intros X; apply H; right; exact X).
  destruct (c =? AT) eqn:E; [|reflexivity]. apply N.eqb_eq in E. exfalso; apply H; left; auto.
Qed.

Lemma rsplit_at_join u d : ~ In AT d -> rsplit_at (u ++ [AT] ++ d) = Some (u, d).
Proof.
  intros H. induction u as [|c u IH]; cbn [app rsplit_at].
  - rewrite (rsplit_at_no_at d H). rewrite N.eqb_refl. reflexivity.
  - cbn [app] in IH. rewrite IH. reflexivity.
Qed.

Lemma non_ascii_ge c : is_utf8_non_ascii c = true -> 256 <= c.
Proof.
  intros H. destruct (N.lt_ge_cases c 256) as [Hlt|Hge]; [|exact Hge]. exfalso.
  unfold is_utf8_non_ascii in H. cbv zeta in H.
  assert (E0 : c / 16777216 = 0) by (clear H; apply N.div_small; lia).
  assert (E1 : c / 65536 = 0) by (clear H; apply N.div_small; lia).
  assert (E2 : c / 256 = 0) by (clear H; apply N.div_small; lia).
  rewrite E0, E1, E2 in H. vm_compute in H. discriminate.
Qed.

Section Thms.
Variable alnum : N -> bool.
Variable idna : ustr -> option ustr.
Variable ip_ok : ustr -> bool.

Notation from_str := (addr_from_str alnum idna ip_ok).
Notation new := (addr_new alnum idna ip_ok).
Notation chk_user := (check_user alnum).
Notation chk_domain := (check_domain alnum idna ip_ok).

Theorem from_str_shape s a : from_str s = Ok a ->
  s = a_user a ++ [AT] ++ a_domain a /\ chk_user (a_user a) = true /\
  chk_domain (a_domain a) = true /\ ~ In AT (a_domain a).
Proof.
  unfold addr_from_str. destruct (rsplit_at s) as [[u d]|] eqn:E; [|discriminate].
  destruct (chk_user u) eqn:Eu; cbn [negb]; [|discriminate].
  destruct (chk_domain d) eqn:Ed; cbn [negb]; [|discriminate].
  intros H; inversion H; subst. cbn [a_user a_domain].
  destruct (rsplit_at_spec _ _ _ E) as [-> Hn]. auto.
Qed.

Theorem display_parse s a : from_str s = Ok a -> from_str (a_display a) = Ok a.
Proof.
  intros H. destruct (from_str_shape _ _ H) as (Hs & _). unfold a_display. rewrite <- Hs. exact H.
Qed.

Theorem new_iff_parse u d r : ~ In AT d -> (new u d = r <-> from_str (u ++ [AT] ++ d) = r).
Proof.
  intros Hd. unfold addr_new, addr_from_str. rewrite (rsplit_at_join u d Hd). tauto.
Qed.

(* ---------- safety ---------- *)
Hypothesis H_alnum : forall c, alnum c = true -> is_alnum_ascii c = true \/ 170 <= c.
Hypothesis H_idna_ascii : forall d d' c, idna d = Some d' -> In c d -> c < 128 -> In (to_lower c) d'.
Hypothesis H_idna_c1 : forall d d' c, idna d = Some d' -> In c d -> ~ (128 <= c < 160).
Hypothesis H_ip : forall x c, ip_ok x = true -> In c x ->
  is_digit c = true \/ (65 <= c <= 70) \/ (97 <= c <= 102) \/ c = 58 \/ c = 46.

(* no control character, no space, no angle bracket, no quote/backslash/at/brackets *)
Definition plain (c : N) : Prop :=
  (33 <= c <= 126 /\ c <> 60 /\ c <> 62 /\ c <> 34 /\ c <> 92 /\ c <> 64) \/ 160 <= c.
(* inside a quoted local part: also SP, TAB, and any visible ASCII *)
Definition qsafe (c : N) : Prop := c = 9 \/ 32 <= c <= 126 \/ 160 <= c.

Lemma plain_qsafe c : plain c -> qsafe c.
Proof. unfold plain, qsafe. lia. Qed.



Lemma mem_In x l : mem x l = true -> In x l.
Proof.
  induction l as [|y l IH]; cbn [mem]; [discriminate|]. intros H. apply orb_prop in H.
  destruct H as [H|H]; [left; apply N.eqb_eq in H; auto | right; auto].
Qed.

Lemma atext_plain c : is_atext alnum c = true -> plain c /\ c <> 91 /\ c <> 93 /\ c <> 46.
Proof.
  unfold is_atext. intros H. apply orb_prop in H. destruct H as [H|H].
  - apply orb_prop in H. destruct H as [H|H].
    + destruct (H_alnum c H) as [A|A]; unfold plain.
      * unfold is_alnum_ascii, is_alpha, is_upper, is_lower, is_digit in A. lia.
      * lia.
    + apply mem_In in H. unfold atext_special in H. unfold plain.
      repeat (destruct H as [H|H]; [subst; lia|]). contradiction.
  - apply non_ascii_ge in H. unfold plain. lia.
Qed.

Lemma forallb_rev_iff {A} (f : A -> bool) l : forallb f (rev l) = forallb f l.
Proof.
  induction l as [|x l IH]; [reflexivity|]. cbn [rev forallb]. rewrite forallb_app, IH. cbn. 
  rewrite andb_true_r. apply andb_comm.
Qed.

Lemma is_atom_all s : is_atom alnum s = true -> forallb (is_atext alnum) s = true.
Proof. destruct s; [discriminate|]. auto. Qed.

Lemma split_atoms s : forall cur,
  forallb (is_atom alnum) (split_on 46 s cur) = true ->
  forallb (is_atext alnum) cur = true /\
  forallb (fun c => (c =? 46) || is_atext alnum c) s = true.
Proof.
  induction s as [|c r IH]; intros cur H; cbn [split_on] in H.
  - cbn in H. rewrite andb_true_r in H. apply is_atom_all in H. rewrite forallb_rev_iff in H. auto.
  - destruct (c =? 46) eqn:E.
    + cbn [forallb] in H. apply andb_prop in H. destruct H as [H1 H2].
      apply is_atom_all in H1. rewrite forallb_rev_iff in H1.
      destruct (IH [] H2) as [_ Hr]. split; [exact H1|]. cbn [forallb]. rewrite E. exact Hr.
    + destruct (IH (c :: cur) H) as [Hc Hr]. cbn [forallb] in Hc. apply andb_prop in Hc.
      destruct Hc as [Hc1 Hc2]. split; [exact Hc2|]. cbn [forallb]. rewrite E, Hc1. exact Hr.
Qed.

Lemma dot_atom_plain s c : is_dot_atom_text alnum s = true -> In c s -> plain c /\ c <> 91 /\ c <> 93.
Proof.
  unfold is_dot_atom_text, split_dot. intros H Hin. destruct (split_atoms s [] H) as [_ Hs].
  pose proof (proj1 (forallb_forall _ _) Hs c Hin) as Hc. apply orb_prop in Hc. destruct Hc as [Hc|Hc].
  - apply N.eqb_eq in Hc. subst. unfold plain. lia.
  - destruct (atext_plain c Hc) as (P & A & B & _). auto.
Qed.

Lemma qcontent_qsafe n : forall s, (length s <= n)%nat -> is_qcontent s = true -> forall c, In c s -> qsafe c.
Proof.
  induction n as [|n IH]; intros s Hl H c Hin.
  - destruct s; [contradiction|cbn in Hl; lia].
  - destruct s as [|x r]; [contradiction|]. cbn [is_qcontent] in H.
    destruct (x =? ESC) eqn:E.
    + destruct r as [|y r2]; [discriminate|]. apply andb_prop in H. destruct H as [Hv Hr].
      apply N.eqb_eq in E. subst x. destruct Hin as [<-|[<-|Hin]].
      * unfold qsafe, ESC. lia.
      * unfold is_vchar in Hv. unfold qsafe. lia.
      * apply (IH r2); [cbn in Hl; lia|exact Hr|exact Hin].
    + apply andb_prop in H. destruct H as [Hx Hr]. destruct Hin as [<-|Hin].
      * apply orb_prop in Hx. destruct Hx as [Hx|Hx].
        -- unfold is_wsp in Hx. unfold qsafe. lia.
        -- unfold is_qtext_char in Hx. apply orb_prop in Hx. destruct Hx as [Hx|Hx].
           ++ unfold qsafe. lia.
           ++ apply non_ascii_ge in Hx. unfold qsafe. lia.
      * apply (IH r); [cbn in Hl; lia|exact Hr|exact Hin].
Qed.

(* a string that starts and ends with given characters and has at least two of them *)
Lemma first_last_middle a b s : first_is a s = true -> last_is b s = true -> (2 <= length s)%nat ->
  s = a :: middle s ++ [b].
Proof.
  intros Hf Hl Hn. destruct s as [|x r]; [discriminate|]. cbn in Hf. apply N.eqb_eq in Hf. subst x.
  unfold middle. cbn [tl]. f_equal.
  destruct (@exists_last _ r) as (r' & y & ->); [destruct r; [cbn in Hn; lia|discriminate]|].
  rewrite removelast_last. f_equal. unfold last_is in Hl.
  change (a :: r' ++ [y]) with ((a :: r') ++ [y]) in Hl. rewrite rev_unit in Hl. cbn in Hl.
  apply N.eqb_eq in Hl. subst. reflexivity.
Qed.

Lemma byte_len_ge s : (length s <= byte_len s)%nat.
Proof.
  induction s as [|c s IH]; [cbn; lia|]. cbn [byte_len fold_right length]. fold (byte_len s).
  unfold len_utf8. destruct (c <? 128); [lia|]. destruct (c <? 2048); [lia|]. destruct (c <? 65536); lia.
Qed.

Definition is_quoted (u : ustr) : bool := first_is DQ u && last_is DQ u.

Theorem user_safe u : chk_user u = true ->
  (is_quoted u = false -> forall c, In c u -> plain c) /\ (forall c, In c u -> qsafe c).
Proof.
  unfold check_user, parse_local_part. destruct u as [|x r] eqn:Eu; [discriminate|]. rewrite <- Eu.
  destruct (Nat.ltb 64 (byte_len u)); [discriminate|].
  unfold is_quoted. destruct (first_is DQ u && last_is DQ u) eqn:Q.
  - destruct (Nat.leb (byte_len u) 2) eqn:L; [discriminate|]. intros H. split; [discriminate|].
    apply andb_prop in Q. destruct Q as [Qf Ql].
    assert (Hlen : (2 <= length u)%nat).
    { destruct u as [|a [|b t]]; cbn; try lia; [discriminate|].
      (* single character: byte_len <= 4, but must be > 2: the quote is 1 byte *)
      cbn in Qf. apply N.eqb_eq in Qf. subst a. cbn in L. discriminate. }
    rewrite (first_last_middle DQ DQ u Qf Ql Hlen). intros c [<-|Hin].
    + unfold qsafe, DQ. lia.
    + apply in_app_or in Hin. destruct Hin as [Hin|[<-|[]]].
      * exact (qcontent_qsafe _ _ (le_n _) H c Hin).
      * unfold qsafe, DQ. lia.
  - intros H. assert (P : forall c, In c u -> plain c).
    { intros c Hin. exact (proj1 (dot_atom_plain u c H Hin)). }
    split; [intros _; exact P | intros c Hin; apply plain_qsafe; auto].
Qed.

(* a domain character: visible ASCII or beyond the C1 controls - never a control or a space *)
Definition dsafe (c : N) : Prop := 33 <= c <= 126 \/ 160 <= c.
Lemma plain_dsafe c : plain c -> dsafe c.
Proof. unfold plain, dsafe. lia. Qed.

Lemma label_ok_atom l : label_ok alnum l = true -> is_atom alnum l = true.
Proof.
  unfold label_ok. destruct l; [discriminate|]. intros H.
  apply andb_prop in H. destruct H as [_ H]. exact H.
Qed.

Lemma forallb_impl {A} (f g : A -> bool) l : (forall x, f x = true -> g x = true) ->
  forallb f l = true -> forallb g l = true.
Proof. intros Hfg. induction l; cbn; [auto|]. intros H. apply andb_prop in H. destruct H. rewrite Hfg, IHl; auto. Qed.

(* bracketed literal: dtext inside (this includes the angle brackets, the double quote and the at sign: see finding F25) *)
Lemma parse_domain_dsafe d c : parse_domain alnum d = true -> In c d -> dsafe c.
Proof.
  unfold parse_domain. destruct d as [|x r] eqn:Ed; [discriminate|]. rewrite <- Ed.
  destruct (Nat.ltb 254 (byte_len d)); [discriminate|].
  destruct (first_is LBR d && last_is RBR d) eqn:Q.
  - intros H Hin. apply andb_prop in Q. destruct Q as [Qf Ql].
    assert (Hlen : (2 <= length d)%nat).
    { destruct d as [|a [|b t]]; cbn; try lia; [discriminate|].
      cbn in Qf, Ql. apply N.eqb_eq in Qf, Ql. subst. discriminate. }
    rewrite (first_last_middle LBR RBR d Qf Ql Hlen) in Hin. destruct Hin as [<-|Hin].
    + unfold dsafe, LBR. lia.
    + apply in_app_or in Hin. destruct Hin as [Hin|[<-|[]]]; [|unfold dsafe, RBR; lia].
      pose proof (proj1 (forallb_forall _ _) H c Hin) as Hc. unfold is_dtext_char in Hc.
      apply orb_prop in Hc. destruct Hc as [Hc|Hc].
      * unfold dsafe. lia.
      * apply non_ascii_ge in Hc. unfold dsafe. lia.
  - intros H Hin.
    assert (H' : is_dot_atom_text alnum d = true).
    { unfold is_dot_atom_text. apply (forallb_impl _ _ _ label_ok_atom). exact H. }
    apply plain_dsafe. exact (proj1 (dot_atom_plain d c H' Hin)).
Qed.

(* a domain that is not a bracketed literal: dot-atom characters only *)
Lemma parse_domain_text_plain d c : parse_domain alnum d = true -> first_is LBR d = false ->
  In c d -> plain c.
Proof.
  unfold parse_domain. destruct d as [|x r] eqn:Ed; [discriminate|]. rewrite <- Ed.
  destruct (Nat.ltb 254 (byte_len d)); [discriminate|].
  intros H Hf Hin. rewrite Hf in H. cbn [andb] in H.
  assert (H' : is_dot_atom_text alnum d = true).
  { unfold is_dot_atom_text. apply (forallb_impl _ _ _ label_ok_atom). exact H. }
  exact (proj1 (dot_atom_plain d c H' Hin)).
Qed.

Lemma strip_brackets_in d c : In c d -> In c (strip_brackets d) \/ c = 91 \/ c = 93.
Proof.
  unfold strip_brackets. destruct d as [|x r]; [contradiction|].
  destruct ((x =? LBR) && last_is RBR r) eqn:E; [|auto].
  apply andb_prop in E. destruct E as [E1 E2]. apply N.eqb_eq in E1. subst x.
  intros [<-|Hin]; [right; left; reflexivity|].
  destruct (@exists_last _ r) as (r' & y & ->); [destruct r; [contradiction|discriminate]|].
  rewrite removelast_last. unfold last_is in E2. rewrite rev_unit in E2. cbn in E2. apply N.eqb_eq in E2.
  apply in_app_or in Hin. destruct Hin as [Hin|[<-|[]]]; [left; exact Hin | right; right; subst; reflexivity].
Qed.

Lemma ip_char_plain x c : ip_ok x = true -> In c x -> plain c.
Proof.
  intros H Hin. destruct (H_ip _ c H Hin) as [A|[A|[A|[A|A]]]]; unfold plain; unfold is_digit in *; lia.
Qed.

Lemma domain_ascii_dsafe d c : check_domain_ascii alnum ip_ok d = true -> In c d -> dsafe c.
Proof.
  unfold check_domain_ascii. intros H Hin. apply orb_prop in H. destruct H as [H|H].
  - exact (parse_domain_dsafe d c H Hin).
  - destruct (strip_brackets_in d c Hin) as [Hs | [-> | ->]].
    + apply plain_dsafe. exact (ip_char_plain _ c H Hs).
    + unfold dsafe. lia.
    + unfold dsafe. lia.
Qed.

Lemma domain_ascii_text_plain d c : check_domain_ascii alnum ip_ok d = true ->
  first_is LBR d = false -> In c d -> plain c.
Proof.
  unfold check_domain_ascii. intros H Hf Hin. apply orb_prop in H. destruct H as [H|H].
  - exact (parse_domain_text_plain d c H Hf Hin).
  - assert (Es : strip_brackets d = d).
    { unfold strip_brackets. destruct d as [|x r]; [reflexivity|]. cbn in Hf.
      unfold LBR in *. rewrite Hf. reflexivity. }
    rewrite Es in H. exact (ip_char_plain _ c H Hin).
Qed.

Theorem domain_safe d c : chk_domain d = true -> In c d -> dsafe c.
Proof.
  unfold check_domain. intros H Hin. apply orb_prop in H. destruct H as [H|H].
  - exact (domain_ascii_dsafe d c H Hin).
  - destruct (idna d) as [d'|] eqn:E; [|discriminate].
    destruct (N.lt_ge_cases c 128) as [Hlt|Hge].
    + pose proof (H_idna_ascii d d' c E Hin Hlt) as Hl.
      pose proof (domain_ascii_dsafe d' _ H Hl) as P.
      unfold to_lower, is_upper in P. unfold dsafe in *.
      destruct ((65 <=? c) && (c <=? 90)) eqn:Eu; lia.
    + pose proof (H_idna_c1 d d' c E Hin). unfold dsafe. lia.
Qed.

(* every accepted address string *)
Theorem accepted_safe s a : from_str s = Ok a ->
  (forall c, In c s -> qsafe c) /\
  (forall c, In c (a_domain a) -> dsafe c /\ c <> 64) /\
  (is_quoted (a_user a) = false -> forall c, In c (a_user a) -> plain c) /\
  (check_domain_ascii alnum ip_ok (a_domain a) = true -> first_is LBR (a_domain a) = false ->
   forall c, In c (a_domain a) -> plain c).
Proof.
  intros H. destruct (from_str_shape _ _ H) as (-> & Hu & Hd & Hn).
  destruct (user_safe _ Hu) as [Up Uq].
  split; [|split; [|split]].
  - intros c Hin. apply in_app_or in Hin. destruct Hin as [Hin|[<-|Hin]].
    + exact (Uq c Hin).
    + unfold qsafe, AT. lia.
    + pose proof (domain_safe _ c Hd Hin) as P. unfold dsafe in P. unfold qsafe. lia.
  - intros c Hin. split; [exact (domain_safe _ c Hd Hin)|]. intros ->. exact (Hn Hin).
  - exact Up.
  - intros Ha Hf c Hin. exact (domain_ascii_text_plain _ c Ha Hf Hin).
Qed.

End Thms.

(* ---------- witnesses for the two findings ---------- *)
Lemma user_single_alnum alnum c : alnum c = true -> c <> 34 -> c <> 46 -> c < 128 -> check_user alnum [c] = true.
Proof.
  intros H H1 H2 H3. unfold check_user, parse_local_part. cbn [byte_len fold_right].
  unfold len_utf8. replace (c <? 128) with true by (symmetry; apply N.ltb_lt; exact H3).
  cbn [Nat.ltb Nat.leb Nat.add]. unfold first_is. replace (c =? DQ) with false by (symmetry; apply N.eqb_neq; exact H1).
  cbn [andb]. unfold is_dot_atom_text, split_dot. cbn [split_on].
  replace (c =? 46) with false by (symmetry; apply N.eqb_neq; exact H2).
  cbn [split_on rev app forallb is_atom]. unfold is_atext. rewrite H. reflexivity.
Qed.

Lemma literal_domain_ok alnum idna ip_ok d :
  parse_domain alnum d = true -> check_domain alnum idna ip_ok d = true.
Proof. intros H. unfold check_domain, check_domain_ascii. rewrite H. reflexivity. Qed.

Lemma atext_false alnum c :
  (forall c, alnum c = true -> is_alnum_ascii c = true \/ 170 <= c) ->
  is_alnum_ascii c = false -> c < 170 -> mem c atext_special = false -> is_atext alnum c = false.
Proof.
  intros HA H1 H2 H3. unfold is_atext. rewrite H3.
  destruct (alnum c) eqn:E. { destruct (HA c E) as [X|X]; [congruence | exfalso; clear -X H2; lia]. }
  destruct (is_utf8_non_ascii c) eqn:E2; [|reflexivity]. apply non_ascii_ge in E2. exfalso. clear -E2 H2. lia.
Qed.

Lemma new_vs_parse_witness alnum idna ip_ok :
  (forall c, alnum c = true -> is_alnum_ascii c = true \/ 170 <= c) -> alnum 117 = true ->
  exists u d a, addr_new alnum idna ip_ok u d = Ok a /\
                addr_from_str alnum idna ip_ok (u ++ [AT] ++ d) = Err InvalidUser.
Proof.
  intros HA H. exists [117], [91; 120; 64; 121; 93], (mkAddr [117] [91; 120; 64; 121; 93]).
  assert (U : check_user alnum [117] = true) by (apply user_single_alnum; [exact H|discriminate|discriminate|reflexivity]).
  assert (D : check_domain alnum idna ip_ok [91; 120; 64; 121; 93] = true)
    by (apply literal_domain_ok; vm_compute; reflexivity).
  split.
  - unfold addr_new. rewrite U, D. reflexivity.
  - unfold addr_from_str.
    replace (rsplit_at ([117] ++ [AT] ++ [91; 120; 64; 121; 93])) with (Some ([117; 64; 91; 120], [121; 93])) by reflexivity.
    replace (check_user alnum [117; 64; 91; 120]) with false; [reflexivity|].
    symmetry. unfold check_user, parse_local_part. cbn [byte_len fold_right].
    replace (Nat.ltb 64 _) with false by reflexivity.
    replace (first_is DQ [117; 64; 91; 120] && _) with false by reflexivity.
    unfold is_dot_atom_text, split_dot.
    replace (split_on 46 [117; 64; 91; 120] []) with [[117; 64; 91; 120]] by reflexivity.
    cbn [forallb is_atom]. rewrite andb_true_r.
    rewrite (atext_false alnum 64 HA) by (reflexivity || lia). rewrite andb_false_r. reflexivity.
Qed.

Lemma literal_angle_witness alnum idna ip_ok : alnum 97 = true ->
  exists s a, addr_from_str alnum idna ip_ok s = Ok a /\ In 62 (a_domain a).
Proof.
  intros H. exists [97; 64; 91; 62; 93], (mkAddr [97] [91; 62; 93]).
  assert (U : check_user alnum [97] = true) by (apply user_single_alnum; [exact H|discriminate|discriminate|reflexivity]).
  assert (D : check_domain alnum idna ip_ok [91; 62; 93] = true)
    by (apply literal_domain_ok; vm_compute; reflexivity).
  split; [|cbn; auto]. unfold addr_from_str.
  replace (rsplit_at [97; 64; 91; 62; 93]) with (Some ([97], [91; 62; 93])) by reflexivity.
  rewrite U, D. reflexivity.
Qed.
