(* C12: the value of an unstructured header survives HeaderValue::new for EVERY value: an RFC 2047 / RFC 5322
   reader (Spec/Rfc2047.v decode_unstructured: unfold, cut at white space, decode encoded-words, drop the white
   space between two adjacent encoded-words) gets back exactly the text that was given - words that need
   encoding, blanks between them, look-alikes of encoded-words, CR / LF / controls, any length.
   The only hypothesis is that the text has no four consecutive UTF-8 continuation bytes (true of every Rust
   string; without it rfc2047::encode itself does not terminate, see stuck_panics in HeaderProofs.v). *)
From Coq Require Import Strings.String.
From LV Require Import Base.Bytes Base.Str Base.Utf8 Base.Res Base.Base64 Model.HeaderEnc Spec.Rfc5322 Spec.Rfc2047
  Proofs.HeaderProofs Proofs.HeaderPlainProofs Proofs.Rfc2047Proofs Proofs.Rfc2047DecProofs.
From LV Require Import Proofs.Utf8SplitProofs.
From Coq Require Import Lia Arith PeanoNat ZArith ZifyBool ZifyNat ZifyN.
Local Arguments N.eqb : simpl never.
Local Arguments N.leb : simpl never.
Local Arguments N.ltb : simpl never.
Local Arguments Nat.div : simpl never.
Local Arguments Nat.mul : simpl never.
Local Arguments Nat.sub : simpl never.
Ltac Zify.zify_post_hook ::= Z.div_mod_to_equations.

(* ---------- encoded-words in a row ---------- *)
Definition encw (p : bytes) : bytes := ENC_START ++ b64enc p ++ ENC_END.
Fixpoint joinenc (ps : list bytes) : bytes :=
  match ps with
  | [] => []
  | [p] => encw p
  | p :: r => encw p ++ SP :: joinenc r
  end.
Definition piece_ok (p : bytes) : Prop := p <> [] /\ bytes_ok p = true /\ (length p <= 45)%nat.

Lemma forallb_impl {A} (f g : A -> bool) l : (forall x, f x = true -> g x = true) -> forallb f l = true -> forallb g l = true.
Proof. intros H. induction l as [|x l IH]; cbn; [auto|]. intros E. apply andb_prop in E. destruct E as [E1 E2]. rewrite (H _ E1), (IH E2). reflexivity. Qed.

Lemma wordb_app a b : wordb (a ++ b) = wordb a && wordb b.
Proof. apply forallb_app. Qed.
Lemma b64enc_wordb p : wordb (b64enc p) = true.
Proof.
  unfold wordb. apply (forallb_impl b64text); [|apply b64enc_text]. intros x H. unfold b64text in H. apply andb_prop in H. apply H.
Qed.
Lemma encw_wordb p : wordb (encw p) = true.
Proof. unfold encw. rewrite !wordb_app, b64enc_wordb. reflexivity. Qed.
Lemma encw_ne p : encw p <> [].
Proof. unfold encw. discriminate. Qed.
Lemma encw_dec p : piece_ok p -> decode_word (encw p) = Some p.
Proof. intros (_ & A & B). apply (encoded_word_decodes p A B). Qed.

Lemma D_group ps : forall pe R, ps <> [] -> Forall piece_ok ps -> bnd R = true ->
  D pe (joinenc ps ++ R) = concat ps ++ D true R.
Proof.
  induction ps as [|p ps IH]; intros pe R Hne F HR; [contradiction|].
  inversion F as [|? ? Hp F']; subst. destruct ps as [|q ps'].
  - cbn [joinenc concat]. rewrite D_word; [|apply encw_ne|apply encw_wordb|exact HR]. rewrite (encw_dec p Hp), app_nil_r. reflexivity.
  - change (joinenc (p :: q :: ps')) with (encw p ++ SP :: joinenc (q :: ps')). rewrite <- app_assoc.
    rewrite D_word; [|apply encw_ne|apply encw_wordb|reflexivity]. rewrite (encw_dec p Hp).
    cbn [concat]. rewrite <- app_assoc. f_equal.
    assert (Hq : piece_ok q) by (inversion F'; assumption).
    assert (E : exists rest, joinenc (q :: ps') ++ R = encw q ++ rest /\ bnd rest = true).
    { destruct ps' as [|q2 ps2].
      - exists R. split; [reflexivity|exact HR].
      - exists (SP :: joinenc (q2 :: ps2) ++ R). split; [|reflexivity].
        change (joinenc (q :: q2 :: ps2)) with (encw q ++ SP :: joinenc (q2 :: ps2)). rewrite <- app_assoc. reflexivity. }
    destruct E as (rest & E & Hb).
    change ((SP :: joinenc (q :: ps')) ++ R) with ([SP] ++ joinenc (q :: ps') ++ R). rewrite E.
    rewrite D_ws_word; [|discriminate|reflexivity|apply encw_ne|apply encw_wordb|exact Hb].
    unfold is_enc. rewrite (encw_dec q Hq). cbn [andb]. rewrite <- E. apply IH; [discriminate|exact F'|exact HR].
Qed.

(* ---------- base64 length, from below ---------- *)
Lemma b64enc_length_ge_n n : forall w, (length w <= n)%nat -> (4 * ((length w + 2) / 3) <= length (b64enc w))%nat.
Proof.
  induction n as [|n IH]; intros w Hl.
  - destruct w; [cbn; lia|cbn in Hl; lia].
  - destruct w as [|a [|b [|c r]]]; [cbn; lia|cbn; lia|cbn; lia|].
    cbn [b64enc length]. specialize (IH r). cbn in Hl.
    assert (length r <= n)%nat by lia. specialize (IH H).
    replace (S (S (S (length r))) + 2)%nat with (length r + 2 + 1 * 3)%nat by lia.
    rewrite Nat.div_add by lia. lia.
Qed.
Lemma b64enc_length_ge w : (4 * ((length w + 2) / 3) <= length (b64enc w))%nat.
Proof. apply (b64enc_length_ge_n (length w)). lia. Qed.
Lemma b64enc_ne w : w <> [] -> b64enc w <> [].
Proof. destruct w as [|a [|b [|c r]]]; [contradiction|discriminate|discriminate|discriminate]. Qed.

(* ---------- character boundaries ---------- *)
Fixpoint nc4 (s : bytes) : bool :=
  match s with
  | a :: r => negb (is_cont a && match r with b :: c :: d :: _ => is_cont b && is_cont c && is_cont d | _ => false end) && nc4 r
  | [] => true
  end.

Lemma nc4_skipn k : forall s, nc4 s = true -> nc4 (skipn k s) = true.
Proof.
  induction k as [|k IH]; intros s H; [exact H|]. destruct s as [|a r]; [reflexivity|]. cbn [skipn]. apply IH.
  cbn [nc4] in H. apply andb_prop in H. apply H.
Qed.
Lemma nc4_app_r a b : nc4 (a ++ b) = true -> nc4 b = true.
Proof. intros H. pose proof (nc4_skipn (length a) _ H) as K. rewrite skipn_app, skipn_all, Nat.sub_diag in K. exact K. Qed.
Lemma nc4_app_l a : forall b, nc4 (a ++ b) = true -> nc4 a = true.
Proof.
  induction a as [|x a IH]; intros b H; [reflexivity|]. cbn [app nc4] in *. apply andb_prop in H. destruct H as [H1 H2].
  apply andb_true_intro. split; [|apply (IH b H2)].
  destruct a as [|y [|z [|u a']]]; cbn [app] in *; try (rewrite ?andb_false_r; reflexivity). exact H1.
Qed.

Lemma skipn_add {A} j : forall k (l : list A), skipn j (skipn k l) = skipn (j + k) l.
Proof.
  intros k. induction k as [|k IH]; intros l; [rewrite Nat.add_0_r; reflexivity|].
  destruct l as [|x l]; [rewrite !skipn_nil; reflexivity|]. rewrite Nat.add_succ_r. cbn [skipn]. apply IH.
Qed.

Lemma is_boundary_len s : is_boundary s (length s) = true.
Proof. unfold is_boundary. rewrite skipn_all. apply Nat.eqb_refl. Qed.

Lemma trunc_go_prefix s : forall m, exists k, (k <= m)%nat /\ trunc_go s m = firstn k s.
Proof.
  induction m as [|m IH]; [exists 0%nat; split; [lia|reflexivity]|]. cbn [trunc_go].
  destruct (is_boundary s (S m)); [exists (S m); split; [lia|reflexivity]|]. destruct IH as (k & A & B). exists k. split; [lia|exact B].
Qed.
Lemma trunc_go_max s k : forall m, (m <= length s)%nat -> (k <= m)%nat -> is_boundary s k = true -> (k <= length (trunc_go s m))%nat.
Proof.
  induction m as [|m IH]; intros Hm Hk Hb; [lia|]. cbn [trunc_go]. destruct (is_boundary s (S m)) eqn:E.
  - rewrite firstn_length. lia.
  - assert (k <> S m) by (intros ->; congruence). apply IH; [lia|lia|exact Hb].
Qed.
Lemma trunc_go_all s : trunc_go s (length s) = s.
Proof.
  destruct (length s) as [|n] eqn:E; [destruct s; [reflexivity|discriminate]|]. cbn [trunc_go]. rewrite <- E, is_boundary_len. apply firstn_all.
Qed.

Lemma exists_boundary s m : nc4 s = true -> (4 <= m)%nat -> (m <= length s)%nat ->
  exists k, (m - 3 <= k)%nat /\ (k <= m)%nat /\ is_boundary s k = true.
Proof.
  intros Hn H4 Hm. destruct (Nat.eq_dec m (length s)) as [->|Hne].
  - exists (length s). split; [lia|]. split; [lia|apply is_boundary_len].
  - pose proof (nc4_skipn (m - 3) s Hn) as K.
    assert (L : length (skipn (m - 3) s) = (length s - (m - 3))%nat) by apply skipn_length.
    destruct (skipn (m - 3) s) as [|a [|b [|c [|d t]]]] eqn:E; cbn [length] in L; try lia.
    cbn [nc4] in K. apply andb_prop in K. destruct K as [K _]. apply negb_true_iff in K.
    assert (B : forall j x t', skipn j (a :: b :: c :: d :: t) = x :: t' -> is_cont x = false -> is_boundary s (j + (m - 3)) = true).
    { intros j x t' Ej Hx. unfold is_boundary. rewrite <- skipn_add, E, Ej. rewrite Hx. reflexivity. }
    destruct (is_cont a) eqn:Ea.
    + destruct (is_cont b) eqn:Eb.
      * destruct (is_cont c) eqn:Ec.
        -- destruct (is_cont d) eqn:Ed; [discriminate|]. exists (3 + (m - 3))%nat. split; [lia|]. split; [lia|]. apply (B 3%nat d t); [reflexivity|exact Ed].
        -- exists (2 + (m - 3))%nat. split; [lia|]. split; [lia|]. apply (B 2%nat c (d :: t)); [reflexivity|exact Ec].
      * exists (1 + (m - 3))%nat. split; [lia|]. split; [lia|]. apply (B 1%nat b (c :: d :: t)); [reflexivity|exact Eb].
    + exists (0 + (m - 3))%nat. split; [lia|]. split; [lia|]. apply (B 0%nat a (b :: c :: d :: t)); [reflexivity|exact Ea].
Qed.

(* the piece cut for a line: m = min(unenc, |s|) *)
Lemma cut_facts s m : nc4 s = true -> (m <= length s)%nat ->
  (m = length s -> trunc_go s m = s) /\ (m <= length (trunc_go s m) + 3)%nat.
Proof.
  intros Hn Hm. split; [intros ->; apply trunc_go_all|].
  destruct (le_lt_dec 4 m) as [H4|H4]; [|lia].
  destruct (exists_boundary s m Hn H4 Hm) as (k & A & B & C). pose proof (trunc_go_max s k m Hm B C). lia.
Qed.

(* ---------- rfc2047::encode: what a reader sees ---------- *)
Lemma wordb_mem_sp l : wordb l = true -> mem SP l = false.
Proof.
  induction l as [|b l IH]; [reflexivity|]. cbn. intros H. apply andb_prop in H. destruct H as [Hb Hl].
  rewrite (IH Hl), orb_false_r. apply negb_true_iff in Hb. unfold is_wsp in Hb. apply orb_false_iff in Hb. destruct Hb as [Hb _].
  rewrite N.eqb_sym. exact Hb.
Qed.
Lemma all_p_nocr l : all_p l = true -> nocr l = true.
Proof.
  unfold all_p, nocr. apply forallb_impl. intros x H. apply negb_true_iff. apply pbyte_not_cr. exact H.
Qed.
Lemma nocr_encw p : nocr (encw p) = true.
Proof. unfold encw. rewrite !nocr_app. rewrite (all_p_nocr _ (b64enc_p p)). reflexivity. Qed.

Lemma bytes_ok_app a b : bytes_ok (a ++ b) = bytes_ok a && bytes_ok b.
Proof. apply forallb_app. Qed.

Definition req (s : bytes) (st : wst) : nat := (2 * length s + 1 + (if Nat.eqb (line_len st) 0 then 0 else 1))%nat.
Definition pre_of (wrote : bool) (st : wst) : bytes := if wrote && Nat.eqb (spaces st) 0 then [SP] else sp_run (spaces st).
Definition go_pre (wrote : bool) (st : wst) : Prop :=
  wrote = false \/ (line_len st = 0%nat /\ (1 <= spaces st)%nat) \/ (spaces st = 0%nat /\ (59 <= line_len st)%nat).
Definition go_post (s : bytes) (wrote : bool) (st : wst) (r : res unit (wst * bytes)) : Prop :=
  exists ps st' o, r = Ok (st', o) /\ spaces st' = 0%nat /\ ps <> [] /\ Forall piece_ok ps /\ concat ps = s /\
    reads_as o (pre_of wrote st ++ joinenc ps) /\
    (line_len st = 0%nat -> (1 <= spaces st)%nat -> exists o', o = SP :: o') /\
    (utf8_valid s = true -> Forall (fun p => utf8_valid p = true) ps).

Lemma word_of_fresh s st : nc4 s = true -> s <> [] -> line_len st = 0%nat -> word_of s st <> [].
Proof.
  intros Hn Hs Hl. unfold word_of. rewrite Hl. change ((MAX_LINE_LEN - (10 + 2 + 0 + 2)) / 4 * 3)%nat with 45%nat.
  set (m := length (firstn 45 s)). assert (Hm : (m <= length s)%nat) by (unfold m; rewrite firstn_length; lia).
  destruct (cut_facts s m Hn Hm) as [A B]. intros E. rewrite E in *. cbn [length] in B.
  destruct (Nat.eq_dec m (length s)) as [Em|Em]; [apply Hs; symmetry; apply A; exact Em|].
  unfold m in *. rewrite firstn_length in *. destruct s; [contradiction|]. cbn [length] in *. lia.
Qed.

Lemma word_of_full s st : (59 <= line_len st)%nat -> word_of s st = [].
Proof.
  intros H. unfold word_of. replace ((MAX_LINE_LEN - (10 + 2 + line_len st + 2)) / 4 * 3)%nat with 0%nat; [reflexivity|].
  unfold MAX_LINE_LEN. lia.
Qed.

Lemma rfc2047_go_sem fuel : forall s wrote st, s <> [] -> nc4 s = true -> bytes_ok s = true -> (req s st <= fuel)%nat ->
  go_pre wrote st -> go_post s wrote st (rfc2047_go fuel s wrote st).
Proof.
  induction fuel as [|f IH]; intros s wrote st Hs Hn Hb Hreq Hpre; [unfold req in Hreq; lia|].
  cbn [rfc2047_go]. destruct s as [|b0 r]; [contradiction|]. fold (word_of (b0 :: r) st).
  set (s := b0 :: r) in *.
  (* writing one piece p (a prefix of s) and going on *)
  assert (GW : forall p, p <> [] -> (length p <= 45)%nat -> s = p ++ skipn (length p) s ->
    pre_of wrote st = sp_run (spaces st) ->
    (skipn (length p) s <> [] -> (59 <= line_len st + 12 + length (b64enc p))%nat) ->
    (utf8_valid s = true -> utf8_valid p = true /\ utf8_valid (skipn (length p) s) = true) ->
    go_post s wrote st
    (let '(st1, o1) := w_write_str ENC_START st in
     let '(st2, o2) := w_write_str (b64enc p) st1 in
     let '(st3, o3) := w_write_str ENC_END st2 in
     match rfc2047_go f (skipn (length p) s) true st3 with
     | Ok (st4, o4) => Ok (st4, o1 ++ o2 ++ o3 ++ o4)
     | Err e => Err e | Panic => Panic
     end)).
  { intros p Hp Hl45 Es Hpr H59 HV.
    rewrite (w_write_str_word ENC_START st) by (try discriminate; reflexivity).
    rewrite (w_write_str_word (b64enc p)) by (try apply b64enc_ne; try apply wordb_mem_sp; try apply b64enc_wordb; exact Hp).
    rewrite (w_write_str_word ENC_END) by (try discriminate; reflexivity). cbn [line_len spaces sp_run repeat app].
    set (st3 := mkW _ 0 true).
    assert (Hbp : bytes_ok p = true /\ bytes_ok (skipn (length p) s) = true).
    { rewrite Es in Hb. rewrite bytes_ok_app in Hb. apply andb_prop in Hb. exact Hb. }
    assert (Hpo : piece_ok p) by (split; [exact Hp|split; [apply Hbp|exact Hl45]]).
    assert (Hfirst : line_len st = 0%nat -> (1 <= spaces st)%nat -> forall x, exists o', sp_run (spaces st) ++ x = SP :: o').
    { intros _ H1 x. destruct (spaces st) as [|k]; [lia|]. exists (sp_run k ++ x). reflexivity. }
    destruct (skipn (length p) s) as [|c rest] eqn:Er.
    - (* the piece was the rest of the text *)
      destruct f as [|f']; [unfold req, s in Hreq; cbn [length] in Hreq; lia|]. cbn [rfc2047_go].
      exists [p], st3, (((sp_run (spaces st) ++ ENC_START) ++ b64enc p ++ ENC_END ++ [])). split; [reflexivity|].
      split; [reflexivity|]. split; [discriminate|]. split; [constructor; [exact Hpo|constructor]|].
      split; [cbn [concat]; symmetry; exact Es|]. split.
      + rewrite Hpr. cbn [joinenc]. rewrite app_nil_r. rewrite <- app_assoc. apply reads_as_nocr.
        rewrite nocr_app, nocr_sp_run. apply (nocr_encw p).
      + split; [intros A B; rewrite <- app_assoc; apply Hfirst; assumption|].
        intros U. constructor; [apply (HV U)|constructor].
    - assert (Hlen : (length p + length (c :: rest) = length s)%nat) by (rewrite Es; rewrite app_length; reflexivity).
      assert (Hp1 : (1 <= length p)%nat) by (destruct p; [contradiction|cbn; lia]).
      assert (IHr : go_post (c :: rest) true st3 (rfc2047_go f (c :: rest) true st3)).
      { apply IH; [discriminate| |apply Hbp| |].
        - rewrite <- Er. apply nc4_skipn. exact Hn.
        - unfold req in *. destruct (Nat.eqb (line_len st3) 0); destruct (Nat.eqb (line_len st) 0); lia.
        - right. right. split; [reflexivity|]. unfold st3. cbn [line_len]. specialize (H59 ltac:(discriminate)).
          change (length ENC_START) with 10%nat. change (length ENC_END) with 2%nat. lia. }
      destruct IHr as (ps & st' & o4 & E4 & Hsp & Hne & HF & Hc & HR & _ & HU). rewrite E4.
      exists (p :: ps), st', ((sp_run (spaces st) ++ ENC_START) ++ b64enc p ++ ENC_END ++ o4). split; [reflexivity|].
      split; [exact Hsp|]. split; [discriminate|]. split; [constructor; assumption|].
      split; [cbn [concat]; rewrite Hc; symmetry; exact Es|]. split.
      + rewrite Hpr. destruct ps as [|q ps']; [contradiction|].
        change (joinenc (p :: q :: ps')) with (encw p ++ [SP] ++ joinenc (q :: ps')).
        replace ((sp_run (spaces st) ++ ENC_START) ++ b64enc p ++ ENC_END ++ o4) with ((sp_run (spaces st) ++ encw p) ++ o4)
          by (unfold encw; rewrite <- !app_assoc; reflexivity).
        rewrite app_assoc. apply reads_as_app.
        * apply reads_as_nocr. rewrite nocr_app, nocr_sp_run. apply (nocr_encw p).
        * exact HR.
      + split; [intros A B; rewrite <- app_assoc; apply Hfirst; assumption|].
        intros U. destruct (HV U) as [U1 U2]. constructor; [exact U1|]. apply HU. exact U2. }
  destruct (word_of s st) as [|w0 wr] eqn:EW.
  - destruct (wrote || Nat.leb 1 (spaces st)) eqn:EC.
    + (* break the line *)
      assert (Hl0 : line_len st <> 0%nat).
      { intros E0. apply (word_of_fresh s st Hn Hs E0). exact EW. }
      unfold w_new_line. cbn [spaces].
      destruct (Nat.leb 1 (spaces st)) eqn:E1.
      * apply Nat.leb_le in E1.
        assert (Hw : wrote = false). { destruct Hpre as [A|[[A _]|[A _]]]; [exact A|contradiction|lia]. }
        subst wrote.
        assert (IHr : go_post s false (mkW 0 (spaces st) false) (rfc2047_go f s false (mkW 0 (spaces st) false))).
        { apply IH; [exact Hs|exact Hn|exact Hb| |left; reflexivity]. unfold req in *. cbn [line_len Nat.eqb].
          destruct (Nat.eqb (line_len st) 0) eqn:E0; [apply Nat.eqb_eq in E0; contradiction|lia]. }
        destruct IHr as (ps & st' & o3 & E3 & Hsp & Hne & HF & Hc & HR & Hfst & HU). rewrite E3.
        exists ps, st', (CRLF ++ o3). split; [reflexivity|]. split; [exact Hsp|]. split; [exact Hne|]. split; [exact HF|]. split; [exact Hc|].
        split; [|split; [intros A; contradiction|exact HU]].
        destruct (Hfst eq_refl E1) as (o' & ->). unfold pre_of in *. cbn [andb spaces] in *.
        intros Y. cbn [CRLF app]. rewrite unfold_fold. apply (HR Y).
      * apply Nat.leb_gt in E1. assert (Hw : wrote = true) by (destruct wrote; [reflexivity|cbn in EC; discriminate]).
        subst wrote. assert (E0 : spaces st = 0%nat) by lia.
        assert (IHr : go_post s true (w_space (mkW 0 (spaces st) false)) (rfc2047_go f s true (w_space (mkW 0 (spaces st) false)))).
        { apply IH; [exact Hs|exact Hn|exact Hb| |right; left; cbn; split; [reflexivity|lia]]. unfold req in *. cbn [line_len w_space Nat.eqb].
          destruct (Nat.eqb (line_len st) 0) eqn:E00; [apply Nat.eqb_eq in E00; contradiction|lia]. }
        destruct IHr as (ps & st' & o3 & E3 & Hsp & Hne & HF & Hc & HR & Hfst & HU). rewrite E3.
        exists ps, st', (CRLF ++ o3). split; [reflexivity|]. split; [exact Hsp|]. split; [exact Hne|]. split; [exact HF|]. split; [exact Hc|].
        split; [|split; [intros A; contradiction|exact HU]].
        destruct (Hfst eq_refl ltac:(cbn; lia)) as (o' & ->). unfold pre_of in *. cbn [andb spaces w_space] in *. rewrite E0 in *. cbn [Nat.eqb sp_run repeat] in *.
        intros Y. cbn [CRLF app]. rewrite unfold_fold. apply (HR Y).
    + (* no room, nothing pending: one character is written all the same *)
      apply orb_false_iff in EC. destruct EC as [Hw E1]. subst wrote. apply Nat.leb_gt in E1.
      assert (Hp : firstn (first_char_len b0) s <> []).
      { unfold s, first_char_len. destruct (b0 <? 128); [discriminate|]. destruct (b0 <? 224); [discriminate|]. destruct (b0 <? 240); discriminate. }
      assert (Hl4 : (length (firstn (first_char_len b0) s) <= 4)%nat).
      { rewrite firstn_length. unfold first_char_len. destruct (b0 <? 128); [lia|]. destruct (b0 <? 224); [lia|]. destruct (b0 <? 240); lia. }
      apply GW; [exact Hp|lia| | | |intros U; apply first_char_valid; exact U].
      * rewrite firstn_length. rewrite <- (firstn_skipn (Nat.min (first_char_len b0) (length s)) s) at 1. f_equal.
        destruct (Nat.min_spec (first_char_len b0) (length s)) as [[_ ->]|[A ->]]; [reflexivity|]. rewrite firstn_all. symmetry. apply firstn_all2. exact A.
      * unfold pre_of. reflexivity.
      * intros Hrest.
        (* the line is nearly full: otherwise a piece would have been cut *)
        assert (L55 : (55 <= line_len st)%nat).
        { unfold word_of in EW. set (u := ((MAX_LINE_LEN - (10 + 2 + line_len st + 2)) / 4 * 3)%nat) in *.
          set (m := length (firstn u s)) in *. assert (Hm : (m <= length s)%nat) by (unfold m; rewrite firstn_length; lia).
          destruct (cut_facts s m Hn Hm) as [A B]. rewrite EW in *. cbn [length] in B.
          assert (m <> length s). { intros Em. specialize (A Em). discriminate. }
          assert (m = u). { unfold m in *. rewrite firstn_length in *. lia. }
          unfold u, MAX_LINE_LEN in *. lia. }
        pose proof (b64enc_length_ge (firstn (first_char_len b0) s)) as G.
        assert ((1 <= length (firstn (first_char_len b0) s))%nat) by (destruct (firstn (first_char_len b0) s); [contradiction|cbn; lia]).
        lia.
  - (* a piece fits *)
    assert (Hnf : ~ (59 <= line_len st)%nat). { intros H. rewrite (word_of_full s st H) in EW. discriminate. }
    unfold word_of in EW. set (u := ((MAX_LINE_LEN - (10 + 2 + line_len st + 2)) / 4 * 3)%nat) in *.
    set (m := length (firstn u s)) in *. assert (Hm : (m <= length s)%nat) by (unfold m; rewrite firstn_length; lia).
    assert (Hmu : m = Nat.min u (length s)) by (unfold m; apply firstn_length).
    destruct (cut_facts s m Hn Hm) as [A B]. destruct (trunc_go_prefix s m) as (k & Hk & Ek).
    pose proof (trunc_go_length s m) as Lm. rewrite EW in *.
    assert (Hu45 : (u <= 45)%nat) by (unfold u, MAX_LINE_LEN; lia).
    apply GW; [discriminate|lia| | | |intros U; pose proof (trunc_piece_valid s m U) as T; rewrite EW in T; exact T].
    + rewrite Ek at 1. rewrite Ek. rewrite firstn_length. rewrite Nat.min_l by lia. symmetry. apply firstn_skipn.
    + unfold pre_of. destruct Hpre as [->|[[_ P]|[_ P]]]; [reflexivity| |contradiction].
      destruct (spaces st); [lia|]. rewrite andb_false_r. reflexivity.
    + intros Hrest.
      assert (m <> length s). { intros Em. specialize (A Em). rewrite A in Hrest. rewrite skipn_all in Hrest. contradiction. }
      assert (m = u) by lia.
      pose proof (b64enc_length_ge (w0 :: wr)) as G. cbn [length] in *. unfold u, MAX_LINE_LEN in *. lia.
Qed.

(* ---------- flushing the buffer of text to encode ---------- *)
Lemma trim_rev_spec r : exists k, r = sp_run k ++ trim_end_sp_rev r /\ (forall r', r = SP :: r' -> (1 <= k)%nat).
Proof.
  induction r as [|b r IH]; [exists 0%nat; split; [reflexivity|intros r' E; discriminate]|]. cbn [trim_end_sp_rev].
  destruct (b =? SP) eqn:E.
  - apply N.eqb_eq in E. subst b. destruct IH as (k & A & _). exists (S k). split; [cbn [sp_run repeat app]; f_equal; exact A|intros; lia].
  - exists 0%nat. split; [reflexivity|]. intros r' Er. inversion Er; subst. rewrite N.eqb_refl in E. discriminate.
Qed.
Lemma rev_sp_run k : rev (sp_run k) = sp_run k.
Proof.
  induction k as [|k IH]; [reflexivity|]. change (sp_run (S k)) with (SP :: sp_run k) at 1. cbn [rev]. rewrite IH. symmetry. apply sp_run_snoc.
Qed.
Lemma trim_end_spec br : exists k, rev br = trim_end_sp (rev br) ++ sp_run k /\ (forall br', br = SP :: br' -> (1 <= k)%nat).
Proof.
  unfold trim_end_sp. rewrite !frev_rev, rev_involutive. destruct (trim_rev_spec br) as (k & A & B). exists k. split; [|exact B].
  rewrite A at 1. rewrite rev_app_distr, rev_sp_run. reflexivity.
Qed.

Definition nonsp (b : N) : bool := negb (b =? SP).
Lemma existsb_rev {A} (f : A -> bool) l : existsb f (rev l) = existsb f l.
Proof.
  induction l as [|x l IH]; [reflexivity|]. cbn [rev]. rewrite existsb_app, IH. cbn. rewrite orb_false_r. apply orb_comm.
Qed.
Lemma existsb_sp_run k : existsb nonsp (sp_run k) = false.
Proof. induction k; [reflexivity|]. cbn. exact IHk. Qed.

Lemma flush_sem br st : br <> [] -> existsb nonsp br = true -> nc4 (rev br) = true -> bytes_ok (rev br) = true ->
  exists ps k st1 o1, flush_encode_buf br st = Ok (st1, o1) /\ spaces st1 = k /\
    reads_as o1 (sp_run (spaces st) ++ joinenc ps) /\ ps <> [] /\ Forall piece_ok ps /\ concat ps ++ sp_run k = rev br /\
    (forall br', br = SP :: br' -> (1 <= k)%nat).
Proof.
  intros Hne Hex Hn Hb. unfold flush_encode_buf. destruct br as [|b0 br0]; [contradiction|]. set (br := b0 :: br0) in *.
  rewrite frev_rev. destruct (trim_end_spec br) as (k & A & B). set (prefix := trim_end_sp (rev br)) in *.
  assert (Hp : prefix <> []).
  { intros E. rewrite E in A. cbn [app] in A. rewrite <- existsb_rev, A, existsb_sp_run in Hex. discriminate. }
  assert (Hk : (length (rev br) - length prefix = k)%nat).
  { rewrite A at 1. rewrite app_length. unfold sp_run. rewrite repeat_length. lia. }
  rewrite A in Hn, Hb. rewrite bytes_ok_app in Hb. apply andb_prop in Hb.
  pose proof (rfc2047_go_sem (2 * length prefix + 2) prefix false st Hp (nc4_app_l _ _ Hn) (proj1 Hb)) as G.
  unfold rfc2047_encode.
  destruct G as (ps & st' & o & E & Hsp & Hpn & HF & Hc & HR & _); [unfold req; destruct (Nat.eqb (line_len st) 0); lia|left; reflexivity|].
  rewrite E. exists ps, k, (add_spaces (length (rev br) - length prefix) st'), o. split; [reflexivity|].
  split; [cbn [add_spaces spaces]; lia|]. split; [exact HR|]. split; [exact Hpn|]. split; [exact HF|]. split; [rewrite Hc; symmetry; exact A|exact B].
Qed.

(* ---------- the words of split_inclusive(' ') ---------- *)
Inductive wfw : list bytes -> Prop :=
| wfw_nil : wfw []
| wfw_last t : t <> [] -> mem SP t = false -> wfw [t]
| wfw_cons t r : mem SP t = false -> wfw r -> wfw ((t ++ [SP]) :: r).

Lemma mem_sp_rev l : mem SP l = false -> mem SP (rev l) = false.
Proof.
  intros H. destruct (mem SP (rev l)) eqn:E; [|reflexivity]. exfalso.
  assert (G : forall l0, mem SP l0 = true -> In SP l0).
  { induction l0 as [|x l0 IHl]; cbn; [discriminate|]. intros Hm. apply orb_prop in Hm. destruct Hm as [Hm|Hm]; [left; symmetry; apply N.eqb_eq; exact Hm|right; apply IHl; exact Hm]. }
  apply G in E. apply in_rev in E. clear -E H. induction l as [|x l IHl]; [contradiction|]. cbn in H. apply orb_false_iff in H. destruct H as [A B].
  destruct E as [Hx|E]; [subst x; vm_compute in A; discriminate|apply IHl; assumption].
Qed.

Lemma split_incl_wfw s : forall cur, mem SP cur = false -> wfw (split_incl_go s cur).
Proof.
  induction s as [|b s IH]; intros cur Hc; cbn [split_incl_go].
  - destruct cur as [|c cur]; [constructor|]. rewrite frev_rev. apply wfw_last; [|apply mem_sp_rev; exact Hc].
    intros E. apply (f_equal (@length N)) in E. rewrite rev_length in E. discriminate.
  - destruct (b =? SP) eqn:Eb.
    + apply N.eqb_eq in Eb. subst b. rewrite frev_rev. cbn [rev]. apply wfw_cons; [apply mem_sp_rev; exact Hc|apply IH; reflexivity].
    + apply IH. cbn [mem]. rewrite N.eqb_sym, Eb. exact Hc.
Qed.

(* facts about one word *)
Lemma ew_tokens_go_sp t : forall cur, ew_tokens_go (t ++ [SP]) cur = ew_tokens_go t cur.
Proof.
  induction t as [|b t IH]; intros cur.
  - cbn. rewrite N.eqb_refl. apply orb_false_r.
  - cbn [app ew_tokens_go]. destruct ((b =? SP) || (b =? TAB)); rewrite IH; reflexivity.
Qed.
Lemma allowed_str_sp t : allowed_str (t ++ [SP]) = allowed_str t.
Proof.
  unfold allowed_str, contains_eq_q. rewrite ew_tokens_go_sp, forallb_app. cbn. rewrite !andb_true_r. reflexivity.
Qed.
Lemma wsrun_sp t : wsrun (t ++ [SP]) = wsrun t.
Proof. rewrite wsrun_app. cbn. rewrite andb_true_r. reflexivity. Qed.
Lemma blank_is_wsrun w : forallb (fun c => (c =? SP) || (c =? TAB)) w = wsrun w.
Proof. reflexivity. Qed.
Lemma nosp_nonempty_nonsp t : t <> [] -> mem SP t = false -> existsb nonsp t = true.
Proof.
  destruct t as [|b t]; [contradiction|]. intros _ H. cbn in *. apply orb_false_iff in H. destruct H as [H _].
  unfold nonsp. rewrite N.eqb_sym, H. reflexivity.
Qed.

(* ---------- the value encoder, word by word ---------- *)
Definition buf_inv (br : bytes) (words : list bytes) : Prop :=
  br = [] \/ (existsb nonsp br = true /\ (words <> [] -> exists br', br = SP :: br')).

Lemma bnd_sp_run_app k x : (1 <= k)%nat -> bnd (sp_run k ++ x) = true.
Proof. destruct k; [lia|reflexivity]. Qed.
Lemma wsrun_sp_run k : wsrun (sp_run k) = true.
Proof. induction k; [reflexivity|exact IHk]. Qed.

Lemma hv_format_sem words : forall br st, wfw words -> nc4 (rev br ++ concat words) = true ->
  bytes_ok (rev br ++ concat words) = true -> buf_inv br words ->
  exists st' o e T, hv_format words br st = Ok (st', o) /\ reads_as o e /\
    e ++ sp_run (spaces st') = sp_run (spaces st) ++ T /\ D false T = rev br ++ concat words /\
    (words = [] -> br = [] -> T = []).
Proof.
  induction words as [|w r IH]; intros br st Hw Hn Hb Hinv.
  - cbn [hv_format concat] in *. rewrite app_nil_r in *. destruct Hinv as [->|[Hex _]].
    + exists st, [], [], []. cbn [flush_encode_buf rev app]. split; [reflexivity|]. split; [apply reads_as_nil|]. split; [rewrite app_nil_r; reflexivity|]. split; [reflexivity|auto].
    + assert (Hne : br <> []) by (intros ->; discriminate).
      destruct (flush_sem br st Hne Hex Hn Hb) as (ps & k & st1 & o1 & E & Hk & HR & Hpn & HF & Hc & _).
      exists st1, o1, (sp_run (spaces st) ++ joinenc ps), (joinenc ps ++ sp_run k). split; [exact E|]. split; [exact HR|].
      split; [rewrite Hk, <- app_assoc; reflexivity|]. split; [|intros _ Eb; contradiction].
      rewrite D_group; [|exact Hpn|exact HF|destruct k; reflexivity]. rewrite D_ws_only by apply wsrun_sp_run. exact Hc.
  - cbn [hv_format].
    (* the word: t, or t followed by the space that ended it *)
    assert (Hshape : exists t R0, w = t ++ R0 /\ mem SP t = false /\ ((R0 = [SP] /\ wfw r) \/ (R0 = [] /\ r = [] /\ t <> []))).
    { inversion Hw as [|t Ht Hm|t r' Hm Hr]; subst.
      - exists w, []. rewrite app_nil_r. split; [reflexivity|]. split; [exact Hm|]. right. auto.
      - exists t, [SP]. split; [reflexivity|]. split; [exact Hm|]. left. auto. }
    destruct Hshape as (t & R0 & Ew & Hm & Hcase).
    assert (Hr : wfw r) by (destruct Hcase as [[_ A]|[_ [-> _]]]; [exact A|constructor]).
    assert (Hal : allowed_str w = allowed_str t) by (destruct Hcase as [[-> _]|[-> _]]; subst w; [apply allowed_str_sp|rewrite app_nil_r; reflexivity]).
    assert (Hbl : wsrun w = wsrun t) by (destruct Hcase as [[-> _]|[-> _]]; subst w; [apply wsrun_sp|rewrite app_nil_r; reflexivity]).
    rewrite blank_is_wsrun.
    destruct (allowed_str w && negb (negb match br with [] => true | _ :: _ => false end && wsrun w)) eqn:Cond.
    + (* written as it is, after the buffer has been flushed *)
      apply andb_prop in Cond. destruct Cond as [Ca Cb]. rewrite Hal in Ca. unfold allowed_str in Ca. apply andb_prop in Ca. destruct Ca as [Cchars Cq].
      apply negb_true_iff in Cq.
      assert (Hnw : nocr w = true).
      { apply allowed_nocr. destruct Hcase as [[-> _]|[-> _]]; subst w; [rewrite forallb_app, Cchars; reflexivity|rewrite app_nil_r; exact Cchars]. }
      cbn [concat] in Hn, Hb.
      assert (Hn2 : nc4 (rev [] ++ concat r) = true) by (cbn; rewrite app_assoc in Hn; apply (nc4_app_r _ _ Hn)).
      assert (Hb2 : bytes_ok (rev [] ++ concat r) = true) by (cbn; rewrite app_assoc, bytes_ok_app in Hb; apply andb_prop in Hb; apply Hb).
      assert (Plain : forall T3, (r = [] -> T3 = []) -> D false T3 = concat r -> D false (w ++ T3) = w ++ concat r).
      { intros T3 HT3 HD. subst w. rewrite <- !app_assoc. destruct Hcase as [[-> _]|[-> [Er _]]].
        - rewrite D_plain by (auto). change ([SP] ++ T3) with ([SP] ++ T3). rewrite D_false_ws by reflexivity. rewrite HD. reflexivity.
        - rewrite (HT3 Er). subst r. cbn [app concat]. rewrite D_plain by auto. rewrite D_nil. reflexivity. }
      destruct br as [|c0 br0].
      * cbn [flush_encode_buf]. destruct (fold_write_str w st) as [st2 o2] eqn:E2.
        destruct (fold_write_str_sem w st st2 o2 Hnw E2) as (e2 & R2 & Eq2).
        destruct (IH [] st2 Hr Hn2 Hb2 (or_introl eq_refl)) as (st3 & o3 & e3 & T3 & E3 & R3 & Eq3 & HD3 & HT3). rewrite E3.
        exists st3, (o2 ++ o3), (e2 ++ e3), (w ++ T3). split; [reflexivity|]. split; [apply reads_as_app; assumption|].
        split; [rewrite <- app_assoc, Eq3, app_assoc, Eq2, <- app_assoc; reflexivity|]. split; [|intros Ex; discriminate].
        cbn [rev app concat] in *. apply Plain; [intros Er; apply HT3; [exact Er|reflexivity]|exact HD3].
      * set (br := c0 :: br0) in *. cbn [negb andb] in Cb. apply negb_true_iff in Cb. rewrite Hbl in Cb.
        destruct Hinv as [Ebr|[Hex Hhd]]; [discriminate|]. destruct (Hhd ltac:(discriminate)) as (br' & Ebr').
        assert (Hnb : nc4 (rev br) = true) by (apply (nc4_app_l _ _ Hn)).
        assert (Hbb : bytes_ok (rev br) = true) by (rewrite bytes_ok_app in Hb; apply andb_prop in Hb; apply Hb).
        destruct (flush_sem br st ltac:(discriminate) Hex Hnb Hbb) as (ps & k & st1 & o1 & E1 & Hk & HR1 & Hpn & HF & Hc & Hk1).
        rewrite E1. specialize (Hk1 br' Ebr').
        destruct (fold_write_str w st1) as [st2 o2] eqn:E2.
        destruct (fold_write_str_sem w st1 st2 o2 Hnw E2) as (e2 & R2 & Eq2).
        destruct (IH [] st2 Hr Hn2 Hb2 (or_introl eq_refl)) as (st3 & o3 & e3 & T3 & E3 & R3 & Eq3 & HD3 & HT3). rewrite E3.
        exists st3, (o1 ++ o2 ++ o3), ((sp_run (spaces st) ++ joinenc ps) ++ e2 ++ e3), (joinenc ps ++ sp_run k ++ w ++ T3).
        split; [reflexivity|]. split; [apply reads_as_app; [exact HR1|apply reads_as_app; assumption]|].
        split; [rewrite <- !app_assoc; rewrite Eq3; rewrite (app_assoc e2), Eq2, Hk, <- !app_assoc; reflexivity|]. split; [|intros Ex; discriminate].
        cbn [rev app concat] in HD3.
        rewrite D_group; [|exact Hpn|exact HF|apply bnd_sp_run_app; exact Hk1].
        rewrite <- Hc, <- !app_assoc. f_equal. cbn [concat]. subst w. rewrite <- !app_assoc.
        destruct Hcase as [[-> _]|[-> [Er _]]].
        -- rewrite (D_any_plain true (sp_run k) t ([SP] ++ T3)); [|apply wsrun_sp_run|exact Cq|exact Cb|reflexivity].
           rewrite D_false_ws by reflexivity. rewrite HD3. reflexivity.
        -- rewrite (HT3 Er eq_refl). cbn [app]. rewrite (D_any_plain true (sp_run k) t []); [|apply wsrun_sp_run|exact Cq|exact Cb|reflexivity].
           rewrite D_nil. subst r. reflexivity.
    + (* joins the text to encode *)
      rewrite frev_rev.
      assert (Hn' : nc4 (rev (rev w ++ br) ++ concat r) = true) by (rewrite rev_app_distr, rev_involutive, <- app_assoc; exact Hn).
      assert (Hb' : bytes_ok (rev (rev w ++ br) ++ concat r) = true) by (rewrite rev_app_distr, rev_involutive, <- app_assoc; exact Hb).
      assert (Hinv' : buf_inv (rev w ++ br) r).
      { right. split.
        - rewrite existsb_app. destruct Hinv as [->|[Hex _]]; [|rewrite Hex; apply orb_true_r].
          cbn [negb andb] in Cond. rewrite andb_true_r in Cond. rewrite Hal in Cond. rewrite existsb_rev.
          subst w. destruct t as [|b t'].
          + destruct Hcase as [[-> _]|[_ [_ A]]]; [vm_compute in Cond; discriminate|contradiction].
          + rewrite existsb_app. rewrite (nosp_nonempty_nonsp (b :: t')); [reflexivity|discriminate|exact Hm].
        - intros Hrn. destruct Hcase as [[-> _]|[_ [A _]]]; [|contradiction]. subst w. rewrite rev_app_distr. cbn [rev app]. eexists. reflexivity. }
      destruct (IH (rev w ++ br) st Hr Hn' Hb' Hinv') as (st3 & o3 & e3 & T3 & E3 & R3 & Eq3 & HD3 & _).
      exists st3, o3, e3, T3. split; [exact E3|]. split; [exact R3|]. split; [exact Eq3|]. split; [|intros Ex; discriminate].
      rewrite HD3. rewrite rev_app_distr, rev_involutive, <- app_assoc. reflexivity.
Qed.

Theorem header_value_roundtrip name value : nc4 value = true -> bytes_ok value = true ->
  exists e, header_value_encode name value = Ok e /\ decode_unstructured e = value.
Proof.
  intros Hn Hb. unfold header_value_encode.
  assert (Hc : concat (split_inclusive_sp value) = value) by (unfold split_inclusive_sp; rewrite concat_split_incl; reflexivity).
  destruct (hv_format_sem (split_inclusive_sp value) [] (mkW (length name + 2) 0 false)) as (st' & o & e & T & E & R & Eq & HD & _).
  - apply split_incl_wfw. reflexivity.
  - cbn [rev app]. rewrite Hc. exact Hn.
  - cbn [rev app]. rewrite Hc. exact Hb.
  - left. reflexivity.
  - rewrite E. cbn [finish]. exists (o ++ sp_run (spaces st')). split; [reflexivity|].
    unfold decode_unstructured. fold (D false (unfold (o ++ sp_run (spaces st')))).
    rewrite <- (app_nil_r (o ++ sp_run (spaces st'))). rewrite <- app_assoc. rewrite R.
    rewrite unfold_nocr by apply nocr_sp_run. cbn [unfold]. rewrite app_nil_r. rewrite Eq. cbn [spaces sp_run repeat app].
    rewrite HD. cbn [rev app]. exact Hc.
Qed.

(* ---------- well-formed UTF-8 has no four continuation bytes in a row ---------- *)
Definition hnc (r : bytes) : bool := match r with [] => true | x :: _ => negb (is_cont x) end.
Lemma nc4_cons a r : nc4 (a :: r) = negb (is_cont a && match r with b :: c :: d :: _ => is_cont b && is_cont c && is_cont d | _ => false end) && nc4 r.
Proof. reflexivity. Qed.
Lemma nc4_pre3 r : hnc r = true -> nc4 r = true -> forall pre, (length pre <= 3)%nat -> nc4 (pre ++ r) = true.
Proof.
  intros Hh Hn pre Hl.
  assert (Hx : forall x t, r = x :: t -> is_cont x = false).
  { intros x t ->. cbn in Hh. apply negb_true_iff in Hh. exact Hh. }
  assert (H0 : forall c, nc4 (c :: r) = true).
  { intros c. rewrite nc4_cons, Hn, andb_true_r. destruct r as [|x [|y [|z t]]]; rewrite ?andb_false_r; try reflexivity.
    rewrite (Hx x _ eq_refl). cbn [andb]. rewrite andb_false_r. reflexivity. }
  assert (H1 : forall c1 c2, nc4 (c1 :: c2 :: r) = true).
  { intros c1 c2. rewrite nc4_cons, H0, andb_true_r. destruct r as [|x [|y t]]; rewrite ?andb_false_r; try reflexivity.
    rewrite (Hx x _ eq_refl). cbn [andb]. rewrite !andb_false_r. reflexivity. }
  destruct pre as [|c1 [|c2 [|c3 [|c4 p]]]]; cbn [length] in Hl; try lia; cbn [app].
  - exact Hn.
  - apply H0.
  - apply H1.
  - rewrite nc4_cons, H1, andb_true_r. destruct r as [|x t]; rewrite ?andb_false_r; try reflexivity.
    rewrite (Hx x _ eq_refl). rewrite !andb_false_r. reflexivity.
Qed.

Lemma utf8_valid_fuel_nc4 f : forall l, utf8_valid_fuel f l = true -> hnc l = true /\ nc4 l = true.
Proof.
  induction f as [|f IH]; intros l H.
  - destruct l; [split; reflexivity|discriminate].
  - cbn [utf8_valid_fuel] in H. destruct l as [|b0 r]; [split; reflexivity|].
    assert (K : forall pre r', r = pre ++ r' -> (length pre <= 2)%nat -> is_cont b0 = false -> utf8_valid_fuel f r' = true ->
                hnc (b0 :: r) = true /\ nc4 (b0 :: r) = true).
    { intros pre r' -> Hl Hc Hv. destruct (IH r' Hv) as [A B]. split; [cbn; rewrite Hc; reflexivity|].
      apply (nc4_pre3 r' A B (b0 :: pre)). cbn [length]. lia. }
    destruct (b0 <? 128) eqn:E1.
    { apply (K [] r eq_refl); [cbn; lia|unfold is_cont; lia|exact H]. }
    destruct ((194 <=? b0) && (b0 <=? 223)) eqn:E2.
    { destruct r as [|b1 r']; [discriminate|]. apply andb_prop in H. apply (K [b1] r' eq_refl); [cbn; lia|unfold is_cont; lia|apply H]. }
    destruct (b0 =? 224) eqn:E3.
    { destruct r as [|b1 [|b2 r']]; try discriminate. apply andb_prop in H. apply (K [b1; b2] r' eq_refl); [cbn; lia|unfold is_cont; lia|apply H]. }
    destruct (((225 <=? b0) && (b0 <=? 236)) || (b0 =? 238) || (b0 =? 239)) eqn:E4.
    { destruct r as [|b1 [|b2 r']]; try discriminate. apply andb_prop in H. apply (K [b1; b2] r' eq_refl); [cbn; lia|unfold is_cont; lia|apply H]. }
    destruct (b0 =? 237) eqn:E5.
    { destruct r as [|b1 [|b2 r']]; try discriminate. apply andb_prop in H. apply (K [b1; b2] r' eq_refl); [cbn; lia|unfold is_cont; lia|apply H]. }
    assert (K3 : forall b1 b2 b3 r', r = b1 :: b2 :: b3 :: r' -> is_cont b0 = false -> utf8_valid_fuel f r' = true -> hnc (b0 :: r) = true /\ nc4 (b0 :: r) = true).
    { intros b1 b2 b3 r' -> Hc Hv. destruct (IH r' Hv) as [A B].
      split; [cbn; rewrite Hc; reflexivity|].
      pose proof (nc4_pre3 r' A B [b1; b2; b3] ltac:(cbn; lia)) as P. cbn [app] in P.
      rewrite nc4_cons, Hc. cbn [andb negb]. exact P. }
    destruct (b0 =? 240) eqn:E6.
    { destruct r as [|b1 [|b2 [|b3 r']]]; try discriminate. apply andb_prop in H. apply (K3 b1 b2 b3 r' eq_refl); [unfold is_cont; lia|apply H]. }
    destruct ((241 <=? b0) && (b0 <=? 243)) eqn:E7.
    { destruct r as [|b1 [|b2 [|b3 r']]]; try discriminate. apply andb_prop in H. apply (K3 b1 b2 b3 r' eq_refl); [unfold is_cont; lia|apply H]. }
    destruct (b0 =? 244) eqn:E8; [|discriminate].
    destruct r as [|b1 [|b2 [|b3 r']]]; try discriminate. apply andb_prop in H. apply (K3 b1 b2 b3 r' eq_refl); [unfold is_cont; lia|apply H].
Qed.
Lemma utf8_valid_nc4 l : utf8_valid l = true -> nc4 l = true.
Proof. intros H. apply (utf8_valid_fuel_nc4 _ l H). Qed.

Lemma bytes_ok_cons b r : bytes_ok (b :: r) = byte_ok b && bytes_ok r.
Proof. reflexivity. Qed.
Lemma utf8_valid_fuel_bytes_ok f : forall l, utf8_valid_fuel f l = true -> bytes_ok l = true.
Proof.
  induction f as [|f IH]; intros l H.
  - destruct l; [reflexivity|discriminate].
  - cbn [utf8_valid_fuel] in H. destruct l as [|b0 r]; [reflexivity|].
    assert (C : forall b, is_cont b = true -> byte_ok b = true) by (intros b Hb; unfold is_cont, byte_ok in *; lia).
    destruct (b0 <? 128) eqn:E1.
    { rewrite !bytes_ok_cons. rewrite (IH r H). unfold byte_ok. replace (b0 <? 256) with true by lia. reflexivity. }
    destruct ((194 <=? b0) && (b0 <=? 223)) eqn:E2.
    { destruct r as [|b1 r']; [discriminate|]. apply andb_prop in H. destruct H as [H1 H2]. rewrite !bytes_ok_cons. rewrite (IH r' H2), (C b1 H1). unfold byte_ok. replace (b0 <? 256) with true by lia. reflexivity. }
    assert (K2 : forall b1 b2 r', r = b1 :: b2 :: r' -> b0 <= 244 -> b1 <= 191 -> is_cont b2 = true -> utf8_valid_fuel f r' = true -> bytes_ok (b0 :: r) = true).
    { intros b1 b2 r' -> L0 L1 C2 Hv. rewrite !bytes_ok_cons. rewrite (IH r' Hv), (C b2 C2). unfold byte_ok. replace (b0 <? 256) with true by lia. replace (b1 <? 256) with true by lia. reflexivity. }
    assert (K3 : forall b1 b2 b3 r', r = b1 :: b2 :: b3 :: r' -> b0 <= 244 -> b1 <= 191 -> is_cont b2 = true -> is_cont b3 = true -> utf8_valid_fuel f r' = true -> bytes_ok (b0 :: r) = true).
    { intros b1 b2 b3 r' -> L0 L1 C2 C3 Hv. rewrite !bytes_ok_cons. rewrite (IH r' Hv), (C b2 C2), (C b3 C3). unfold byte_ok. replace (b0 <? 256) with true by lia. replace (b1 <? 256) with true by lia. reflexivity. }
    destruct (b0 =? 224) eqn:E3.
    { destruct r as [|b1 [|b2 r']]; try discriminate. apply andb_prop in H. destruct H as [H Hv]. apply andb_prop in H. destruct H as [H H2]. apply (K2 b1 b2 r' eq_refl); [lia|lia|exact H2|exact Hv]. }
    destruct (((225 <=? b0) && (b0 <=? 236)) || (b0 =? 238) || (b0 =? 239)) eqn:E4.
    { destruct r as [|b1 [|b2 r']]; try discriminate. apply andb_prop in H. destruct H as [H Hv]. apply andb_prop in H. destruct H as [H H2]. apply (K2 b1 b2 r' eq_refl); [lia|unfold is_cont in H; lia|exact H2|exact Hv]. }
    destruct (b0 =? 237) eqn:E5.
    { destruct r as [|b1 [|b2 r']]; try discriminate. apply andb_prop in H. destruct H as [H Hv]. apply andb_prop in H. destruct H as [H H2]. apply (K2 b1 b2 r' eq_refl); [lia|lia|exact H2|exact Hv]. }
    destruct (b0 =? 240) eqn:E6.
    { destruct r as [|b1 [|b2 [|b3 r']]]; try discriminate. apply andb_prop in H. destruct H as [H Hv]. apply andb_prop in H. destruct H as [H H3]. apply andb_prop in H. destruct H as [H H2].
      apply (K3 b1 b2 b3 r' eq_refl); [lia|lia|exact H2|exact H3|exact Hv]. }
    destruct ((241 <=? b0) && (b0 <=? 243)) eqn:E7.
    { destruct r as [|b1 [|b2 [|b3 r']]]; try discriminate. apply andb_prop in H. destruct H as [H Hv]. apply andb_prop in H. destruct H as [H H3]. apply andb_prop in H. destruct H as [H H2].
      apply (K3 b1 b2 b3 r' eq_refl); [lia|unfold is_cont in H; lia|exact H2|exact H3|exact Hv]. }
    destruct (b0 =? 244) eqn:E8; [|discriminate].
    destruct r as [|b1 [|b2 [|b3 r']]]; try discriminate. apply andb_prop in H. destruct H as [H Hv]. apply andb_prop in H. destruct H as [H H3]. apply andb_prop in H. destruct H as [H H2].
    apply (K3 b1 b2 b3 r' eq_refl); [lia|lia|exact H2|exact H3|exact Hv].
Qed.

(* C12, in full: every Rust string survives HeaderValue::new *)
Theorem header_value_roundtrip_utf8 name value : utf8_valid value = true ->
  exists e, header_value_encode name value = Ok e /\ decode_unstructured e = value.
Proof.
  intros H. apply header_value_roundtrip; [apply utf8_valid_nc4; exact H|apply (utf8_valid_fuel_bytes_ok _ _ H)].
Qed.

(* no panic and no error: a consequence used by C19 *)
Theorem header_value_encode_total name value : utf8_valid value = true -> exists e, header_value_encode name value = Ok e.
Proof. intros H. destruct (header_value_roundtrip_utf8 name value H) as (e & E & _). exists e. exact E. Qed.

(* ---------- every encoded-word holds a complete UTF-8 text ---------- *)
(* rfc2047::encode on a well-formed UTF-8 text: the text is cut into pieces p1 .. pn (in order, nothing lost), each of
   1..45 octets and each well-formed UTF-8 on its own; what is written reads (after unfolding) as the pending blanks
   followed by the encoded-words of the pieces, separated by one SP *)
Theorem rfc2047_pieces_complete (s : bytes) (st : wst) : s <> [] -> utf8_valid s = true ->
  exists ps st' o, rfc2047_encode s st = Ok (st', o) /\ concat ps = s /\
    Forall (fun p => p <> [] /\ (length p <= 45)%nat /\ utf8_valid p = true) ps /\
    reads_as o (sp_run (spaces st) ++ joinenc ps).
Proof.
  intros Hs Hu. unfold rfc2047_encode.
  destruct (rfc2047_go_sem (2 * length s + 2) s false st Hs (utf8_valid_nc4 s Hu) (utf8_valid_fuel_bytes_ok _ s Hu))
    as (ps & st' & o & E & _ & _ & HF & Hc & HR & _ & HU);
    [unfold req; destruct (Nat.eqb (line_len st) 0); lia|left; reflexivity|].
  exists ps, st', o. split; [exact E|]. split; [exact Hc|]. split; [|exact HR].
  specialize (HU Hu). clear -HF HU. induction HF as [|p ps [A [_ B]] HF IH]; [constructor|].
  inversion HU; subst. constructor; [repeat split; assumption|apply IH; assumption].
Qed.
