(* C13 / C02: the field the header encoder writes for a text value that needs no encoding HAS the shape the relaxed
   DKIM header theorem is stated for (Proofs/DkimHeaderProofs.v, sfield): name, colon, white space, then nothing or words
   separated by gaps - a run of spaces, or a line break followed by spaces - and trailing spaces; never a line break
   directly after the colon, never a continuation line of white space only.  Until now that was a certificate checked
   per generated message (DkimShapeCert.certify); for verbatim values of printable words and spaces it is a theorem,
   for every name, any number and length of words and ANY runs of spaces between and around them. *)
From Coq Require Import Strings.String.
From LV Require Import Base.Bytes Base.Str Base.Utf8 Base.Res Base.Base64 Model.HeaderEnc Model.Headers Model.Dkim Spec.Rfc5322 Spec.Dkim
  Proofs.Rfc2047DecProofs Proofs.HeaderPlainProofs Proofs.CteShapeProofs Proofs.HeaderLinesProofs Proofs.DkimHeaderProofs.
From Coq Require Import Lia Arith PeanoNat.

(* no two words without a space between them *)
Fixpoint altw (ts : list token) : Prop :=
  match ts with
  | [] => True
  | t :: r => match t, r with TWord _, TWord _ :: _ => False | _, _ => True end /\ altw r
  end.
Lemma altw_tokens s : forall cur, altw (tokens_go s cur).
Proof.
  induction s as [|b s IH]; intros cur; cbn [tokens_go].
  - destruct cur; cbn; auto.
  - destruct (b =? SP).
    + destruct cur as [|c cur]; cbn [altw]; auto.
    + apply IH.
Qed.

Lemma wsrun_sp_run n : wsrun (sp_run n) = true.
Proof. induction n; [reflexivity|]. cbn. exact IHn. Qed.
Lemma wordc_wchars w : forallb wordc w = true -> wchars w = true.
Proof.
  unfold wchars. induction w as [|c w IH]; [reflexivity|]. cbn [forallb]. intros H. apply andb_prop in H. destruct H as [Hc Hw].
  rewrite (IH Hw). unfold wordc, is_wsp, SP, TAB, CR in *. lia.
Qed.

Section Shape.
Variable name : bytes.

(* what has been written so far: only the name, the colon and one space - or a first word and more *)
Definition PhaseInv (out : bytes) (st : wst) : Prop :=
  (can_fold st = false /\ out = name ++ bs ": ") \/
  (can_fold st = true /\ exists lead w1 rest, out = name ++ 58 :: lead ++ w1 ++ mid_text rest /\
     wsrun lead = true /\ word_ok w1 /\ rest_ok rest).
Definition hcw (ts : list token) (st : wst) : Prop :=
  match ts with TWord _ :: _ => can_fold st = true -> (1 <= spaces st)%nat | _ => True end.

Lemma mid_text_snoc rest g w : mid_text (rest ++ [(g, w)]) = mid_text rest ++ gap_text g ++ w.
Proof. unfold mid_text. rewrite flat_map_app. cbn [flat_map fst snd]. rewrite app_nil_r. reflexivity. Qed.

Lemma fold_tokens_shape ts : forall out st st' o,
  altw ts -> Forall word_ok2 ts -> hcw ts st -> PhaseInv out st -> fold_tokens ts st = (st', o) -> PhaseInv (out ++ o) st'.
Proof.
  induction ts as [|t ts IH]; intros out st st' o Ha Fw Hh HI H.
  - cbn in H. inversion H; subst. rewrite app_nil_r. exact HI.
  - inversion Fw as [|? ? Ht Fw']; subst. cbn [altw] in Ha. destruct Ha as [Ha1 Ha]. destruct t as [|w].
    + cbn [fold_tokens] in H. apply (IH out (w_space st) st' o Ha Fw'); [| |exact H].
      * destruct ts as [|[|w] r]; cbn [hcw]; auto. intros _. cbn [w_space spaces]. lia.
      * destruct HI as [[A B]|[A B]]; [left|right]; cbn [w_space can_fold]; auto.
    + destruct Ht as (Hne & Hwc). cbn [hcw] in Hh. pose proof (wordc_nosp w Hwc) as Hnsp.
      assert (Hword : word_ok w) by (split; [exact Hne|apply wordc_wchars; exact Hwc]).
      assert (Hnext : forall stx, hcw ts stx).
      { intros stx. destruct ts as [|[|w'] r]; cbn [hcw]; auto. contradiction. }
      cbn [fold_tokens] in H. unfold fold_word in H.
      destruct (can_fold st && Nat.leb 1 (spaces st) && Nat.ltb MAX_LINE_LEN (line_len st + spaces st + length w)) eqn:Cnd.
      * (* a fold: only after a word, with at least one pending space *)
        apply andb_prop in Cnd. destruct Cnd as [Cnd _]. apply andb_prop in Cnd. destruct Cnd as [Hcf Hs1]. apply Nat.leb_le in Hs1.
        cbn [w_new_line] in H. rewrite (w_write_str_word w _ Hne Hnsp) in H. cbn [spaces line_len] in H.
        destruct (fold_tokens ts _) as [st2 o2] eqn:E2. inversion H; subst. clear H.
        change (out ++ CR :: LF :: (sp_run (spaces st) ++ w) ++ o2) with (out ++ (CRLF ++ sp_run (spaces st) ++ w) ++ o2). rewrite app_assoc.
        match type of E2 with fold_tokens ts ?sx = _ => apply (IH _ sx st' o2 Ha Fw' (Hnext sx)); [|exact E2] end.
        right. split; [reflexivity|]. destruct HI as [[A _]|[_ (lead & w1 & rest & Eo & Hl & Hw1 & Hr)]]; [rewrite A in Hcf; discriminate|].
        exists lead, w1, (rest ++ [(GFold [] (sp_run (spaces st)), w)]). split.
        -- rewrite mid_text_snoc. cbn [gap_text app]. rewrite Eo. rewrite <- !app_assoc. cbn [app]. rewrite <- !app_assoc. reflexivity.
        -- split; [exact Hl|]. split; [exact Hw1|]. apply Forall_app. split; [exact Hr|]. constructor; [|constructor]. cbn [fst snd gap_ok].
           split; [|exact Hword]. split; [reflexivity|]. split; [apply wsrun_sp_run|]. destruct (spaces st); [lia|discriminate].
      * rewrite (w_write_str_word w _ Hne Hnsp) in H.
        destruct (fold_tokens ts _) as [st2 o2] eqn:E2. inversion H; subst. clear H.
        rewrite app_assoc.
        match type of E2 with fold_tokens ts ?sx = _ => apply (IH _ sx st' o2 Ha Fw' (Hnext sx)); [|exact E2] end.
        right. split; [reflexivity|]. destruct HI as [[A B]|[A (lead & w1 & rest & Eo & Hl & Hw1 & Hr)]].
        -- (* the first word: what stands before it is the white space after the colon *)
           exists (SP :: sp_run (spaces st)), w, []. split.
           ++ rewrite B. cbn [mid_text flat_map bs app]. rewrite app_nil_r. rewrite <- !app_assoc. cbn [app]. reflexivity.
           ++ split; [cbn; apply wsrun_sp_run|]. split; [exact Hword|constructor].
        -- specialize (Hh A).
           exists lead, w1, (rest ++ [(GPlain (sp_run (spaces st)), w)]). split.
           ++ rewrite mid_text_snoc. cbn [gap_text]. rewrite Eo. rewrite <- !app_assoc. cbn [app]. rewrite <- !app_assoc. reflexivity.
           ++ split; [exact Hl|]. split; [exact Hw1|]. apply Forall_app. split; [exact Hr|]. constructor; [|constructor]. cbn [fst snd gap_ok].
              split; [|exact Hword]. split; [destruct (spaces st); [lia|discriminate]|apply wsrun_sp_run].
Qed.
End Shape.

Lemma ftext_name_ok n : header_name_ok n = true -> name_ok n.
Proof.
  unfold header_name_ok. intros H. apply andb_prop in H. destruct H as [H Hft]. apply andb_prop in H. destruct H as [Hne _].
  split; [destruct n; [discriminate|discriminate]|]. split.
  - apply forallb_forall. intros x Hx. pose proof (proj1 (forallb_forall _ _) Hft x Hx) as A. unfold is_ftext_b, is_wsp, SP, TAB in *. lia.
  - apply forallb_forall. intros x Hx. pose proof (proj1 (forallb_forall _ _) Hft x Hx) as A. unfold is_ftext_b, CR in *. lia.
Qed.

(* the field written for a verbatim value has the shape, and its text is the field's text *)
Theorem plain_value_shape name value :
  header_name_ok name = true ->
  Forall (fun w => allowed_str w = true) (split_inclusive_sp value) ->
  forallb valc value = true ->
  exists e f, header_value_encode name value = Ok e /\ header_line name e = sf_text f /\ sf_ok f /\ sf_name f = name.
Proof.
  intros Hn Fa Hv. unfold header_value_encode. rewrite hv_format_plain_tokens by exact Fa.
  unfold split_inclusive_sp. rewrite flat_tokens_split by reflexivity. fold (tokens value).
  set (st0 := mkW (length name + 2) 0 false).
  destruct (fold_tokens (tokens value) st0) as [st' o] eqn:E. cbn [finish].
  assert (H0 : hcw (tokens value) st0) by (destruct (tokens value) as [|[|w] r]; cbn [hcw st0 can_fold]; auto; discriminate).
  assert (I0 : PhaseInv name (name ++ bs ": ") st0) by (left; split; reflexivity).
  pose proof (fold_tokens_shape name (tokens value) _ st0 st' o (altw_tokens value []) (tokens_go_ok2 value [] Hv eq_refl) H0 I0 E) as HI.
  exists (o ++ sp_run (spaces st')). pose proof (ftext_name_ok name Hn) as Hname.
  destruct HI as [[_ Eo]|[_ (lead & w1 & rest & Eo & Hl & Hw1 & Hr)]].
  - (* no word at all: the value is empty or made of spaces *)
    assert (o = []) as ->.
    { apply (f_equal (@length N)) in Eo. rewrite app_length in Eo. destruct o; [reflexivity|cbn [length] in Eo; lia]. }
    exists (mkSF name (SP :: sp_run (spaces st')) BEmpty). split; [reflexivity|]. split.
    + unfold header_line, sf_text. cbn [sf_name sf_lead sf_body body_text]. change (bs ": ") with [58; 32]. cbn [app]. reflexivity.
    + split; [|reflexivity]. split; [exact Hname|]. split; [cbn; apply wsrun_sp_run|exact I].
  - exists (mkSF name lead (BWords w1 rest (sp_run (spaces st')))). split; [reflexivity|]. split.
    + unfold header_line, sf_text. cbn [sf_name sf_lead sf_body body_text].
      assert (L : name ++ bs ": " ++ (o ++ sp_run (spaces st')) ++ CRLF = ((name ++ bs ": ") ++ o) ++ sp_run (spaces st') ++ CRLF)
        by (repeat first [rewrite <- app_assoc | progress cbn [app]]; reflexivity).
      rewrite L, Eo. repeat first [rewrite <- app_assoc | progress cbn [app]]. reflexivity.
    + split; [|reflexivity]. split; [exact Hname|]. split; [exact Hl|]. split; [exact Hw1|]. split; [exact Hr|apply wsrun_sp_run].
Qed.

(* hence the single pass of dkim.rs over such a field gives the canonical form of the field, and - the name being
   lower-case, as it is when the pass runs - exactly what RFC 6376 3.4.2 prescribes *)
Theorem plain_value_relaxed name value :
  header_name_ok name = true ->
  Forall (fun w => allowed_str w = true) (split_inclusive_sp value) ->
  forallb valc value = true -> map to_lower name = name ->
  exists e, header_value_encode name value = Ok e /\
    canon_headers_relaxed (header_line name e) = spec_field_relaxed (header_line name e).
Proof.
  intros Hn Fa Hv Hlow. destruct (plain_value_shape name value Hn Fa Hv) as (e & f & He & Ht & Hok & Hnm).
  exists e. split; [exact He|]. rewrite Ht.
  pose proof (relaxed_headers_rfc [f] (Forall_cons _ Hok (Forall_nil _))) as R.
  cbn [flat_map] in R. rewrite !app_nil_r in R. apply R. constructor; [|constructor]. unfold sf_lower. rewrite Hnm. exact Hlow.
Qed.
