(* C13: the relaxed HEADER canonicalization of dkim.rs (one pass over the serialized fields - name, value, name, ... -)
   is RFC 6376 3.4.2 (per field: lower-case name, unfold, compress WSP, strip WSP at the end of the value and around
   the colon) - for every list of fields of the shape the header encoder writes: words separated by gaps of white
   space that hold at most one line break each, none directly after the colon. *)
From Coq Require Import Strings.String.
From LV Require Import Base.Bytes Base.Str Base.Res Model.HeaderEnc Model.Headers Model.Dkim Spec.Rfc5322 Spec.Dkim
  Proofs.Rfc2047DecProofs.
From Coq Require Import Lia Arith PeanoNat.
Local Arguments N.eqb : simpl never.
Local Arguments N.leb : simpl never.
Local Arguments N.ltb : simpl never.

Lemma wsp_m c : Model.Dkim.wsp c = is_wsp c. Proof. reflexivity. Qed.
Lemma wsp_s c : Spec.Dkim.wsp c = is_wsp c. Proof. reflexivity. Qed.

(* ---------- the pass does not depend on its fuel once it exceeds the input ---------- *)
Lemma skip_wsp_len l : (length (skip_wsp l) <= length l)%nat.
Proof. induction l as [|c r IH]; [cbn; lia|]. cbn [skip_wsp]. destruct (Model.Dkim.wsp c); cbn [length]; lia. Qed.

Lemma hrelax_fuel f1 : forall f2 b l, (length l < f1)%nat -> (length l < f2)%nat -> hrelax f1 b l = hrelax f2 b l.
Proof.
  induction f1 as [|f1 IH]; intros f2 b l H1 H2; [lia|]. destruct f2 as [|f2]; [lia|]. cbn [hrelax].
  destruct b.
  - destruct l as [|c r]; [reflexivity|]. cbn [length] in *.
    destruct ((c =? CR) && starts_with [LF] r) eqn:E.
    + destruct r as [|x r2]; [reflexivity|]. destruct r2 as [|d r3]; [reflexivity|]. cbn [length] in *.
      destruct (Model.Dkim.wsp d); [f_equal; apply IH; pose proof (skip_wsp_len (d :: r3)); cbn [length] in *; lia|].
      f_equal. apply IH; cbn [length]; lia.
    + destruct (Model.Dkim.wsp c).
      * destruct r as [|d r2]; [reflexivity|]. cbn [length] in *. destruct (Model.Dkim.wsp d || (d =? CR)); [apply IH; cbn [length]; lia|].
        f_equal. apply IH; cbn [length]; lia.
      * f_equal. apply IH; lia.
  - destruct l as [|c r]; [reflexivity|]. cbn [length] in *. destruct (c =? 58).
    + f_equal. apply IH; pose proof (skip_wsp_len r); lia.
    + f_equal. apply IH; lia.
Qed.

Lemma hrelax_S f b l : hrelax (S f) b l =
    if b then
      match l with
      | [] => []
      | c :: r =>
        if (c =? CR) && starts_with [LF] r then
          match r with
          | _ :: r2 =>
            match r2 with
            | d :: _ => if Model.Dkim.wsp d then SP :: hrelax f true (skip_wsp r2) else CRLF ++ hrelax f false r2
            | [] => CRLF
            end
          | [] => []
          end
        else if Model.Dkim.wsp c then
          match r with
          | d :: _ => if Model.Dkim.wsp d || (d =? CR) then hrelax f true r
                      else (if c =? TAB then SP else c) :: hrelax f true r
          | [] => [if c =? TAB then SP else c]
          end
        else c :: hrelax f true r
      end
    else
      match l with
      | [] => []
      | c :: r => if c =? 58 then c :: hrelax f true (skip_wsp r) else c :: hrelax f false r
      end.
Proof. reflexivity. Qed.

Definition H (b : bool) (l : bytes) : bytes := hrelax (S (length l)) b l.

Lemma H_step b l f : (length l < f)%nat -> hrelax f b l = H b l.
Proof. intros Hf. unfold H. apply hrelax_fuel; lia. Qed.

(* ---------- the equations of the pass ---------- *)
Lemma H_name_nil : H false [] = [].
Proof. reflexivity. Qed.
Lemma H_name_char c r : (c =? 58) = false -> H false (c :: r) = c :: H false r.
Proof. intros E. unfold H at 1. cbn [length]. rewrite hrelax_S. rewrite E. reflexivity. Qed.
Lemma H_name_colon r : H false (58 :: r) = 58 :: H true (skip_wsp r).
Proof. unfold H at 1. cbn [length]. rewrite hrelax_S. change (58 =? 58) with true. cbn iota. f_equal. apply H_step. pose proof (skip_wsp_len r). lia. Qed.

Lemma H_value_char c r : is_wsp c = false -> (c =? CR) = false -> H true (c :: r) = c :: H true r.
Proof.
  intros Ew Ec. unfold H at 1. cbn [length]. rewrite hrelax_S. rewrite Ec. cbn [andb]. change (Model.Dkim.wsp c) with (is_wsp c). rewrite Ew. reflexivity.
Qed.
Lemma H_value_ws_skip c d r : is_wsp c = true -> (is_wsp d || (d =? CR)) = true -> H true (c :: d :: r) = H true (d :: r).
Proof.
  intros Ew Ed. unfold H at 1. cbn [length]. rewrite hrelax_S.
  assert (Ec : (c =? CR) = false). { unfold is_wsp in Ew. destruct (c =? CR) eqn:E; [|reflexivity]. apply N.eqb_eq in E. subst c. discriminate. }
  rewrite Ec. cbn [andb]. change (Model.Dkim.wsp c) with (is_wsp c). change (Model.Dkim.wsp d) with (is_wsp d). rewrite Ew, Ed. reflexivity.
Qed.
Lemma H_value_ws_emit c d r : is_wsp c = true -> is_wsp d = false -> (d =? CR) = false -> H true (c :: d :: r) = SP :: H true (d :: r).
Proof.
  intros Ew Ed1 Ed2. unfold H at 1. cbn [length]. rewrite hrelax_S.
  assert (Ec : (c =? CR) = false). { unfold is_wsp in Ew. destruct (c =? CR) eqn:E; [|reflexivity]. apply N.eqb_eq in E. subst c. discriminate. }
  rewrite Ec. cbn [andb]. change (Model.Dkim.wsp c) with (is_wsp c). change (Model.Dkim.wsp d) with (is_wsp d). rewrite Ew, Ed1, Ed2. cbn [orb].
  assert (Es : (if c =? TAB then SP else c) = SP).
  { unfold is_wsp in Ew. apply orb_prop in Ew. destruct Ew as [E|E]; apply N.eqb_eq in E; subst c; reflexivity. }
  rewrite Es. reflexivity.
Qed.
Lemma H_value_fold d r : is_wsp d = true -> H true (CR :: LF :: d :: r) = SP :: H true (skip_wsp (d :: r)).
Proof.
  intros Ed. unfold H at 1. cbn [length]. rewrite hrelax_S. change ((CR =? CR) && starts_with [LF] (LF :: d :: r)) with true. cbn iota. change (Model.Dkim.wsp d) with (is_wsp d). rewrite Ed.
  f_equal. apply H_step. pose proof (skip_wsp_len (d :: r)). cbn [length] in *. lia.
Qed.
Lemma H_value_end_next d r : is_wsp d = false -> H true (CR :: LF :: d :: r) = CRLF ++ H false (d :: r).
Proof.
  intros Ed. unfold H at 1. cbn [length]. rewrite hrelax_S. change ((CR =? CR) && starts_with [LF] (LF :: d :: r)) with true. cbn iota. change (Model.Dkim.wsp d) with (is_wsp d). rewrite Ed.
  f_equal. f_equal. apply H_step. cbn [length]. lia.
Qed.
Lemma H_value_end : H true CRLF = CRLF.
Proof. reflexivity. Qed.

(* ---------- words, gaps and the end of a value ---------- *)
Definition wchars (w : bytes) : bool := forallb (fun c => negb (is_wsp c) && negb (c =? CR)) w.
Definition word_ok (w : bytes) : Prop := w <> [] /\ wchars w = true.
Definition next_ok (next : bytes) : Prop := match next with [] => True | c :: _ => is_wsp c = false /\ (c =? CR) = false end.

Inductive gap := GPlain (ws : bytes) | GFold (a b : bytes).
Definition gap_text (g : gap) : bytes := match g with GPlain ws => ws | GFold a b => a ++ CRLF ++ b end.
Definition gap_unfolded (g : gap) : bytes := match g with GPlain ws => ws | GFold a b => a ++ b end.
Definition gap_ok (g : gap) : Prop :=
  match g with GPlain ws => ws <> [] /\ wsrun ws = true | GFold a b => wsrun a = true /\ wsrun b = true /\ b <> [] end.

Lemma H_word w : forall r, wchars w = true -> H true (w ++ r) = w ++ H true r.
Proof.
  induction w as [|c w IH]; intros r Hw; [reflexivity|]. cbn in Hw. apply andb_prop in Hw. destruct Hw as [Hc Hw]. apply andb_prop in Hc. destruct Hc as [H1 H2].
  apply negb_true_iff in H1. apply negb_true_iff in H2. cbn [app]. rewrite H_value_char by assumption. rewrite IH by exact Hw. reflexivity.
Qed.

Lemma H_ws_before_cr ws : forall r, wsrun ws = true -> H true (ws ++ CR :: r) = H true (CR :: r).
Proof.
  induction ws as [|c ws IH]; intros r Hw; [reflexivity|]. cbn in Hw. apply andb_prop in Hw. destruct Hw as [Hc Hw]. cbn [app].
  destruct ws as [|d ws'].
  - cbn [app]. apply H_value_ws_skip; [exact Hc|]. change (CR =? CR) with true. apply orb_true_r.
  - cbn [app]. rewrite H_value_ws_skip; [|exact Hc|]. + apply (IH r Hw). + cbn in Hw. apply andb_prop in Hw. destruct Hw as [Hd _]. rewrite Hd. reflexivity.
Qed.

Lemma H_ws_before_word ws : forall c r, ws <> [] -> wsrun ws = true -> is_wsp c = false -> (c =? CR) = false -> H true (ws ++ c :: r) = SP :: H true (c :: r).
Proof.
  induction ws as [|a ws IH]; intros c r Hne Hw Hc1 Hc2; [contradiction|]. cbn in Hw. apply andb_prop in Hw. destruct Hw as [Ha Hw]. cbn [app].
  destruct ws as [|d ws'].
  - cbn [app]. apply H_value_ws_emit; assumption.
  - cbn [app]. rewrite H_value_ws_skip; [|exact Ha|]. + apply (IH c r); [discriminate|exact Hw|exact Hc1|exact Hc2]. + cbn in Hw. apply andb_prop in Hw. destruct Hw as [Hd _]. rewrite Hd. reflexivity.
Qed.

Lemma skip_wsp_run ws : forall x, wsrun ws = true -> match x with [] => True | c :: _ => is_wsp c = false end -> skip_wsp (ws ++ x) = x.
Proof.
  induction ws as [|c ws IH]; intros x Hw Hx.
  - destruct x as [|c r]; [reflexivity|]. cbn [app skip_wsp]. change (Model.Dkim.wsp c) with (is_wsp c). rewrite Hx. reflexivity.
  - cbn in Hw. apply andb_prop in Hw. destruct Hw as [Hc Hw]. cbn [app skip_wsp]. change (Model.Dkim.wsp c) with (is_wsp c). rewrite Hc. apply IH; assumption.
Qed.

Lemma word_head w : word_ok w -> exists c t, w = c :: t /\ is_wsp c = false /\ (c =? CR) = false.
Proof.
  intros [Hne Hw]. destruct w as [|c t]; [contradiction|]. cbn in Hw. apply andb_prop in Hw. destruct Hw as [Hc _]. apply andb_prop in Hc. destruct Hc as [H1 H2].
  exists c, t. split; [reflexivity|]. split; [apply negb_true_iff; exact H1|apply negb_true_iff; exact H2].
Qed.

Lemma H_gap g w r : gap_ok g -> word_ok w -> H true (gap_text g ++ w ++ r) = SP :: H true (w ++ r).
Proof.
  intros Hg Hw. destruct (word_head w Hw) as (c & t & -> & Hc1 & Hc2). destruct g as [ws|a b]; cbn [gap_text gap_ok] in *.
  - destruct Hg as [Hne Hws]. cbn [app]. apply H_ws_before_word; assumption.
  - destruct Hg as (Ha & Hb & Hbn). rewrite <- !app_assoc. cbn [CRLF app]. rewrite H_ws_before_cr by exact Ha.
    destruct b as [|d b']; [contradiction|]. cbn in Hb. apply andb_prop in Hb. destruct Hb as [Hd Hb']. cbn [app].
    rewrite H_value_fold by exact Hd. f_equal. f_equal. change (d :: b' ++ c :: t ++ r) with ((d :: b') ++ (c :: t ++ r)).
    apply skip_wsp_run; [cbn; rewrite Hd; exact Hb'|exact Hc1].
Qed.

Lemma H_end ws next : wsrun ws = true -> next_ok next -> H true (ws ++ CRLF ++ next) = CRLF ++ H false next.
Proof.
  intros Hw Hn. cbn [CRLF app]. rewrite H_ws_before_cr by exact Hw. destruct next as [|d r]; [reflexivity|]. destruct Hn as [Hd _]. apply H_value_end_next. exact Hd.
Qed.

Definition mid_text (rest : list (gap * bytes)) : bytes := flat_map (fun p => gap_text (fst p) ++ snd p) rest.
Definition mid_unfolded (rest : list (gap * bytes)) : bytes := flat_map (fun p => gap_unfolded (fst p) ++ snd p) rest.
Definition mid_canon (rest : list (gap * bytes)) : bytes := flat_map (fun p => SP :: snd p) rest.
Definition rest_ok (rest : list (gap * bytes)) : Prop := Forall (fun p => gap_ok (fst p) /\ word_ok (snd p)) rest.

Lemma H_value rest : forall w1 ws_end next, word_ok w1 -> rest_ok rest -> wsrun ws_end = true -> next_ok next ->
  H true (w1 ++ mid_text rest ++ ws_end ++ CRLF ++ next) = w1 ++ mid_canon rest ++ CRLF ++ H false next.
Proof.
  induction rest as [|[g w] rest IH]; intros w1 ws_end next H1 Hr He Hn.
  - cbn [mid_text mid_canon flat_map app]. rewrite H_word by apply H1. rewrite H_end by assumption. reflexivity.
  - inversion Hr as [|? ? [Hg Hw] Hr']; subst. cbn [fst snd] in *. cbn [mid_text mid_canon flat_map fst snd]. fold (mid_text rest). fold (mid_canon rest).
    rewrite H_word by apply H1. rewrite <- !app_assoc. rewrite H_gap by assumption. rewrite (IH w ws_end next Hw Hr' He Hn). cbn [app]. rewrite <- ?app_assoc. reflexivity.
Qed.

(* ---------- one field, as the pass sees it ---------- *)
Definition name_ok (n : bytes) : Prop := n <> [] /\ forallb (fun c => negb (c =? 58) && negb (is_wsp c)) n = true /\ forallb (fun c => negb (c =? CR)) n = true.

Lemma H_name n : forall r, forallb (fun c => negb (c =? 58) && negb (is_wsp c)) n = true -> H false (n ++ 58 :: r) = n ++ 58 :: H true (skip_wsp r).
Proof.
  induction n as [|c n IH]; intros r Hn; [apply H_name_colon|]. cbn in Hn. apply andb_prop in Hn. destruct Hn as [Hc Hn]. apply andb_prop in Hc. destruct Hc as [Hc _].
  apply negb_true_iff in Hc. cbn [app]. rewrite H_name_char by exact Hc. rewrite IH by exact Hn. reflexivity.
Qed.

(* the value of a field: white space, then nothing, or words separated by gaps and followed by white space *)
Inductive body := BEmpty | BWords (w1 : bytes) (rest : list (gap * bytes)) (ws_end : bytes).
Record sfield := mkSF { sf_name : bytes; sf_lead : bytes; sf_body : body }.
Definition body_text (b : body) : bytes := match b with BEmpty => [] | BWords w1 rest e => w1 ++ mid_text rest ++ e end.
Definition body_unfolded (b : body) : bytes := match b with BEmpty => [] | BWords w1 rest e => w1 ++ mid_unfolded rest ++ e end.
Definition body_canon (b : body) : bytes := match b with BEmpty => [] | BWords w1 rest _ => w1 ++ mid_canon rest end.
Definition body_ok (b : body) : Prop := match b with BEmpty => True | BWords w1 rest e => word_ok w1 /\ rest_ok rest /\ wsrun e = true end.
Definition sf_text (f : sfield) : bytes := sf_name f ++ 58 :: sf_lead f ++ body_text (sf_body f) ++ CRLF.
Definition sf_ok (f : sfield) : Prop := name_ok (sf_name f) /\ wsrun (sf_lead f) = true /\ body_ok (sf_body f).
Definition sf_canon (f : sfield) : bytes := sf_name f ++ 58 :: body_canon (sf_body f) ++ CRLF.

Lemma H_field f next : sf_ok f -> next_ok next -> H false (sf_text f ++ next) = sf_canon f ++ H false next.
Proof.
  intros ((Hnn & Hn & _) & Hl & Hb) Hx. unfold sf_text, sf_canon. rewrite <- ?app_assoc. cbn [app]. rewrite H_name by exact Hn. f_equal. f_equal.
  rewrite <- ?app_assoc. destruct (sf_body f) as [|w1 rest e]; cbn [body_text body_canon body_ok app] in *.
  - rewrite skip_wsp_run; [|exact Hl|reflexivity]. rewrite <- (app_nil_l (CRLF ++ next)). rewrite H_end by (try reflexivity; exact Hx). reflexivity.
  - destruct Hb as (H1 & Hr & He). destruct (word_head w1 H1) as (c & t & E & Hc & _). rewrite <- ?app_assoc.
    rewrite skip_wsp_run; [|exact Hl|rewrite E; exact Hc]. rewrite H_value by assumption. rewrite <- ?app_assoc. reflexivity.
Qed.

Lemma sf_text_next f rest : sf_ok f -> next_ok (sf_text f ++ rest).
Proof.
  intros ((Hnn & Hn & Hcr) & _). unfold sf_text. destruct (sf_name f) as [|c n]; [contradiction|]. cbn in Hn, Hcr. apply andb_prop in Hn. destruct Hn as [Hc _].
  apply andb_prop in Hc. destruct Hc as [_ Hw]. apply negb_true_iff in Hw. apply andb_prop in Hcr. destruct Hcr as [Hc2 _]. apply negb_true_iff in Hc2. cbn. split; assumption.
Qed.

Theorem H_fields fs : Forall sf_ok fs -> H false (flat_map sf_text fs) = flat_map sf_canon fs.
Proof.
  induction fs as [|f fs IH]; intros F; [reflexivity|]. inversion F as [|? ? Hf F']; subst. cbn [flat_map].
  rewrite H_field; [|exact Hf|]. - rewrite IH by exact F'. reflexivity.
  - destruct fs as [|g fs']; [exact I|]. cbn [flat_map]. apply sf_text_next. inversion F'; assumption.
Qed.

(* ---------- the same field under RFC 6376 3.4.2 ---------- *)
Lemma split_at_colon_name n r : forallb (fun c => negb (c =? 58) && negb (is_wsp c)) n = true -> split_at_colon (n ++ 58 :: r) = (n, r).
Proof.
  induction n as [|c n IH]; intros Hn; [reflexivity|]. cbn in Hn. apply andb_prop in Hn. destruct Hn as [Hc Hn]. apply andb_prop in Hc. destruct Hc as [Hc _].
  apply negb_true_iff in Hc. cbn [app split_at_colon]. rewrite Hc, (IH Hn). reflexivity.
Qed.

Definition nocrb (l : bytes) : bool := forallb (fun c => negb (c =? CR)) l.
Lemma unfold_all_nocr a : forall b, nocrb a = true -> unfold_all (a ++ b) = a ++ unfold_all b.
Proof.
  induction a as [|c a IH]; intros b Ha; [reflexivity|]. cbn in Ha. apply andb_prop in Ha. destruct Ha as [Hc Ha]. apply negb_true_iff in Hc.
  cbn [app unfold_all]. rewrite Hc. cbn [andb]. rewrite IH by exact Ha. reflexivity.
Qed.
Lemma unfold_all_crlf b : unfold_all (CRLF ++ b) = unfold_all b.
Proof. reflexivity. Qed.
Lemma wsrun_nocr ws : wsrun ws = true -> nocrb ws = true.
Proof.
  unfold wsrun, nocrb. induction ws as [|a ws IH]; cbn; [auto|]. intros H0. apply andb_prop in H0. destruct H0 as [Hc Hw]. rewrite (IH Hw), andb_true_r.
  apply negb_true_iff. destruct (a =? CR) eqn:E; [apply N.eqb_eq in E; subst a; discriminate|reflexivity].
Qed.

Lemma wchars_nocr w : wchars w = true -> nocrb w = true.
Proof.
  unfold wchars, nocrb. induction w as [|a w IH]; cbn; [auto|]. intros H0. apply andb_prop in H0. destruct H0 as [Hc Hw]. rewrite (IH Hw), andb_true_r.
  apply andb_prop in Hc. apply Hc.
Qed.
Lemma nocrb_app a b : nocrb (a ++ b) = nocrb a && nocrb b.
Proof. apply forallb_app. Qed.

Lemma unfold_mid rest : rest_ok rest -> forall tail, unfold_all (mid_text rest ++ tail) = mid_unfolded rest ++ unfold_all tail.
Proof.
  induction rest as [|[g w] rest IH]; intros Hr tail; [reflexivity|]. inversion Hr as [|? ? [Hg [_ Hw]] Hr']; subst. cbn [fst snd] in *.
  cbn [mid_text mid_unfolded flat_map fst snd]. fold (mid_text rest). fold (mid_unfolded rest). rewrite <- ?app_assoc.
  destruct g as [ws|a b]; cbn [gap_text gap_unfolded gap_ok] in *.
  - destruct Hg as [_ Hws]. rewrite unfold_all_nocr by (apply wsrun_nocr; exact Hws). rewrite unfold_all_nocr by (apply wchars_nocr; exact Hw). rewrite IH by exact Hr'. reflexivity.
  - destruct Hg as (Ha & Hb & _). rewrite <- ?app_assoc. rewrite unfold_all_nocr by (apply wsrun_nocr; exact Ha). rewrite unfold_all_crlf.
    rewrite unfold_all_nocr by (apply wsrun_nocr; exact Hb). rewrite unfold_all_nocr by (apply wchars_nocr; exact Hw). rewrite IH by exact Hr'. reflexivity.
Qed.

Lemma compress_word w : forall pw x, wchars w = true -> w <> [] -> compress pw (w ++ x) = w ++ compress false x.
Proof.
  induction w as [|c w IH]; intros pw x Hw Hne; [contradiction|]. cbn in Hw. apply andb_prop in Hw. destruct Hw as [Hc Hw]. apply andb_prop in Hc. destruct Hc as [Hc _].
  apply negb_true_iff in Hc. cbn [app compress]. change (Spec.Dkim.wsp c) with (is_wsp c). rewrite Hc. f_equal.
  destruct w as [|d w']; [reflexivity|]. apply IH; [exact Hw|discriminate].
Qed.
Lemma compress_ws_true ws : forall x, wsrun ws = true -> compress true (ws ++ x) = compress true x.
Proof.
  induction ws as [|c ws IH]; intros x Hw; [reflexivity|]. cbn in Hw. apply andb_prop in Hw. destruct Hw as [Hc Hw]. cbn [app compress].
  change (Spec.Dkim.wsp c) with (is_wsp c). rewrite Hc. apply IH. exact Hw.
Qed.
Lemma compress_ws_false ws x : wsrun ws = true -> ws <> [] -> compress false (ws ++ x) = SP :: compress true x.
Proof.
  intros Hw Hne. destruct ws as [|c ws]; [contradiction|]. cbn in Hw. apply andb_prop in Hw. destruct Hw as [Hc Hw]. cbn [app compress].
  change (Spec.Dkim.wsp c) with (is_wsp c). rewrite Hc. f_equal. apply compress_ws_true. exact Hw.
Qed.
Lemma compress_true_nonws c x : is_wsp c = false -> compress true (c :: x) = compress false (c :: x).
Proof. intros H0. cbn [compress]. change (Spec.Dkim.wsp c) with (is_wsp c). rewrite H0. reflexivity. Qed.

Lemma gap_unfolded_ws g : gap_ok g -> wsrun (gap_unfolded g) = true /\ gap_unfolded g <> [].
Proof.
  destruct g as [ws|a b]; cbn [gap_ok gap_unfolded].
  - intros [A B]. split; assumption.
  - intros (A & B & C). split; [rewrite wsrun_app, A, B; reflexivity|]. intros E. apply app_eq_nil in E. destruct E as [_ E]. contradiction.
Qed.

Lemma compress_mid rest : rest_ok rest -> forall x, compress false (mid_unfolded rest ++ x) = mid_canon rest ++ compress false x.
Proof.
  induction rest as [|[g w] rest IH]; intros Hr x; [reflexivity|]. inversion Hr as [|? ? [Hg Hw] Hr']; subst. cbn [fst snd] in *.
  cbn [mid_unfolded mid_canon flat_map fst snd]. fold (mid_unfolded rest). fold (mid_canon rest). rewrite <- ?app_assoc.
  destruct (gap_unfolded_ws g Hg) as [G1 G2]. rewrite compress_ws_false by assumption.
  rewrite compress_word; [|apply Hw|apply Hw]. rewrite IH by exact Hr'. cbn [app]. rewrite <- ?app_assoc. reflexivity.
Qed.

Lemma compress_ws_only e : wsrun e = true -> wsrun (compress false e) = true.
Proof.
  intros H0. destruct e as [|c e']; [reflexivity|]. rewrite <- (app_nil_r (c :: e')). rewrite compress_ws_false; [|exact H0|discriminate]. reflexivity.
Qed.

Lemma drop_wsp_run ws x : wsrun ws = true -> match x with [] => True | c :: _ => is_wsp c = false end -> drop_wsp (ws ++ x) = x.
Proof.
  intros Hw Hx. induction ws as [|c ws IH].
  - destruct x as [|c r]; [reflexivity|]. cbn [app drop_wsp]. change (Spec.Dkim.wsp c) with (is_wsp c). rewrite Hx. reflexivity.
  - cbn in Hw. apply andb_prop in Hw. destruct Hw as [Hc Hw]. cbn [app drop_wsp]. change (Spec.Dkim.wsp c) with (is_wsp c). rewrite Hc. apply IH. exact Hw.
Qed.
Lemma wsrun_rev ws : wsrun ws = true -> wsrun (rev ws) = true.
Proof.
  intros H0. unfold wsrun in *. apply forallb_forall. intros x Hx. apply in_rev in Hx. exact (proj1 (forallb_forall _ _) H0 x Hx).
Qed.
Lemma rstrip_tail X t : wsrun t = true -> match rev X with [] => True | c :: _ => is_wsp c = false end -> rstrip (X ++ t) = X.
Proof.
  intros Ht HX. unfold rstrip. rewrite rev_app_distr. rewrite drop_wsp_run; [apply rev_involutive|apply wsrun_rev; exact Ht|exact HX].
Qed.

Lemma last_nonws rest : forall w1, word_ok w1 -> rest_ok rest ->
  match rev (w1 ++ mid_canon rest) with [] => True | c :: _ => is_wsp c = false end.
Proof.
  induction rest as [|[g w] rest IH]; intros w1 H1 Hr.
  - cbn [mid_canon flat_map]. rewrite app_nil_r. destruct H1 as [Hne Hw]. destruct (rev w1) as [|c t] eqn:E; [exact I|].
    assert (In c w1) by (apply in_rev; rewrite E; left; reflexivity). pose proof (proj1 (forallb_forall _ _) Hw c H0) as P. apply andb_prop in P. apply negb_true_iff. apply P.
  - inversion Hr as [|? ? [_ Hw] Hr']; subst. cbn [fst snd] in *. cbn [mid_canon flat_map snd]. fold (mid_canon rest).
    replace (w1 ++ (SP :: w) ++ mid_canon rest) with ((w1 ++ [SP]) ++ w ++ mid_canon rest) by (rewrite <- ?app_assoc; reflexivity).
    rewrite rev_app_distr. specialize (IH w Hw Hr'). destruct (rev (w ++ mid_canon rest)) as [|c t] eqn:E; [|exact IH].
    exfalso. apply (f_equal (@rev N)) in E. rewrite rev_involutive in E. cbn in E. destruct Hw as [Hne _]. destruct w; [contradiction|discriminate].
Qed.

Lemma all_nonws_last n : forallb (fun c => negb (c =? 58) && negb (is_wsp c)) n = true ->
  match rev n with [] => True | c :: _ => is_wsp c = false end.
Proof.
  intros Hn. destruct (rev n) as [|c t] eqn:E; [exact I|].
  assert (Hin : In c n) by (apply in_rev; rewrite E; left; reflexivity).
  pose proof (proj1 (forallb_forall _ _) Hn c Hin) as P. apply andb_prop in P. apply negb_true_iff. apply P.
Qed.

Lemma rstrip_name n : forallb (fun c => negb (c =? 58) && negb (is_wsp c)) n = true -> rstrip n = n.
Proof.
  intros Hn. rewrite <- (app_nil_r n) at 1. apply rstrip_tail; [reflexivity|apply all_nonws_last; exact Hn].
Qed.

(* leading white space of the value: compressed to at most one SP, which drop_wsp then removes *)
Definition lead_sp (lead : bytes) : bytes := match lead with [] => [] | _ => [SP] end.
Lemma compress_lead lead c y : wsrun lead = true -> is_wsp c = false ->
  compress false (lead ++ c :: y) = lead_sp lead ++ compress false (c :: y).
Proof.
  intros Hl Hc. destruct lead as [|a l]; [reflexivity|].
  rewrite compress_ws_false; [|exact Hl|discriminate]. rewrite compress_true_nonws by exact Hc. reflexivity.
Qed.
Lemma compress_lead_word lead w y : wsrun lead = true -> w <> [] -> wchars w = true ->
  compress false (lead ++ w ++ y) = lead_sp lead ++ w ++ compress false y.
Proof.
  intros Hl Hne Hw. destruct lead as [|a l]; [cbn [app lead_sp]; apply compress_word; assumption|].
  rewrite compress_ws_false; [|exact Hl|discriminate]. rewrite compress_word by assumption. reflexivity.
Qed.
Lemma lead_sp_ws lead : wsrun (lead_sp lead) = true.
Proof. destruct lead; reflexivity. Qed.

Lemma spec_value_words lead w1 rest e : wsrun lead = true -> word_ok w1 -> rest_ok rest -> wsrun e = true ->
  drop_wsp (rstrip (compress false (unfold_all (lead ++ (w1 ++ mid_text rest ++ e) ++ CRLF)))) = w1 ++ mid_canon rest.
Proof.
  intros Hl H1 Hr He. destruct (word_head w1 H1) as (c & t & E & Hc & _).
  rewrite unfold_all_nocr by (apply wsrun_nocr; exact Hl). rewrite <- ?app_assoc.
  rewrite unfold_all_nocr by (apply wchars_nocr; apply H1). rewrite unfold_mid by exact Hr.
  rewrite unfold_all_nocr by (apply wsrun_nocr; exact He). change (unfold_all CRLF) with (@nil N). rewrite app_nil_r.
  assert (C : compress false (lead ++ w1 ++ mid_unfolded rest ++ e) = lead_sp lead ++ (w1 ++ mid_canon rest) ++ compress false e).
  { rewrite compress_lead_word; [|exact Hl|apply H1|apply H1]. rewrite compress_mid by exact Hr. rewrite <- ?app_assoc. reflexivity. }
  rewrite C. rewrite app_assoc. rewrite rstrip_tail; [| apply compress_ws_only; exact He |].
  - apply drop_wsp_run; [apply lead_sp_ws|]. rewrite E. cbn [app]. exact Hc.
  - rewrite rev_app_distr. pose proof (last_nonws rest w1 H1 Hr) as L.
    destruct (rev (w1 ++ mid_canon rest)) as [|d u] eqn:R; [|exact L].
    exfalso. apply (f_equal (@rev N)) in R. rewrite rev_involutive in R. cbn in R. rewrite E in R. discriminate.
Qed.

Lemma spec_value_empty lead : wsrun lead = true ->
  drop_wsp (rstrip (compress false (unfold_all (lead ++ [] ++ CRLF)))) = [].
Proof.
  intros Hl. cbn [app]. rewrite unfold_all_nocr by (apply wsrun_nocr; exact Hl). change (unfold_all CRLF) with (@nil N). rewrite app_nil_r.
  pose proof (compress_ws_only lead Hl) as W. rewrite <- (app_nil_l (compress false lead)).
  rewrite rstrip_tail; [reflexivity|exact W|exact I].
Qed.

(* RFC 6376 3.4.2 applied to one field of that shape *)
Lemma spec_field f : sf_ok f -> map to_lower (sf_name f) = sf_name f -> spec_field_relaxed (sf_text f) = sf_canon f.
Proof.
  intros ((Hnn & Hn & Hcr) & Hl & Hb) Hlow. unfold spec_field_relaxed, sf_text, sf_canon.
  rewrite split_at_colon_name by exact Hn. rewrite Hlow. rewrite rstrip_name by exact Hn. f_equal. cbn [app]. f_equal.
  destruct (sf_body f) as [|w1 rest e]; cbn [body_text body_canon body_ok] in *.
  - rewrite spec_value_empty by exact Hl. reflexivity.
  - destruct Hb as (H1 & Hr & He). rewrite spec_value_words by assumption. rewrite <- ?app_assoc. reflexivity.
Qed.

(* the pass of dkim.rs over the serialized signed fields is RFC 6376 3.4.2 applied to each of them *)
Definition sf_lower (f : sfield) : Prop := map to_lower (sf_name f) = sf_name f.
Theorem relaxed_headers_rfc fs : Forall sf_ok fs -> Forall sf_lower fs ->
  canon_headers_relaxed (flat_map sf_text fs) = flat_map (fun f => spec_field_relaxed (sf_text f)) fs.
Proof.
  intros F L. change (canon_headers_relaxed (flat_map sf_text fs)) with (H false (flat_map sf_text fs)).
  rewrite H_fields by exact F. induction fs as [|f fs IH]; [reflexivity|].
  inversion F; inversion L; subst. cbn [flat_map]. rewrite spec_field by assumption. f_equal. apply IH; assumption.
Qed.
