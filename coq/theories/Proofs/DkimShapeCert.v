(* C13: a checkable certificate that a given serialized header block has the field shape assumed by
   relaxed_headers_rfc.  `certify ser = true` is decided by computation (in the extracted model, on the header
   block of every generated case); certify_sound turns it into the conclusion of the theorem for that block.
   The parser below is not proved correct and need not be: its result is re-checked (sf_okb, sf_lowerb, and the
   parsed fields written back give the input octet for octet). *)
From Coq Require Import Strings.String.
From LV Require Import Base.Bytes Base.Str Base.Res Model.HeaderEnc Model.Headers Model.Dkim Spec.Rfc5322 Spec.Dkim
  Proofs.Rfc2047DecProofs Proofs.DkimHeaderProofs.
From Coq Require Import Lia Arith PeanoNat.
Local Arguments N.eqb : simpl never.

Fixpoint span (p : N -> bool) (l : bytes) : bytes * bytes :=
  match l with
  | c :: r => if p c then let (a, b) := span p r in (c :: a, b) else ([], l)
  | [] => ([], [])
  end.
Definition wordch (c : N) : bool := negb (is_wsp c) && negb (c =? CR).
Definition is_nil (l : bytes) : bool := match l with [] => true | _ => false end.
Definition at_crlf (l : bytes) : option bytes :=
  match l with c :: d :: r => if (c =? CR) && (d =? LF) then Some r else None | _ => None end.

(* after a word: gaps and words up to the CRLF that ends the field *)
Fixpoint p_rest (fuel : nat) (l : bytes) : option (list (gap * bytes) * bytes * bytes) :=
  match fuel with
  | O => None
  | S f =>
    let (a, r) := span is_wsp l in
    match at_crlf r with
    | Some r2 =>
      let (b, r3) := span is_wsp r2 in
      if is_nil b then Some ([], a, r2)
      else
        let (w, r4) := span wordch r3 in
        if is_nil w then None
        else match p_rest f r4 with Some (rest, e, rem) => Some ((GFold a b, w) :: rest, e, rem) | None => None end
    | None =>
      if is_nil a then None
      else
        let (w, r4) := span wordch r in
        if is_nil w then None
        else match p_rest f r4 with Some (rest, e, rem) => Some ((GPlain a, w) :: rest, e, rem) | None => None end
    end
  end.

Definition p_field (l : bytes) : option (sfield * bytes) :=
  let (n, r) := span (fun c => negb (c =? 58)) l in
  match r with
  | _ :: r1 =>
    let (lead, r2) := span is_wsp r1 in
    let (w1, r3) := span wordch r2 in
    if is_nil w1 then
      match at_crlf r2 with
      | Some rem => Some (mkSF n lead BEmpty, rem)
      | None => None
      end
    else
      match p_rest (S (length r3)) r3 with
      | Some (rest, e, rem) => Some (mkSF n lead (BWords w1 rest e), rem)
      | None => None
      end
  | [] => None
  end.

Fixpoint p_fields (fuel : nat) (l : bytes) : option (list sfield) :=
  match fuel with
  | O => None
  | S f =>
    if is_nil l then Some []
    else match p_field l with
         | Some (fd, rem) => match p_fields f rem with Some fs => Some (fd :: fs) | None => None end
         | None => None
         end
  end.

(* the boolean forms of the hypotheses of relaxed_headers_rfc *)
Definition word_okb (w : bytes) : bool := negb (is_nil w) && wchars w.
Definition gap_okb (g : gap) : bool :=
  match g with GPlain ws => negb (is_nil ws) && wsrun ws | GFold a b => wsrun a && wsrun b && negb (is_nil b) end.
Definition rest_okb (rest : list (gap * bytes)) : bool := forallb (fun p => gap_okb (fst p) && word_okb (snd p)) rest.
Definition body_okb (b : body) : bool :=
  match b with BEmpty => true | BWords w1 rest e => word_okb w1 && rest_okb rest && wsrun e end.
Definition name_okb (n : bytes) : bool :=
  negb (is_nil n) && forallb (fun c => negb (c =? 58) && negb (is_wsp c)) n && forallb (fun c => negb (c =? CR)) n.
Definition sf_okb (f : sfield) : bool := name_okb (sf_name f) && wsrun (sf_lead f) && body_okb (sf_body f).
Definition sf_lowerb (f : sfield) : bool := list_eqb (map to_lower (sf_name f)) (sf_name f).

Definition certify (ser : bytes) : bool :=
  match p_fields (S (length ser)) ser with
  | Some fs => forallb sf_okb fs && forallb sf_lowerb fs && list_eqb (flat_map sf_text fs) ser
  | None => false
  end.

Lemma not_nil l : negb (is_nil l) = true -> l <> [].
Proof. destruct l; [discriminate|discriminate]. Qed.

Lemma word_okb_sound w : word_okb w = true -> word_ok w.
Proof. unfold word_okb. intros H0. apply andb_prop in H0. destruct H0 as [A B]. split; [apply not_nil; exact A|exact B]. Qed.

Lemma gap_okb_sound g : gap_okb g = true -> gap_ok g.
Proof.
  destruct g as [ws|a b]; cbn [gap_okb gap_ok]; intros H0.
  - apply andb_prop in H0. destruct H0 as [A B]. split; [apply not_nil; exact A|exact B].
  - apply andb_prop in H0. destruct H0 as [H0 C]. apply andb_prop in H0. destruct H0 as [A B].
    split; [exact A|split; [exact B|apply not_nil; exact C]].
Qed.

Lemma rest_okb_sound rest : rest_okb rest = true -> rest_ok rest.
Proof.
  unfold rest_okb, rest_ok. intros H0. apply Forall_forall. intros p Hp.
  pose proof (proj1 (forallb_forall _ _) H0 p Hp) as P. apply andb_prop in P. destruct P as [A B].
  split; [apply gap_okb_sound; exact A|apply word_okb_sound; exact B].
Qed.

Lemma sf_okb_sound f : sf_okb f = true -> sf_ok f.
Proof.
  unfold sf_okb, sf_ok. intros H0. apply andb_prop in H0. destruct H0 as [H0 C]. apply andb_prop in H0. destruct H0 as [A B].
  split; [|split; [exact B|]].
  - unfold name_okb in A. apply andb_prop in A. destruct A as [A A3]. apply andb_prop in A. destruct A as [A1 A2].
    split; [apply not_nil; exact A1|split; [exact A2|exact A3]].
  - destruct (sf_body f) as [|w1 rest e]; cbn [body_okb body_ok] in *; [exact I|].
    apply andb_prop in C. destruct C as [C C3]. apply andb_prop in C. destruct C as [C1 C2].
    split; [apply word_okb_sound; exact C1|split; [apply rest_okb_sound; exact C2|exact C3]].
Qed.

(* a certified block: it is the concatenation of fields of the assumed shape, and the one-pass canonicalization of
   dkim.rs gives RFC 6376 3.4.2 of each of them *)
Theorem certify_sound ser : certify ser = true ->
  exists fs, ser = flat_map sf_text fs /\
             canon_headers_relaxed ser = flat_map (fun f => spec_field_relaxed (sf_text f)) fs.
Proof.
  unfold certify. destruct (p_fields (S (length ser)) ser) as [fs|]; [|discriminate]. intros H0.
  apply andb_prop in H0. destruct H0 as [H0 E]. apply andb_prop in H0. destruct H0 as [A B].
  apply list_eqb_eq in E. exists fs. split; [symmetry; exact E|]. rewrite <- E.
  apply relaxed_headers_rfc.
  - apply Forall_forall. intros f Hf. apply sf_okb_sound. exact (proj1 (forallb_forall _ _) A f Hf).
  - apply Forall_forall. intros f Hf. unfold sf_lower. apply list_eqb_eq. exact (proj1 (forallb_forall _ _) B f Hf).
Qed.

(* the certificate accepts what the header encoder typically writes *)
Example certify_example :
  certify (bs "from: a@x.example" ++ CRLF ++ bs "subject: hello" ++ CRLF ++ bs " folded  word " ++ CRLF ++ bs "x-empty:" ++ CRLF) = true /\
  certify (bs "subject:" ++ CRLF ++ bs " after-colon-fold" ++ CRLF) = false /\
  certify (bs "Subject: upper" ++ CRLF) = false.
Proof. vm_compute. repeat split. Qed.
