(* C04: whatever hello name the caller configures, every unit written while connecting is one line.  A name that
   holds CR or LF is refused (ClientId::check) and nothing but QUIT is written. *)
From Coq Require Import Strings.String.
From LV Require Import Base.Bytes Base.Str Base.Utf8 Base.Res Base.Base64
  Model.Codec Model.Response Model.ServerInfo Model.Auth Model.Client Model.Tls Proofs.ClientProofs Proofs.TlsProofs.
From Coq Require Import Lia.

Definition one_line (u : unit_ev) : Prop :=
  exists body, u = ULine (body ++ CRLF) /\ ~ In CR body /\ ~ In LF body.

Lemma hello_ok_true hello : hello_ok hello = true -> ~ In CR hello /\ ~ In LF hello.
Proof.
  unfold hello_ok. intros H. apply Bool.negb_true_iff in H.
  split; intros I.
  - assert (E : existsb (fun b => N.eqb b 13 || N.eqb b 10)%bool hello = true).
    { apply existsb_exists. exists CR. split; [exact I|reflexivity]. }
    congruence.
  - assert (E : existsb (fun b => N.eqb b 13 || N.eqb b 10)%bool hello = true).
    { apply existsb_exists. exists LF. split; [exact I|reflexivity]. }
    congruence.
Qed.

Lemma not_in_lit (t : bytes) (c : N) (l : bytes) : ~ In c t -> ~ In c l -> ~ In c (t ++ l).
Proof. intros A B I. apply in_app_or in I. tauto. Qed.

Lemma allowed_one_line hello u : hello_ok hello = true -> allowed hello u -> one_line u.
Proof.
  intros H [E|[E|E]]; subst u.
  - destruct (hello_ok_true hello H) as [Hc Hl]. exists (bs "EHLO " ++ hello). split.
    + unfold EHLO_LINE. rewrite <- app_assoc. reflexivity.
    + split; apply not_in_lit; try assumption; cbn; intros I;
        repeat (destruct I as [I|I]; [discriminate|]); contradiction.
  - exists (bs "STARTTLS"). split; [reflexivity|].
    split; cbn; intros I; repeat (destruct I as [I|I]; [discriminate|]); contradiction.
  - exists (bs "QUIT"). split; [reflexivity|].
    split; cbn; intros I; repeat (destruct I as [I|I]; [discriminate|]); contradiction.
Qed.

Lemma quit_one_line : one_line (ULine QUIT).
Proof.
  exists (bs "QUIT"). split; [reflexivity|].
  split; cbn; intros I; repeat (destruct I as [I|I]; [discriminate|]); contradiction.
Qed.

(* a refused hello name: the session fails with a client error and at most QUIT is written *)
Lemma ehlo_refused hello s : hello_ok hello = false ->
  exists e, fst (ehlo hello s) = Err e /\ new_units s (snd (ehlo hello s)) (quit_tail s).
Proof.
  intros H. unfold ehlo. rewrite H. eexists. split; [reflexivity|].
  cbn [snd]. apply (abort_units s).
Qed.

Lemma connect_refused hello sc : hello_ok hello = false ->
  (exists e, fst (connect hello sc) = Err e) /\
  Forall (fun u => u = ULine QUIT) (ulog (snd (connect hello sc))).
Proof.
  intros H. unfold connect. destruct (open_ctl sc) as (O1 & O2 & O3).
  destruct (read_response_ctl (open sc)) as (_ & C2 & _ & C4 & _ & C6).
  destruct (read_response (open sc)) as [[r|e|] s1] eqn:R; cbn [fst snd] in *.
  - destruct (ehlo_refused hello s1 H) as (e & E1 & E2). split; [exists e; exact E1|].
    unfold new_units in E2. rewrite E2, C6, O3, app_nil_r. apply Forall_rev.
    unfold quit_tail. destruct (panic s1); [constructor|]. destruct (shut s1); repeat constructor.
  - split; [exists e; reflexivity|]. rewrite C6, O3. constructor.
  - exfalso. pose proof (read_response_verdict (open sc)) as V. rewrite R in V. exact V.
Qed.

(* every unit written by connect is one line, for every hello name and every peer *)
Theorem connect_one_line hello sc : Forall one_line (ulog (snd (connect hello sc))).
Proof.
  destruct (hello_ok hello) eqn:H.
  - destruct (connect_units hello sc) as [A _].
    eapply Forall_impl; [|exact A]. intros u. apply allowed_one_line. exact H.
  - destruct (connect_refused hello sc H) as [_ A].
    eapply Forall_impl; [|exact A]. intros u E. cbn beta in E. rewrite E. exact quit_one_line.
Qed.
