(* Well-formed UTF-8 cut at a character boundary gives two well-formed halves (and conversely). *)
From Coq Require Import Lia ZifyBool ZifyN Arith PeanoNat List.
Import ListNotations.
From LV Require Import Base.Bytes Base.Utf8 Model.HeaderEnc.
Local Arguments N.ltb : simpl never.
Local Arguments N.leb : simpl never.
Local Arguments N.eqb : simpl never.

(* one step of the validity check, as an equation *)
Lemma uv_S f b0 r : utf8_valid_fuel (S f) (b0 :: r) =
      if b0 <? 128 then utf8_valid_fuel f r
      else if (194 <=? b0) && (b0 <=? 223) then
        match r with b1 :: r' => is_cont b1 && utf8_valid_fuel f r' | _ => false end
      else if b0 =? 224 then
        match r with b1 :: b2 :: r' => (160 <=? b1) && (b1 <=? 191) && is_cont b2 && utf8_valid_fuel f r' | _ => false end
      else if ((225 <=? b0) && (b0 <=? 236)) || (b0 =? 238) || (b0 =? 239) then
        match r with b1 :: b2 :: r' => is_cont b1 && is_cont b2 && utf8_valid_fuel f r' | _ => false end
      else if b0 =? 237 then
        match r with b1 :: b2 :: r' => (128 <=? b1) && (b1 <=? 159) && is_cont b2 && utf8_valid_fuel f r' | _ => false end
      else if b0 =? 240 then
        match r with b1 :: b2 :: b3 :: r' => (144 <=? b1) && (b1 <=? 191) && is_cont b2 && is_cont b3 && utf8_valid_fuel f r' | _ => false end
      else if (241 <=? b0) && (b0 <=? 243) then
        match r with b1 :: b2 :: b3 :: r' => is_cont b1 && is_cont b2 && is_cont b3 && utf8_valid_fuel f r' | _ => false end
      else if b0 =? 244 then
        match r with b1 :: b2 :: b3 :: r' => (128 <=? b1) && (b1 <=? 143) && is_cont b2 && is_cont b3 && utf8_valid_fuel f r' | _ => false end
      else false.
Proof. reflexivity. Qed.

(* a well-formed text begins with a character of 1..4 octets whose tail octets are continuation octets; what follows
   the character is well formed, and the character may be put in front of any other well-formed text *)
Definition tail_cont (c : bytes) : Prop := Forall (fun b => is_cont b = true) (tl c).
Lemma uv_head f b0 r : utf8_valid_fuel (S f) (b0 :: r) = true ->
  exists c rest, b0 :: r = c ++ rest /\ (1 <= length c <= 4)%nat /\ is_cont b0 = false /\ tail_cont c /\
    utf8_valid_fuel f rest = true /\
    (forall g x, utf8_valid_fuel g x = true -> utf8_valid_fuel (S g) (c ++ x) = true) /\
    length c = first_char_len b0.
Proof.
  rewrite uv_S. intros H.
  assert (FL : forall n : nat, (if (b0 <? 128)%N then 1%nat else if (b0 <? 224)%N then 2%nat else if (b0 <? 240)%N then 3%nat else 4%nat) = n -> first_char_len b0 = n) by (intros n <-; reflexivity).
  destruct (b0 <? 128) eqn:E1.
  { exists [b0], r. repeat split; try (cbn; lia); try exact H; [unfold is_cont; lia|constructor| |].
    - intros g x Hx. cbn [app]. rewrite uv_S, E1. exact Hx.
    - symmetry; apply FL; destruct (b0 <? 128) eqn:?, (b0 <? 224) eqn:?, (b0 <? 240) eqn:?; cbn [length]; lia. }
  destruct ((194 <=? b0) && (b0 <=? 223)) eqn:E2.
  { destruct r as [|b1 r']; [discriminate|]. apply andb_prop in H. destruct H as [C1 H].
    exists [b0; b1], r'. repeat split; try (cbn; lia); try exact H; [unfold is_cont; lia|repeat constructor; first [assumption|unfold is_cont; lia]| |].
    - intros g x Hx. cbn [app]. rewrite uv_S, E1, E2, C1. exact Hx.
    - symmetry; apply FL; destruct (b0 <? 128) eqn:?, (b0 <? 224) eqn:?, (b0 <? 240) eqn:?; cbn [length]; lia. }
  destruct (b0 =? 224) eqn:E3.
  { destruct r as [|b1 [|b2 r']]; try discriminate. repeat (apply andb_prop in H; destruct H as [H ?]).
    exists [b0; b1; b2], r'. repeat split; try (cbn; lia); try assumption; [unfold is_cont; lia|repeat constructor; first [assumption|unfold is_cont; lia]| |].
    - intros g x Hx. cbn [app]. rewrite uv_S, E1, E2, E3. repeat (apply andb_true_intro; split); first [assumption | unfold is_cont in *; lia].
    - symmetry; apply FL; destruct (b0 <? 128) eqn:?, (b0 <? 224) eqn:?, (b0 <? 240) eqn:?; cbn [length]; lia. }
  destruct (((225 <=? b0) && (b0 <=? 236)) || (b0 =? 238) || (b0 =? 239)) eqn:E4.
  { destruct r as [|b1 [|b2 r']]; try discriminate. repeat (apply andb_prop in H; destruct H as [H ?]).
    exists [b0; b1; b2], r'. repeat split; try (cbn; lia); try assumption; [unfold is_cont; lia|repeat constructor; first [assumption|unfold is_cont; lia]| |].
    - intros g x Hx. cbn [app]. rewrite uv_S, E1, E2, E3, E4. repeat (apply andb_true_intro; split); first [assumption | unfold is_cont in *; lia].
    - symmetry; apply FL; destruct (b0 <? 128) eqn:?, (b0 <? 224) eqn:?, (b0 <? 240) eqn:?; cbn [length]; lia. }
  destruct (b0 =? 237) eqn:E5.
  { destruct r as [|b1 [|b2 r']]; try discriminate. repeat (apply andb_prop in H; destruct H as [H ?]).
    exists [b0; b1; b2], r'. repeat split; try (cbn; lia); try assumption; [unfold is_cont; lia|repeat constructor; first [assumption|unfold is_cont; lia]| |].
    - intros g x Hx. cbn [app]. rewrite uv_S, E1, E2, E3, E4, E5. repeat (apply andb_true_intro; split); first [assumption | unfold is_cont in *; lia].
    - symmetry; apply FL; destruct (b0 <? 128) eqn:?, (b0 <? 224) eqn:?, (b0 <? 240) eqn:?; cbn [length]; lia. }
  destruct (b0 =? 240) eqn:E6.
  { destruct r as [|b1 [|b2 [|b3 r']]]; try discriminate. repeat (apply andb_prop in H; destruct H as [H ?]).
    exists [b0; b1; b2; b3], r'. repeat split; try (cbn; lia); try assumption; [unfold is_cont; lia|repeat constructor; first [assumption|unfold is_cont; lia]| |].
    - intros g x Hx. cbn [app]. rewrite uv_S, E1, E2, E3, E4, E5, E6. repeat (apply andb_true_intro; split); first [assumption | unfold is_cont in *; lia].
    - symmetry; apply FL; destruct (b0 <? 128) eqn:?, (b0 <? 224) eqn:?, (b0 <? 240) eqn:?; cbn [length]; lia. }
  destruct ((241 <=? b0) && (b0 <=? 243)) eqn:E7.
  { destruct r as [|b1 [|b2 [|b3 r']]]; try discriminate. repeat (apply andb_prop in H; destruct H as [H ?]).
    exists [b0; b1; b2; b3], r'. repeat split; try (cbn; lia); try assumption; [unfold is_cont; lia|repeat constructor; first [assumption|unfold is_cont; lia]| |].
    - intros g x Hx. cbn [app]. rewrite uv_S, E1, E2, E3, E4, E5, E6, E7. repeat (apply andb_true_intro; split); first [assumption | unfold is_cont in *; lia].
    - symmetry; apply FL; destruct (b0 <? 128) eqn:?, (b0 <? 224) eqn:?, (b0 <? 240) eqn:?; cbn [length]; lia. }
  destruct (b0 =? 244) eqn:E8; [|discriminate].
  { destruct r as [|b1 [|b2 [|b3 r']]]; try discriminate. repeat (apply andb_prop in H; destruct H as [H ?]).
    exists [b0; b1; b2; b3], r'. repeat split; try (cbn; lia); try assumption; [unfold is_cont; lia|repeat constructor; first [assumption|unfold is_cont; lia]| |].
    - intros g x Hx. cbn [app]. rewrite uv_S, E1, E2, E3, E4, E5, E6, E7, E8. repeat (apply andb_true_intro; split); first [assumption | unfold is_cont in *; lia].
    - symmetry; apply FL; destruct (b0 <? 128) eqn:?, (b0 <? 224) eqn:?, (b0 <? 240) eqn:?; cbn [length]; lia. }
Qed.

Lemma uv_nil g : utf8_valid_fuel g [] = true.
Proof. destruct g; reflexivity. Qed.

(* the verdict does not depend on the fuel once it exceeds the length *)
Lemma uv_fuel f : forall l, utf8_valid_fuel f l = true -> forall g, (length l < g)%nat -> utf8_valid_fuel g l = true.
Proof.
  induction f as [|f IH]; intros l H g Hg.
  - destruct l; [apply uv_nil|discriminate].
  - destruct l as [|b0 r]; [apply uv_nil|].
    destruct (uv_head f b0 r H) as (c & rest & E & Hc & _ & _ & Hr & K & _).
    destruct g as [|g]; [lia|]. rewrite E. apply K. apply (IH rest Hr).
    apply (f_equal (@length N)) in E. rewrite app_length in E. cbn [length] in *. lia.
Qed.
Lemma uv_of_valid l : utf8_valid l = true -> forall g, (length l < g)%nat -> utf8_valid_fuel g l = true.
Proof. intros H. apply (uv_fuel _ l H). Qed.
Lemma valid_of_uv f l : utf8_valid_fuel f l = true -> utf8_valid l = true.
Proof. intros H. unfold utf8_valid. apply (uv_fuel f l H). lia. Qed.

Lemma uv_app f : forall a b, utf8_valid_fuel f a = true -> utf8_valid b = true -> utf8_valid (a ++ b) = true.
Proof.
  induction f as [|f IH]; intros a b Ha Hb.
  - destruct a; [exact Hb|discriminate].
  - destruct a as [|b0 r]; [exact Hb|].
    destruct (uv_head f b0 r Ha) as (c & rest & E & Hc & _ & _ & Hr & K & _).
    rewrite E, <- app_assoc. apply (valid_of_uv (S (S (length (rest ++ b))))). apply K. apply (IH rest b Hr Hb).
Qed.

Lemma skipn_app_ge {A} k (c r : list A) : (length c <= k)%nat -> skipn k (c ++ r) = skipn (k - length c) r.
Proof.
  revert k. induction c as [|x c IH]; intros k Hk; [cbn; f_equal; lia|]. destruct k as [|k]; [cbn in Hk; lia|].
  cbn [app skipn length]. rewrite IH by (cbn in Hk; lia). f_equal.
Qed.
Lemma firstn_app_ge {A} k (c r : list A) : (length c <= k)%nat -> firstn k (c ++ r) = c ++ firstn (k - length c) r.
Proof.
  revert k. induction c as [|x c IH]; intros k Hk; [cbn; f_equal; lia|]. destruct k as [|k]; [cbn in Hk; lia|].
  cbn [app firstn length]. rewrite IH by (cbn in Hk; lia). reflexivity.
Qed.

(* a position strictly inside a character is not a boundary *)
Lemma inside_not_boundary c rest k : (1 <= length c <= 4)%nat -> tail_cont c -> (0 < k < length c)%nat ->
  is_boundary (c ++ rest) k = false.
Proof.
  intros Hl Ht Hk. unfold is_boundary, tail_cont in *.
  destruct c as [|x0 [|x1 [|x2 [|x3 [|x4 t]]]]]; cbn [length tl] in *; try lia.
  - assert (k = 1)%nat by lia. subst k. cbn. inversion Ht as [|? ? A]; subst. rewrite A. reflexivity.
  - inversion Ht as [|? ? A T1]; subst. inversion T1 as [|? ? B]; subst.
    assert (K : (k = 1 \/ k = 2)%nat) by lia. destruct K as [->| ->]; cbn; [rewrite A|rewrite B]; reflexivity.
  - inversion Ht as [|? ? A T1]; subst. inversion T1 as [|? ? B T2]; subst. inversion T2 as [|? ? C]; subst.
    assert (K : (k = 1 \/ k = 2 \/ k = 3)%nat) by lia. destruct K as [->|[->| ->]]; cbn; [rewrite A|rewrite B|rewrite C]; reflexivity.
Qed.

Lemma boundary_shift c rest k : (length c <= k)%nat -> is_boundary (c ++ rest) k = is_boundary rest (k - length c).
Proof.
  intros Hk. unfold is_boundary. rewrite skipn_app_ge by exact Hk. rewrite app_length.
  destruct (skipn (k - length c) rest); [|reflexivity].
  destruct (Nat.eqb_spec k (length c + length rest)); destruct (Nat.eqb_spec (k - length c) (length rest)); try reflexivity; lia.
Qed.

(* THE CUT: well-formed UTF-8, cut where the next octet is not a continuation octet (or at the end) *)
Theorem uv_split f : forall s k, utf8_valid_fuel f s = true -> is_boundary s k = true ->
  utf8_valid (firstn k s) = true /\ utf8_valid (skipn k s) = true.
Proof.
  induction f as [|f IH]; intros s k H Hb.
  - destruct s; [|discriminate]. rewrite firstn_nil, skipn_nil. split; reflexivity.
  - destruct s as [|b0 r]; [rewrite firstn_nil, skipn_nil; split; reflexivity|].
    destruct (uv_head f b0 r H) as (c & rest & E & Hc & _ & Ht & Hr & K & _).
    destruct (Nat.eq_dec k 0) as [->|K0].
    { cbn [firstn skipn]. split; [reflexivity|apply (valid_of_uv (S f)); exact H]. }
    rewrite E in *.
    destruct (le_lt_dec (length c) k) as [Hge|Hlt].
    + rewrite boundary_shift in Hb by exact Hge. destruct (IH rest (k - length c)%nat Hr Hb) as [A B].
      rewrite firstn_app_ge, skipn_app_ge by exact Hge. split; [|exact B].
      apply (valid_of_uv (S (S (length (firstn (k - length c)%nat rest))))). apply K. exact A.
    + rewrite inside_not_boundary in Hb; [discriminate|exact Hc|exact Ht|lia].
Qed.

Corollary utf8_cut s k : utf8_valid s = true -> is_boundary s k = true ->
  utf8_valid (firstn k s) = true /\ utf8_valid (skipn k s) = true.
Proof. apply uv_split. Qed.

(* ---------- the two ways rfc2047::encode cuts a piece ---------- *)
Lemma trunc_go_cut s : forall m, exists k, trunc_go s m = firstn k s /\ (k = 0%nat \/ is_boundary s k = true).
Proof.
  induction m as [|m IH]; [exists 0%nat; split; [reflexivity|left; reflexivity]|]. cbn [trunc_go].
  destruct (is_boundary s (S m)) eqn:E; [exists (S m); split; [reflexivity|right; exact E]|exact IH].
Qed.

Lemma boundary_le s k : is_boundary s k = true -> (k <= length s)%nat.
Proof.
  unfold is_boundary. destruct (skipn k s) as [|x t] eqn:E.
  - intros H. apply Nat.eqb_eq in H. lia.
  - intros _. destruct (le_lt_dec k (length s)) as [L|L]; [exact L|]. rewrite skipn_all2 in E by lia. discriminate.
Qed.

(* truncate_to_char_boundary: the piece and the remainder are both complete UTF-8 *)
Theorem trunc_piece_valid s m : utf8_valid s = true ->
  utf8_valid (trunc_go s m) = true /\ utf8_valid (skipn (length (trunc_go s m)) s) = true.
Proof.
  intros H. destruct (trunc_go_cut s m) as (k & E & [->|Hb]); rewrite E.
  - cbn [firstn length skipn]. split; [reflexivity|exact H].
  - pose proof (boundary_le s k Hb) as L. rewrite firstn_length, Nat.min_l by exact L. apply utf8_cut; assumption.
Qed.

(* the single character written when a line is full *)
Theorem first_char_valid b0 r : utf8_valid (b0 :: r) = true ->
  utf8_valid (firstn (first_char_len b0) (b0 :: r)) = true /\
  utf8_valid (skipn (length (firstn (first_char_len b0) (b0 :: r))) (b0 :: r)) = true.
Proof.
  intros H. unfold utf8_valid in H.
  destruct (uv_head _ b0 r H) as (c & rest & E & Hc & _ & _ & Hr & K & L).
  rewrite <- L, E. rewrite firstn_app_ge by lia. rewrite Nat.sub_diag. cbn [firstn]. rewrite app_nil_r.
  rewrite skipn_app_ge by lia. rewrite Nat.sub_diag. cbn [skipn]. split.
  - rewrite <- (app_nil_r c). apply (valid_of_uv 1). apply (K 0%nat []). reflexivity.
  - apply (valid_of_uv _ rest Hr).
Qed.

(* ---------- a stretch of a well-formed text between ASCII octets (the encoder's buffers are cut at SP only) ---------- *)
Lemma boundary_at_ascii a x m : (x <? 128) = true -> is_boundary (a ++ x :: m) (length a) = true.
Proof.
  intros Hx. unfold is_boundary. rewrite skipn_app_ge by lia. rewrite Nat.sub_diag. cbn [skipn]. unfold is_cont. lia.
Qed.
Lemma valid_tail x m : (x <? 128) = true -> utf8_valid (x :: m) = true -> utf8_valid m = true.
Proof.
  intros Hx H. unfold utf8_valid in H. rewrite uv_S, Hx in H. apply (valid_of_uv _ m H).
Qed.

Theorem utf8_segment a m b : utf8_valid (a ++ m ++ b) = true ->
  (a = [] \/ exists a' x, a = a' ++ [x] /\ (x <? 128) = true) ->
  (b = [] \/ exists x b', b = x :: b' /\ (x <? 128) = true) ->
  utf8_valid m = true.
Proof.
  intros H Ha Hb.
  (* drop what precedes *)
  assert (H1 : utf8_valid (m ++ b) = true).
  { destruct Ha as [->|(a' & x & -> & Hx)]; [exact H|].
    rewrite <- app_assoc in H. cbn [app] in H.
    pose proof (utf8_cut _ _ H (boundary_at_ascii a' x (m ++ b) Hx)) as [_ T].
    rewrite skipn_app_ge in T by lia. rewrite Nat.sub_diag in T. cbn [skipn] in T. apply (valid_tail x _ Hx T). }
  (* drop what follows *)
  destruct Hb as [->|(x & b' & -> & Hx)]; [rewrite app_nil_r in H1; exact H1|].
  pose proof (utf8_cut _ _ H1 (boundary_at_ascii m x b' Hx)) as [T _].
  rewrite firstn_app_ge in T by lia. rewrite Nat.sub_diag in T. cbn [firstn] in T. rewrite app_nil_r in T. exact T.
Qed.
