(* Mailbox: what Display writes is read back by the grammar - same address, same display name up to
   surrounding white space and the length of inner SP/TAB runs. *)
From LV Require Import Base.Bytes Base.Utf8 Base.Res Model.Address Model.Mailbox.
From Coq Require Import Lia ZArith ZifyBool ZifyN.
Local Arguments N.eqb : simpl never.
Local Arguments N.leb : simpl never.
Local Arguments N.ltb : simpl never.

(* ---------- runs ---------- *)
Definition stops (f : N -> bool) (rest : ustr) : Prop := match rest with c :: _ => f c = false | [] => True end.

Lemma take_while_app f w rest : forallb f w = true -> stops f rest -> take_while f (w ++ rest) = w.
Proof.
  induction w as [|c w IH]; cbn [app forallb take_while]; intros Hw Hs.
  - destruct rest as [|c r]; [reflexivity|]. cbn in Hs. cbn. rewrite Hs. reflexivity.
  - apply andb_prop in Hw. destruct Hw as [Hc Hw]. rewrite Hc, IH; auto.
Qed.
Lemma skip_while_app f w rest : forallb f w = true -> stops f rest -> skip_while f (w ++ rest) = rest.
Proof.
  induction w as [|c w IH]; cbn [app forallb skip_while]; intros Hw Hs.
  - destruct rest as [|c r]; [reflexivity|]. cbn in Hs. cbn. rewrite Hs. reflexivity.
  - apply andb_prop in Hw. destruct Hw as [Hc Hw]. rewrite Hc, IH; auto.
Qed.

Definition atexts (w : ustr) : Prop := w <> [] /\ forallb is_atext_cp w = true.

Lemma p_atext1_word w rest : atexts w -> stops is_atext_cp rest -> p_atext1 (w ++ rest) = Some (w, rest).
Proof.
  intros [Hne Hw] Hs. unfold p_atext1. rewrite take_while_app, skip_while_app by assumption.
  destruct w; [contradiction|reflexivity].
Qed.
Lemma p_atext1_fail rest : stops is_atext_cp rest -> p_atext1 rest = None.
Proof. intros Hs. unfold p_atext1. destruct rest as [|c r]; [reflexivity|]. cbn in Hs. cbn. rewrite Hs. reflexivity. Qed.

Lemma atext_not_wsp c : is_atext_cp c = true -> is_wsp_cp c = false.
Proof.
  unfold is_atext_cp, is_wsp_cp, is_alpha_cp, is_digit_cp, atext_specials. cbn [mem]. lia.
Qed.
Lemma atext_not_ws c : is_atext_cp c = true -> c < 128 -> is_ws_cp c = false.
Proof. unfold is_atext_cp, is_ws_cp, is_alpha_cp, is_digit_cp, atext_specials. cbn [mem]. lia. Qed.

Lemma p_fws_none c r : is_wsp_cp c = false -> p_fws (c :: r) = (None, c :: r).
Proof. intros H. cbn. rewrite H. reflexivity. Qed.

Lemma p_atom_word w rest : atexts w -> stops is_atext_cp rest -> p_atom (w ++ rest) = Some (w, rest).
Proof.
  intros Hw Hs. unfold p_atom. destruct w as [|c w'] eqn:E; [destruct Hw; contradiction|]. rewrite <- E in *.
  assert (Hc : is_wsp_cp c = false).
  { apply atext_not_wsp. destruct Hw as [_ Hw]. rewrite E in Hw. cbn in Hw. apply andb_prop in Hw. tauto. }
  rewrite E. cbn [app]. rewrite (p_fws_none c _ Hc). rewrite <- E.
  change (c :: w' ++ rest) with ((c :: w') ++ rest). rewrite <- E.
  rewrite (p_atext1_word w rest Hw Hs). reflexivity.
Qed.

(* a white-space run then a word: the atom keeps the first blank *)
Definition wsps (s : ustr) : Prop := s <> [] /\ forallb is_wsp_cp s = true.
Lemma p_fws_run s rest : wsps s -> stops is_wsp_cp rest -> p_fws (s ++ rest) = (Some (hd 0 s), rest).
Proof.
  intros [Hne Hs] Hr. destruct s as [|c s']; [contradiction|]. cbn [app p_fws hd].
  cbn in Hs. apply andb_prop in Hs. destruct Hs as [Hc Hs']. rewrite Hc.
  rewrite skip_while_app by assumption. reflexivity.
Qed.

Lemma stops_atext_word w rest : atexts w -> stops is_wsp_cp (w ++ rest).
Proof.
  intros [Hne Hw]. destruct w as [|c w']; [contradiction|]. cbn. apply atext_not_wsp.
  cbn in Hw. apply andb_prop in Hw. tauto.
Qed.

Lemma p_atom_sep_word s w rest : wsps s -> atexts w -> stops is_atext_cp rest ->
  p_atom (s ++ w ++ rest) = Some (hd 0 s :: w, rest).
Proof.
  intros Hs Hw Hr. unfold p_atom. rewrite (p_fws_run s (w ++ rest) Hs (stops_atext_word w rest Hw)).
  rewrite (p_atext1_word w rest Hw Hr). reflexivity.
Qed.

(* ---------- dot-atoms: simple local parts and domains ---------- *)
(* first ++ .x1 ++ .x2 ... with every piece a non-empty atext run *)
Definition dots (xs : list ustr) : ustr := flat_map (fun x => 46 :: x) xs.

Lemma dot_not_atext : is_atext_cp 46 = false. Proof. reflexivity. Qed.

Lemma p_dot_atexts_all xs : forall fuel rest, Forall atexts xs -> stops is_atext_cp rest ->
  (match rest with c :: r => c = 46 -> p_atext1 r = None | [] => True end) ->
  (length xs < fuel)%nat ->
  p_dot_atexts fuel (dots xs ++ rest) = (dots xs, rest, length xs).
Proof.
  induction xs as [|x xs IH]; intros fuel rest Hx Hs Hd Hf.
  - cbn [dots flat_map app length]. destruct fuel; [lia|]. cbn [p_dot_atexts].
    destruct rest as [|c r]; [reflexivity|].
    destruct (c =? 46) eqn:E; [|reflexivity]. apply N.eqb_eq in E. rewrite (Hd E). reflexivity.
  - inversion Hx; subst. destruct fuel; [cbn in Hf; lia|]. cbn [dots flat_map]. fold (dots xs).
    cbn [app p_dot_atexts]. change (46 =? 46) with true. cbn iota. rewrite <- app_assoc.
    assert (Hst : stops is_atext_cp (dots xs ++ rest)).
    { destruct xs; cbn; [exact Hs|reflexivity]. }
    rewrite (p_atext1_word x _ H1 Hst). rewrite (IH fuel rest H2 Hs Hd); [|cbn in Hf; lia].
    cbn [length]. reflexivity.
Qed.

(* a dot-atom string: a non-empty atext run followed by ".run" groups *)
Definition datom (f : ustr) (xs : list ustr) : ustr := f ++ dots xs.
Definition datom_ok (f : ustr) (xs : list ustr) : Prop := atexts f /\ Forall atexts xs.

Lemma atexts_head f : atexts f -> exists c t, f = c :: t /\ is_atext_cp c = true.
Proof. intros [Hne H]. destruct f as [|c t]; [contradiction|]. cbn in H. apply andb_prop in H. exists c, t. tauto. Qed.

Lemma atext_neq c k : is_atext_cp c = true -> is_atext_cp k = false -> (c =? k) = false.
Proof. intros A B. apply N.eqb_neq. intros ->. congruence. Qed.

Lemma dots_length xs : (length xs <= length (dots xs))%nat.
Proof. induction xs as [|x xs IH]; [cbn; lia|]. cbn [dots flat_map length]. rewrite app_length. fold (dots xs). cbn. lia. Qed.

Lemma dots_length2 xs : Forall atexts xs -> (2 * length xs <= length (dots xs))%nat.
Proof.
  induction xs as [|x xs IH]; intros H; [cbn; lia|]. inversion H; subst. cbn [dots flat_map length].
  rewrite app_length. fold (dots xs). specialize (IH H3). destruct H2 as [Hne _]. destruct x; [contradiction|]. cbn [length] in *. lia.
Qed.

(* after the string: something that is neither atext nor a dot *)
Definition ends (rest : ustr) : Prop := match rest with c :: _ => is_atext_cp c = false /\ c <> 46 | [] => True end.
Lemma ends_stops rest : ends rest -> stops is_atext_cp rest.
Proof. destruct rest; cbn; tauto. Qed.
Lemma ends_nodot rest : ends rest -> match rest with c :: r => c = 46 -> p_atext1 r = None | [] => True end.
Proof. destruct rest as [|c r]; cbn; [auto|]. intros [_ H] E. contradiction. Qed.

Lemma p_dot_atom_text_ok f xs rest : datom_ok f xs -> xs <> [] -> ends rest ->
  p_dot_atom_text (datom f xs ++ rest) = Some (datom f xs, rest).
Proof.
  intros [Hf Hx] Hne He. unfold p_dot_atom_text, datom. rewrite <- app_assoc.
  assert (Hst : stops is_atext_cp (dots xs ++ rest)) by (destruct xs; [contradiction|reflexivity]).
  rewrite (p_atext1_word f _ Hf Hst).
  rewrite (p_dot_atexts_all xs _ rest Hx (ends_stops _ He) (ends_nodot _ He)).
  - destruct xs; [contradiction|reflexivity].
  - rewrite app_length. pose proof (dots_length2 xs Hx). destruct xs; [contradiction|]. cbn [length] in *. lia.
Qed.

Lemma p_dot_atom_text_nodot f rest : atexts f -> ends rest -> p_dot_atom_text (f ++ rest) = None.
Proof.
  intros Hf He. unfold p_dot_atom_text. rewrite (p_atext1_word f rest Hf (ends_stops _ He)).
  destruct rest as [|c r]; [reflexivity|]. cbn [length p_dot_atexts].
  destruct He as [_ Hc]. replace (c =? 46) with false by (symmetry; apply N.eqb_neq; exact Hc). reflexivity.
Qed.

Lemma p_fws_word f rest : atexts f -> p_fws (f ++ rest) = (None, f ++ rest).
Proof.
  intros Hf. destruct (atexts_head f Hf) as (c & t & -> & Hc). cbn [app]. apply p_fws_none. apply atext_not_wsp. exact Hc.
Qed.

Lemma p_dot_atom_ok f xs rest : datom_ok f xs -> xs <> [] -> ends rest ->
  p_dot_atom (datom f xs ++ rest) = Some (datom f xs, rest).
Proof.
  intros H Hne He. unfold p_dot_atom. unfold datom at 1. rewrite <- app_assoc.
  rewrite (p_fws_word f _ (proj1 H)). rewrite app_assoc. fold (datom f xs).
  rewrite (p_dot_atom_text_ok f xs rest H Hne He). reflexivity.
Qed.

Lemma p_dot_atom_nodot f rest : atexts f -> ends rest -> p_dot_atom (f ++ rest) = None.
Proof.
  intros Hf He. unfold p_dot_atom. rewrite (p_fws_word f rest Hf).
  rewrite (p_dot_atom_text_nodot f rest Hf He). reflexivity.
Qed.

Lemma p_quoted_string_atext f rest : atexts f -> p_quoted_string (f ++ rest) = None.
Proof.
  intros Hf. destruct (atexts_head f Hf) as (c & t & E & Hc). rewrite E. cbn [app p_quoted_string].
  rewrite (atext_neq c 34 Hc eq_refl). reflexivity.
Qed.

Lemma p_word_atext f rest : atexts f -> stops is_atext_cp rest -> p_word (f ++ rest) = Some (f, rest).
Proof. intros Hf Hs. unfold p_word. rewrite (p_quoted_string_atext f rest Hf). apply p_atom_word; assumption. Qed.

(* local part / domain of a simple address *)
Lemma p_local_part_ok f xs rest : datom_ok f xs -> ends rest ->
  p_local_part (datom f xs ++ rest) = Some (datom f xs, rest).
Proof.
  intros H He. unfold p_local_part. destruct xs as [|x xs].
  - unfold datom. cbn [dots flat_map]. rewrite app_nil_r.
    rewrite (p_dot_atom_nodot f rest (proj1 H) He), (p_quoted_string_atext f rest (proj1 H)).
    unfold p_obs_local_part. rewrite (p_word_atext f rest (proj1 H) (ends_stops _ He)).
    destruct rest as [|c r]; [cbn; rewrite app_nil_r; reflexivity|]. cbn [length p_dot_items].
    destruct He as [_ Hc]. replace (c =? 46) with false by (symmetry; apply N.eqb_neq; exact Hc). rewrite app_nil_r. reflexivity.
  - rewrite (p_dot_atom_ok f (x :: xs) rest H); [reflexivity|discriminate|exact He].
Qed.

Lemma p_domain_ok f xs rest : datom_ok f xs -> ends rest ->
  p_domain (datom f xs ++ rest) = Some (datom f xs, rest).
Proof.
  intros H He. unfold p_domain. destruct xs as [|x xs].
  - unfold datom. cbn [dots flat_map]. rewrite app_nil_r.
    rewrite (p_dot_atom_nodot f rest (proj1 H) He).
    unfold p_obs_domain. rewrite (p_atom_word f rest (proj1 H) (ends_stops _ He)).
    destruct rest as [|c r]; [cbn; rewrite app_nil_r; reflexivity|]. cbn [length p_dot_items].
    destruct He as [_ Hc]. replace (c =? 46) with false by (symmetry; apply N.eqb_neq; exact Hc). rewrite app_nil_r. reflexivity.
  - rewrite (p_dot_atom_ok f (x :: xs) rest H); [reflexivity|discriminate|exact He].
Qed.

(* simple address  u@d *)
Record saddr := mkSA { uf : ustr; uxs : list ustr; df : ustr; dxs : list ustr }.
Definition saddr_ok (a : saddr) : Prop := datom_ok (uf a) (uxs a) /\ datom_ok (df a) (dxs a).
Definition sa_user (a : saddr) : ustr := datom (uf a) (uxs a).
Definition sa_domain (a : saddr) : ustr := datom (df a) (dxs a).
Definition sa_str (a : saddr) : ustr := sa_user a ++ [64] ++ sa_domain a.

Lemma ends_at r : ends (64 :: r).
Proof. cbn. split; [reflexivity|discriminate]. Qed.

Lemma p_addr_spec_ok a rest : saddr_ok a -> ends rest ->
  p_addr_spec (sa_str a ++ rest) = Some ((sa_user a, sa_domain a), rest).
Proof.
  intros [Hu Hd] He. unfold p_addr_spec, sa_str. rewrite <- !app_assoc. cbn [app].
  rewrite (p_local_part_ok _ _ _ Hu (ends_at _)). change (64 =? 64) with true. cbn iota.
  unfold sa_domain. rewrite (p_domain_ok _ _ _ Hd He). reflexivity.
Qed.

(* ---------- "<" addr ">" and the bare address ---------- *)
Definition TAIL_OK (tail : ustr) : Prop := True.

Lemma p_angle_addr_ok a tail : saddr_ok a ->
  p_angle_addr (32 :: 60 :: sa_str a ++ 62 :: tail) = Some ((sa_user a, sa_domain a), skip_ws tail).
Proof.
  intros Ha. unfold p_angle_addr, skip_ws. cbn [skip_while]. change (is_ws_cp 32) with true. cbn iota.
  cbn [skip_while]. change (is_ws_cp 60) with false. cbn iota. change (60 =? 60) with true. cbn iota.
  rewrite (p_addr_spec_ok a (62 :: tail) Ha); [|cbn; split; [reflexivity|discriminate]].
  change (62 =? 62) with true. reflexivity.
Qed.

(* the phrase stops in front of " <" *)
Lemma p_word_at_angle X : p_word (32 :: 60 :: X) = None.
Proof.
  unfold p_word, p_quoted_string. change (32 =? 34) with false. cbn iota.
  unfold p_atom. cbn [p_fws]. change (is_wsp_cp 32) with true. cbn iota.
  cbn [skip_while]. change (is_wsp_cp 60) with false. cbn iota.
  rewrite p_atext1_fail; [reflexivity|reflexivity].
Qed.
Lemma p_words_dots_at_angle fuel X : p_words_dots fuel (32 :: 60 :: X) = ([], 32 :: 60 :: X).
Proof. destruct fuel; [reflexivity|]. cbn [p_words_dots]. rewrite p_word_at_angle. reflexivity. Qed.

(* ---------- plain names: words separated by SP/TAB runs ---------- *)
Definition name_text (w1 : ustr) (rest : list (ustr * ustr)) : ustr := w1 ++ flat_map (fun p => fst p ++ snd p) rest.
Definition name_read (w1 : ustr) (rest : list (ustr * ustr)) : ustr := w1 ++ flat_map (fun p => hd 0 (fst p) :: snd p) rest.
Definition plain_ok (w1 : ustr) (rest : list (ustr * ustr)) : Prop :=
  atexts w1 /\ Forall (fun p => wsps (fst p) /\ atexts (snd p)) rest.

Lemma wsps_head s : wsps s -> exists c t, s = c :: t /\ is_wsp_cp c = true.
Proof. intros [Hne H]. destruct s as [|c t]; [contradiction|]. cbn in H. apply andb_prop in H. exists c, t. tauto. Qed.
Lemma wsp_not_atext c : is_wsp_cp c = true -> is_atext_cp c = false.
Proof. unfold is_wsp_cp, is_atext_cp, is_alpha_cp, is_digit_cp, atext_specials. cbn [mem]. lia. Qed.
Lemma wsp_not_dq c : is_wsp_cp c = true -> (c =? 34) = false.
Proof. unfold is_wsp_cp. lia. Qed.

Lemma p_word_sep_word s w more : wsps s -> atexts w -> stops is_atext_cp more ->
  p_word (s ++ w ++ more) = Some (hd 0 s :: w, more).
Proof.
  intros Hs Hw Hm. unfold p_word. destruct (wsps_head s Hs) as (c & t & E & Hc).
  assert (Q : p_quoted_string (s ++ w ++ more) = None).
  { rewrite E. cbn [app p_quoted_string]. rewrite (wsp_not_dq c Hc). reflexivity. }
  rewrite Q. apply p_atom_sep_word; assumption.
Qed.

Lemma p_words_dots_plain rest : forall fuel X, Forall (fun p => wsps (fst p) /\ atexts (snd p)) rest ->
  (length rest < fuel)%nat ->
  p_words_dots fuel (flat_map (fun p => fst p ++ snd p) rest ++ 32 :: 60 :: X) =
  (flat_map (fun p => hd 0 (fst p) :: snd p) rest, 32 :: 60 :: X).
Proof.
  induction rest as [|[s w] rest IH]; intros fuel X HF Hf.
  - cbn [flat_map app]. apply p_words_dots_at_angle.
  - inversion HF as [|p l [Hs Hw] HF']; subst. cbn [fst snd] in *. destruct fuel; [cbn in Hf; lia|].
    cbn [flat_map fst snd p_words_dots]. rewrite <- !app_assoc.
    assert (Hm : stops is_atext_cp (flat_map (fun p => fst p ++ snd p) rest ++ 32 :: 60 :: X)).
    { destruct rest as [|[s2 w2] r2]; [reflexivity|]. inversion HF' as [|p2 l2 [Hs2 _] _]; subst. cbn [fst] in Hs2.
      destruct (wsps_head s2 Hs2) as (c & t & -> & Hc). cbn. apply wsp_not_atext. exact Hc. }
    rewrite (p_word_sep_word s w _ Hs Hw Hm). rewrite (IH fuel X HF'); [|cbn in Hf; lia]. reflexivity.
Qed.

Lemma p_phrase_plain w1 rest X : plain_ok w1 rest ->
  p_phrase (name_text w1 rest ++ 32 :: 60 :: X) = Some (name_read w1 rest, 32 :: 60 :: X).
Proof.
  intros [H1 HF]. unfold p_phrase, name_text, name_read. rewrite <- app_assoc.
  assert (Hm : stops is_atext_cp (flat_map (fun p => fst p ++ snd p) rest ++ 32 :: 60 :: X)).
  { destruct rest as [|[s2 w2] r2]; [reflexivity|]. inversion HF as [|p2 l2 [Hs2 _] _]; subst. cbn [fst] in Hs2.
    destruct (wsps_head s2 Hs2) as (c & t & -> & Hc). cbn. apply wsp_not_atext. exact Hc. }
  rewrite (p_word_atext w1 _ H1 Hm). rewrite (p_words_dots_plain rest _ X HF); [reflexivity|].
  rewrite app_length. cbn [length].
  assert (L : (length rest <= length (flat_map (fun p => fst p ++ snd p) rest))%nat).
  { clear -HF. induction HF as [|[s w] r [Hs Hw] _ IH]; [cbn; lia|]. cbn [flat_map length fst snd]. rewrite !app_length.
    destruct Hs as [Hne _]. destruct s; [contradiction|]. cbn [length]. cbn [fst snd] in IH. lia. }
  lia.
Qed.

(* ---------- quoted names ---------- *)
(* a character a quoted display name may contain besides SP/TAB: anything but NUL, LF, CR *)
Definition qchar (c : N) : Prop := is_wsp_cp c = false /\ c <> 0 /\ c <> 10 /\ c <> 13.
(* items: (possibly empty SP/TAB run, character) *)
Definition item_ok (p : ustr * N) : Prop := forallb is_wsp_cp (fst p) = true /\ qchar (snd p).
Definition q_of (c : N) : ustr := if (c =? 34) || (c =? 92) then [92; c] else [c].
Definition quoted_text (items : list (ustr * N)) : ustr := flat_map (fun p => fst p ++ q_of (snd p)) items.
Definition plain_text (items : list (ustr * N)) : ustr := flat_map (fun p => fst p ++ [snd p]) items.
Definition quoted_read (items : list (ustr * N)) : ustr := flat_map (fun p => opt_list (hd_error (fst p)) ++ [snd p]) items.

Lemma quoted_char_q c : qchar c -> quoted_char c = Some (q_of c).
Proof.
  intros (Hw & H0 & H10 & H13). unfold quoted_char, q_of. unfold is_wsp_cp in Hw.
  replace ((c =? 10) || (c =? 13)) with false by lia. replace ((c =? 9) || (c =? 32)) with false by lia.
  destruct ((c =? 34) || (c =? 92)) eqn:E.
  - replace (((1 <=? c) && (c <=? 8)) || (c =? 11) || (c =? 12) || ((14 <=? c) && (c <=? 31)) || (c =? 127)
          || (c =? 33) || ((35 <=? c) && (c <=? 91)) || ((93 <=? c) && (c <=? 126)) || (128 <=? c)) with false by lia.
    reflexivity.
  - replace (((1 <=? c) && (c <=? 8)) || (c =? 11) || (c =? 12) || ((14 <=? c) && (c <=? 31)) || (c =? 127)
          || (c =? 33) || ((35 <=? c) && (c <=? 91)) || ((93 <=? c) && (c <=? 126)) || (128 <=? c)) with true by lia.
    reflexivity.
Qed.

Lemma quoted_char_wsp c : is_wsp_cp c = true -> quoted_char c = Some [c].
Proof. unfold is_wsp_cp, quoted_char. intros H. replace ((c =? 10) || (c =? 13)) with false by lia.
       replace ((c =? 9) || (c =? 32)) with true by lia. reflexivity. Qed.

Lemma quoted_chars_wsps s : forallb is_wsp_cp s = true -> forall t q, quoted_chars t = Some q -> quoted_chars (s ++ t) = Some (s ++ q).
Proof.
  induction s as [|c s IH]; intros H t q Ht; [exact Ht|]. cbn [forallb] in H. apply andb_prop in H. destruct H as [Hc Hs].
  cbn [app quoted_chars]. rewrite (quoted_char_wsp c Hc), (IH Hs t q Ht). reflexivity.
Qed.

Lemma quoted_chars_items items : Forall item_ok items -> quoted_chars (plain_text items) = Some (quoted_text items).
Proof.
  induction items as [|[s c] items IH]; intros H; [reflexivity|]. inversion H as [|p l [Hs Hc] H']; subst. cbn [fst snd] in *.
  cbn [plain_text quoted_text flat_map fst snd]. rewrite <- !app_assoc.
  apply quoted_chars_wsps; [exact Hs|]. cbn [app quoted_chars]. rewrite (quoted_char_q c Hc).
  fold (plain_text items). rewrite (IH H'). reflexivity.
Qed.

Lemma p_qcontent_q c more : qchar c -> p_qcontent (q_of c ++ more) = Some (c, more).
Proof.
  intros (Hw & H0 & H10 & H13). unfold q_of. unfold is_wsp_cp in Hw. destruct ((c =? 34) || (c =? 92)) eqn:E.
  - cbn [app p_qcontent]. change (is_qtext_cp 92) with false. cbn iota. change (92 =? 92) with true. cbn iota.
    replace (is_text_cp c) with true by (unfold is_text_cp; lia). reflexivity.
  - cbn [app p_qcontent]. destruct (is_qtext_cp c) eqn:Q; [reflexivity|].
    replace (c =? 92) with false by lia.
    replace (128 <=? c) with true; [reflexivity|]. unfold is_qtext_cp, is_no_ws_ctl in Q. lia.
Qed.

Lemma q_of_head_not_wsp c more : qchar c -> stops is_wsp_cp (q_of c ++ more).
Proof.
  intros (Hw & _). unfold q_of. destruct ((c =? 34) || (c =? 92)); cbn; [reflexivity|exact Hw].
Qed.

Lemma p_fws_opt s more : forallb is_wsp_cp s = true -> stops is_wsp_cp more ->
  p_fws (s ++ more) = (hd_error s, more).
Proof.
  intros Hs Hm. destruct s as [|c s'].
  - cbn [app hd_error]. destruct more as [|d m]; [reflexivity|]. cbn in Hm. cbn. rewrite Hm. reflexivity.
  - cbn [forallb] in Hs. apply andb_prop in Hs. destruct Hs as [Hc Hs']. cbn [app p_fws hd_error]. rewrite Hc.
    rewrite skip_while_app by assumption. reflexivity.
Qed.

Lemma p_qs_body_items items : forall fuel tail, Forall item_ok items -> (length items < fuel)%nat ->
  p_qs_body fuel (quoted_text items ++ 34 :: tail) = (quoted_read items, 34 :: tail).
Proof.
  induction items as [|[s c] items IH]; intros fuel tail H Hf.
  - destruct fuel; [lia|]. cbn [quoted_text flat_map app p_qs_body p_fws]. change (is_wsp_cp 34) with false. cbn iota.
    cbn [p_qcontent]. change (is_qtext_cp 34) with false. cbn iota. change (34 =? 92) with false. cbn iota.
    change (128 <=? 34) with false. reflexivity.
  - inversion H as [|p l [Hs Hc] H']; subst. cbn [fst snd] in *. destruct fuel; [cbn in Hf; lia|].
    cbn [quoted_text flat_map fst snd p_qs_body]. fold (quoted_text items). rewrite <- !app_assoc.
    rewrite (p_fws_opt s _ Hs (q_of_head_not_wsp c _ Hc)). rewrite (p_qcontent_q c _ Hc).
    rewrite (IH fuel tail H'); [|cbn in Hf; lia]. cbn [quoted_read flat_map fst snd]. rewrite <- app_assoc. reflexivity.
Qed.

Lemma quoted_text_length items : Forall item_ok items -> (length items <= length (quoted_text items))%nat.
Proof.
  induction 1 as [|[s c] items _ _ IH]; [cbn; lia|]. cbn [quoted_text flat_map length fst snd]. rewrite !app_length.
  fold (quoted_text items). unfold q_of. destruct ((c =? 34) || (c =? 92)); cbn [length]; lia.
Qed.

Lemma p_quoted_string_items items tail : Forall item_ok items ->
  p_quoted_string (34 :: quoted_text items ++ 34 :: tail) = Some (quoted_read items, tail).
Proof.
  intros H. cbn [p_quoted_string]. change (34 =? 34) with true. cbn iota.
  rewrite (p_qs_body_items items _ tail H).
  - cbn [skip_while]. change (is_ws_cp 34) with false. cbn iota. change (34 =? 34) with true. reflexivity.
  - rewrite app_length. pose proof (quoted_text_length items H). cbn [length]. lia.
Qed.

Lemma p_phrase_quoted items X : Forall item_ok items ->
  p_phrase (34 :: quoted_text items ++ 34 :: 32 :: 60 :: X) = Some (quoted_read items, 32 :: 60 :: X).
Proof.
  intros H. unfold p_phrase, p_word. rewrite (p_quoted_string_items items _ H).
  rewrite p_words_dots_at_angle. rewrite app_nil_r. reflexivity.
Qed.

(* ---------- the bare address:  the name-addr alternative fails, addr-spec reads it ---------- *)
Lemma p_word_dot r : p_word (46 :: r) = None.
Proof.
  unfold p_word, p_quoted_string. change (46 =? 34) with false. cbn iota. unfold p_atom.
  rewrite (p_fws_none 46 r eq_refl). rewrite p_atext1_fail; reflexivity.
Qed.
Lemma p_word_at r : p_word (64 :: r) = None.
Proof.
  unfold p_word, p_quoted_string. change (64 =? 34) with false. cbn iota. unfold p_atom.
  rewrite (p_fws_none 64 r eq_refl). rewrite p_atext1_fail; reflexivity.
Qed.

Lemma p_words_dots_groups xs : forall fuel r, Forall atexts xs -> (2 * length xs < fuel)%nat ->
  p_words_dots fuel (dots xs ++ 64 :: r) = (dots xs, 64 :: r).
Proof.
  induction xs as [|x xs IH]; intros fuel r H Hf.
  - destruct fuel; [lia|]. cbn [dots flat_map app p_words_dots]. rewrite p_word_at. change (64 =? 46) with false. reflexivity.
  - inversion H; subst. destruct fuel as [|[|fuel]]; [cbn in Hf; lia|cbn in Hf; lia|].
    cbn [dots flat_map]. fold (dots xs). cbn [app]. rewrite <- app_assoc.
    cbn [p_words_dots]. rewrite p_word_dot. change (46 =? 46) with true. cbn iota.
    assert (Hst : stops is_atext_cp (dots xs ++ 64 :: r)) by (destruct xs; reflexivity).
    rewrite (p_word_atext x _ H2 Hst). rewrite (IH fuel r H3); [reflexivity|cbn in Hf; lia].
Qed.

Lemma skip_ws_head_id s : is_ws_cp (hd 0 s) = false -> s <> [] -> skip_ws s = s.
Proof. intros H Hne. destruct s as [|c r]; [contradiction|]. cbn in *. rewrite H. reflexivity. Qed.

Theorem parse_bare a : saddr_ok a -> is_ws_cp (hd 0 (uf a)) = false ->
  parse_mailbox_raw (sa_str a) = Some (None, (sa_user a, sa_domain a)).
Proof.
  intros Ha Hh. pose proof Ha as [[Hf Hx] Hd]. unfold parse_mailbox_raw.
  assert (Hhead : hd 0 (sa_str a) = hd 0 (uf a)).
  { unfold sa_str, sa_user, datom. destruct (atexts_head _ Hf) as (c & t & -> & _). reflexivity. }
  assert (Hne : sa_str a <> []).
  { unfold sa_str, sa_user, datom. destruct (atexts_head _ Hf) as (c & t & -> & _). discriminate. }
  rewrite (skip_ws_head_id _ (eq_trans (f_equal is_ws_cp Hhead) Hh) Hne).
  unfold p_mailbox_item.
  assert (NA : p_name_addr (sa_str a) = None).
  { unfold p_name_addr, p_phrase. unfold sa_str at 1 2, sa_user, datom. rewrite <- !app_assoc.
    assert (Hst : stops is_atext_cp (dots (uxs a) ++ [64] ++ sa_domain a)) by (destruct (uxs a); reflexivity).
    rewrite (p_word_atext _ _ Hf Hst). cbn [app].
    rewrite (p_words_dots_groups (uxs a) _ _ Hx).
    - unfold p_angle_addr, skip_ws. cbn [skip_while]. change (is_ws_cp 64) with false. cbn iota.
      change (64 =? 60) with false. reflexivity.
    - rewrite app_length. pose proof (dots_length2 _ Hx). cbn [length]. lia. }
  rewrite NA. pose proof (p_addr_spec_ok a [] Ha I) as P. rewrite app_nil_r in P. rewrite P. reflexivity.
Qed.

(* ---------- name <addr> ---------- *)
Theorem parse_plain_named w1 rest a : plain_ok w1 rest -> is_ws_cp (hd 0 w1) = false -> saddr_ok a ->
  parse_mailbox_raw (name_text w1 rest ++ [32; 60] ++ sa_str a ++ [62]) =
  Some (Some (name_read w1 rest), (sa_user a, sa_domain a)).
Proof.
  intros Hp Hh Ha. unfold parse_mailbox_raw.
  assert (Hhead : hd 0 (name_text w1 rest ++ [32; 60] ++ sa_str a ++ [62]) = hd 0 w1).
  { unfold name_text. destruct (atexts_head _ (proj1 Hp)) as (c & t & -> & _). reflexivity. }
  assert (Hne : name_text w1 rest ++ [32; 60] ++ sa_str a ++ [62] <> []).
  { unfold name_text. destruct (atexts_head _ (proj1 Hp)) as (c & t & -> & _). discriminate. }
  rewrite (skip_ws_head_id _ (eq_trans (f_equal is_ws_cp Hhead) Hh) Hne).
  unfold p_mailbox_item, p_name_addr. cbn [app].
  rewrite (p_phrase_plain w1 rest _ Hp). rewrite (p_angle_addr_ok a [] Ha). reflexivity.
Qed.

Theorem parse_quoted_named items a : Forall item_ok items -> saddr_ok a ->
  parse_mailbox_raw ([34] ++ quoted_text items ++ [34] ++ [32; 60] ++ sa_str a ++ [62]) =
  Some (Some (quoted_read items), (sa_user a, sa_domain a)).
Proof.
  intros Hi Ha. unfold parse_mailbox_raw, skip_ws. cbn [app skip_while]. change (is_ws_cp 34) with false. cbn iota.
  unfold p_mailbox_item, p_name_addr.
  rewrite (p_phrase_quoted items _ Hi). rewrite (p_angle_addr_ok a [] Ha). reflexivity.
Qed.

(* ---------- Display then FromStr ---------- *)
Theorem show_parse_noname a : saddr_ok a -> is_ws_cp (hd 0 (uf a)) = false ->
  exists s, show_mailbox (mkMb None (sa_str a)) = Some s /\
            parse_mailbox_raw s = Some (None, (sa_user a, sa_domain a)).
Proof. intros Ha Hh. exists (sa_str a). split; [reflexivity|apply parse_bare; assumption]. Qed.

Theorem show_parse_plain n w1 rest a :
  trim_ws n = name_text w1 rest -> plain_ok w1 rest -> is_ws_cp (hd 0 w1) = false ->
  forallb is_valid_atom_cp (name_text w1 rest) = true -> saddr_ok a ->
  exists s, show_mailbox (mkMb (Some n) (sa_str a)) = Some s /\
            parse_mailbox_raw s = Some (Some (name_read w1 rest), (sa_user a, sa_domain a)).
Proof.
  intros Ht Hp Hh Hv Ha. exists (name_text w1 rest ++ [32; 60] ++ sa_str a ++ [62]). split.
  - unfold show_mailbox. cbn [mb_name mb_email]. rewrite Ht.
    assert (Hne : name_text w1 rest <> []).
    { unfold name_text. destruct (atexts_head _ (proj1 Hp)) as (c & t & -> & _). discriminate. }
    destruct (name_text w1 rest) as [|c0 t0]; [contradiction|].
    unfold write_word. rewrite Hv. reflexivity.
  - apply parse_plain_named; assumption.
Qed.

Theorem show_parse_quoted n items a :
  trim_ws n = plain_text items -> items <> [] -> Forall item_ok items ->
  forallb is_valid_atom_cp (plain_text items) = false -> saddr_ok a ->
  exists s, show_mailbox (mkMb (Some n) (sa_str a)) = Some s /\
            parse_mailbox_raw s = Some (Some (quoted_read items), (sa_user a, sa_domain a)).
Proof.
  intros Ht Hne Hi Hv Ha. exists ([34] ++ quoted_text items ++ [34] ++ [32; 60] ++ sa_str a ++ [62]). split.
  - unfold show_mailbox. cbn [mb_name mb_email]. rewrite Ht.
    assert (Hn : plain_text items <> []).
    { destruct items as [|[s c] r]; [contradiction|]. cbn [plain_text flat_map fst snd]. intros E.
      apply app_eq_nil in E. destruct E as [E _]. apply app_eq_nil in E. destruct E as [_ E]. discriminate. }
    pose proof (quoted_chars_items items Hi) as Q.
    destruct (plain_text items) as [|c0 t0]; [contradiction|].
    unfold write_word. rewrite Hv, Q. rewrite <- !app_assoc. reflexivity.
  - apply parse_quoted_named; assumption.
Qed.
