(* C02 for the structured headers: whatever display names and file names are supplied - ANY byte strings - the
   bodies of mailbox-list headers (From, To, Cc, Bcc, Reply-To, Sender) and of Content-Disposition consist of
   printable ASCII and TAB, with CR LF only as CRLF immediately followed by SP: no supplied text can end the line,
   start another field or put a control or 8-bit byte on it.  (Addresses are taken printable here: C16 shows that
   accepted addresses hold no control characters; internationalized ones are UTF-8, which C02 allows for them.) *)
From Coq Require Import Strings.String.
From LV Require Import Base.Bytes Base.Str Base.Utf8 Base.Res Base.Base64 Model.HeaderEnc Spec.Rfc5322
  Proofs.HeaderProofs Proofs.HeaderPlainProofs Proofs.HeaderRtProofs Proofs.PhraseProofs Proofs.Rfc2231Proofs.
From Coq Require Import Lia Arith PeanoNat ZArith ZifyBool ZifyNat ZifyN.
Local Arguments N.eqb : simpl never.
Local Arguments N.leb : simpl never.
Local Arguments N.ltb : simpl never.
Local Arguments Nat.div : simpl never.
Local Arguments Nat.mul : simpl never.
Local Arguments Nat.sub : simpl never.
Local Arguments Nat.ltb : simpl never.
Local Arguments Nat.leb : simpl never.

Lemma res_ok_ok st sc x : step_ok st sc x -> res_ok st sc (Ok x).
Proof. auto. Qed.

(* chaining: a step, then a continuation that is fine from whatever state the step leaves *)
Lemma res_ok_bind st sc (r : wst * bytes) (k : wst -> res unit (wst * bytes)) :
  step_ok st sc r -> (forall s', Inv (fst r) s' -> res_ok (fst r) s' (k (fst r))) ->
  res_ok st sc (match k (fst r) with Ok (st2, o2) => Ok (st2, snd r ++ o2) | Err e => Err e | Panic => Panic end).
Proof.
  intros (s1 & H1 & I1) Hk. specialize (Hk s1 I1). destruct (k (fst r)) as [[st2 o2]| |]; cbn [res_ok] in *; auto.
  destruct Hk as (s2 & H2 & I2). exists s2. cbn [fst snd] in *. split; [|exact I2]. rewrite scan_app, H1. exact H2.
Qed.

Lemma forallb_sub {A} (f g : A -> bool) l : (forall x, f x = true -> g x = true) -> forallb f l = true -> forallb g l = true.
Proof. apply forallb_impl. Qed.

Lemma plain_pbyte b : is_plain_b b = true -> pbyte b = true.
Proof. unfold is_plain_b, is_alnum_ascii, is_alpha, is_upper, is_lower, is_digit, pbyte. lia. Qed.
Lemma escaped_pbyte b : f_escaped b = true -> pbyte b = true.
Proof. unfold f_escaped, is_plain_b, is_alnum_ascii, is_alpha, is_upper, is_lower, is_digit, pbyte. lia. Qed.

Lemma escaped_fold_ok v : forall st sc acc, forallb f_escaped v = true -> Inv st sc ->
  exists st' o s', fold_left (fun '(s, o) b =>
                 let '(s', o') := fold_write_str (if b =? 92 then [92; 92] else if b =? 34 then [92; 34] else [b]) s in (s', o ++ o')) v (st, acc) = (st', acc ++ o) /\
    scan sc o = Some s' /\ Inv st' s'.
Proof.
  induction v as [|b v IH]; intros st sc acc Hv HI.
  - exists st, [], sc. cbn. rewrite app_nil_r. auto.
  - cbn in Hv. apply andb_prop in Hv. destruct Hv as [Hb Hv]. cbn [fold_left]. cbv beta iota zeta.
    set (piece := if b =? 92 then [92; 92] else if b =? 34 then [92; 34] else [b]).
    assert (Hp : all_p piece = true).
    { unfold piece. destruct (b =? 92); [reflexivity|]. destruct (b =? 34); [reflexivity|]. cbn. rewrite (escaped_pbyte b Hb). reflexivity. }
    destruct (fold_write_str_ok piece st sc Hp HI) as (s1 & H1 & I1).
    change (fold_write_str (if b =? 92 then [92; 92] else if b =? 34 then [92; 34] else [b]) st) with (fold_write_str piece st).
    destruct (fold_write_str piece st) as [st1 o1]. cbn [fst snd] in *.
    destruct (IH st1 s1 (acc ++ o1) Hv I1) as (st' & o & s' & E & H2 & I2). exists st', (o1 ++ o), s'.
    split; [transitivity (st', (acc ++ o1) ++ o); [exact E|rewrite <- app_assoc; reflexivity]|]. split; [rewrite scan_app, H1; exact H2|exact I2].
Qed.

Lemma quoted_string_ok v st sc : Inv st sc -> res_ok st sc (quoted_string_encode v st).
Proof.
  intros HI. unfold quoted_string_encode. destruct (qs_strategy v) eqn:S.
  - apply res_ok_ok. apply write_str_ok; [|exact HI]. apply (forallb_sub f_plain); [apply plain_pbyte|apply strategy_plain; exact S].
  - pose proof (strategy_quoted v S) as P.
    assert (Hv : all_p v = true) by (apply (forallb_sub f_escaped); [apply escaped_pbyte|apply f_quoted_escaped; exact P]).
    destruct (write_char_ok [34] st sc eq_refl HI) as (s1 & H1 & I1). destruct (w_write_char [34] st) as [st1 o1]. cbn [fst snd] in *.
    destruct (fold_write_str_ok v st1 s1 Hv I1) as (s2 & H2 & I2). destruct (fold_write_str v st1) as [st2 o2]. cbn [fst snd] in *.
    destruct (write_char_ok [34] st2 s2 eq_refl I2) as (s3 & H3 & I3). destruct (w_write_char [34] st2) as [st3 o3]. cbn [fst snd] in *.
    exists s3. cbn [fst snd]. split; [rewrite scan_app, H1, scan_app, H2; exact H3|exact I3].
  - pose proof (strategy_escaped v S) as P.
    destruct (write_char_ok [34] st sc eq_refl HI) as (s1 & H1 & I1). destruct (w_write_char [34] st) as [st1 o1]. cbn [fst snd] in *.
    destruct (escaped_fold_ok v st1 s1 [] P I1) as (st2 & o2 & s2 & E2 & H2 & I2).
    match goal with |- context [fold_left ?F v (st1, [])] => assert (E2' : fold_left F v (st1, []) = (st2, [] ++ o2)) by exact E2; rewrite E2' end. cbn [app].
    destruct (write_char_ok [34] st2 s2 eq_refl I2) as (s3 & H3 & I3). destruct (w_write_char [34] st2) as [st3 o3]. cbn [fst snd] in *.
    exists s3. cbn [fst snd]. split; [rewrite scan_app, H1, scan_app, H2; exact H3|exact I3].
  - apply rfc2047_encode_ok. exact HI.
Qed.

Lemma mailbox_ok n e st sc : all_p e = true -> Inv st sc -> res_ok st sc (mailbox_encode n e st).
Proof.
  intros He HI. unfold mailbox_encode. destruct n as [n|]; [|apply res_ok_ok; apply write_str_ok; assumption].
  pose proof (quoted_string_ok n st sc HI) as Q. destruct (quoted_string_encode n st) as [[st1 o1]| |]; cbn [res_ok] in *; auto.
  destruct Q as (s1 & H1 & I1). cbn [fst snd] in *. pose proof (space_ok st1 s1 I1) as I2.
  destruct (write_char_ok [60] (w_space st1) s1 eq_refl I2) as (s3 & H3 & I3). destruct (w_write_char [60] (w_space st1)) as [st3 o3]. cbn [fst snd] in *.
  destruct (write_str_ok e st3 s3 He I3) as (s4 & H4 & I4). destruct (w_write_str e st3) as [st4 o4]. cbn [fst snd] in *.
  destruct (write_char_ok [62] st4 s4 eq_refl I4) as (s5 & H5 & I5). destruct (w_write_char [62] st4) as [st5 o5]. cbn [fst snd] in *.
  exists s5. cbn [fst snd]. split; [rewrite scan_app, H1, scan_app, H3, scan_app, H4; exact H5|exact I5].
Qed.

Lemma mailboxes_go_ok ms : forall first st sc, Forall (fun m => all_p (snd m) = true) ms -> Inv st sc ->
  res_ok st sc (mailboxes_encode_go ms first st).
Proof.
  induction ms as [|[n e] ms IH]; intros first st sc F HI; [exists sc; cbn; auto|]. inversion F as [|? ? He F']; subst. cbn [snd] in He.
  cbn [mailboxes_encode_go].
  assert (K : forall st1 s1 o1, scan sc o1 = Some s1 -> Inv st1 s1 ->
    res_ok st sc (match mailbox_encode n e st1 with
                  | Ok (st2, o2) => match mailboxes_encode_go ms false st2 with Ok (st3, o3) => Ok (st3, o1 ++ o2 ++ o3) | Err x => Err x | Panic => Panic end
                  | Err x => Err x | Panic => Panic end)).
  { intros st1 s1 o1 H1 I1. pose proof (mailbox_ok n e st1 s1 He I1) as M. destruct (mailbox_encode n e st1) as [[st2 o2]| |]; cbn [res_ok] in *; auto.
    destruct M as (s2 & H2 & I2). cbn [fst snd] in *. specialize (IH false st2 s2 F' I2).
    destruct (mailboxes_encode_go ms false st2) as [[st3 o3]| |]; cbn [res_ok] in *; auto.
    destruct IH as (s3 & H3 & I3). exists s3. cbn [fst snd] in *. split; [rewrite scan_app, H1, scan_app, H2; exact H3|exact I3]. }
  destruct first.
  - apply (K st sc []); [reflexivity|exact HI].
  - destruct (write_char_ok [44] st sc eq_refl HI) as (s1 & H1 & I1). destruct (w_write_char [44] st) as [s o]. cbn [fst snd] in *.
    apply (K (w_space s) s1 o); [exact H1|apply space_ok; exact I1].
Qed.

Theorem mailboxes_header_safe hname ms e : Forall (fun m => all_p (snd m) = true) ms ->
  mailboxes_header_encode hname ms = Ok e -> body_safe e.
Proof.
  intros F H. unfold mailboxes_header_encode in H.
  pose proof (mailboxes_go_ok ms true (mkW (length hname + 2) 0 false) SN F (or_introl eq_refl)) as R.
  destruct (mailboxes_encode_go ms true (mkW (length hname + 2) 0 false)) as [[st o]| |]; [|discriminate|discriminate].
  destruct R as (s1 & H1 & I1). cbn [fst snd] in *. exact (finish_safe st s1 o e I1 H1 H).
Qed.

(* ---------- Content-Disposition ---------- *)
Lemma printable_all_p s : forallb is_printable_b s = true -> all_p s = true.
Proof. apply forallb_impl. intros x H. unfold is_printable_b in H. unfold pbyte. lia. Qed.
Lemma all_p_firstn k s : all_p s = true -> all_p (firstn k s) = true.
Proof. intros H. rewrite <- (firstn_skipn k s) in H. rewrite all_p_app in H. apply andb_prop in H. apply H. Qed.
Lemma all_p_skipn k s : all_p s = true -> all_p (skipn k s) = true.
Proof. intros H. rewrite <- (firstn_skipn k s) in H. rewrite all_p_app in H. apply andb_prop in H. apply H. Qed.
Lemma bytes_ok_firstn k s : bytes_ok s = true -> bytes_ok (firstn k s) = true.
Proof. intros H. rewrite <- (firstn_skipn k s) in H. rewrite bytes_ok_app in H. apply andb_prop in H. apply H. Qed.
Lemma bytes_ok_skipn k s : bytes_ok s = true -> bytes_ok (skipn k s) = true.
Proof. intros H. rewrite <- (firstn_skipn k s) in H. rewrite bytes_ok_app in H. apply andb_prop in H. apply H. Qed.

Lemma w_write_escaped_fold_ok s : forall st sc acc, all_p s = true -> Inv st sc ->
  exists st' o s', fold_left (fun '(st0, o) b =>
               let '(st1, o1) :=
                 if b =? 92 then w_write_str [92; 92] st0
                 else if b =? 34 then w_write_str [92; 34] st0
                 else w_write_char [b] st0 in
               (st1, o ++ o1)) s (st, acc) = (st', acc ++ o) /\ scan sc o = Some s' /\ Inv st' s'.
Proof.
  induction s as [|b s IH]; intros st sc acc Hs HI.
  - exists st, [], sc. cbn. rewrite app_nil_r. auto.
  - unfold all_p in Hs. cbn [forallb] in Hs. apply andb_prop in Hs. destruct Hs as [Hb Hs]. cbn [fold_left]. cbv beta iota.
    assert (Hstep : step_ok st sc (if b =? 92 then w_write_str [92; 92] st else if b =? 34 then w_write_str [92; 34] st else w_write_char [b] st)).
    { destruct (b =? 92); [apply write_str_ok; [reflexivity|exact HI]|]. destruct (b =? 34); [apply write_str_ok; [reflexivity|exact HI]|].
      apply write_char_ok; [cbn; rewrite Hb; reflexivity|exact HI]. }
    destruct (if b =? 92 then w_write_str [92; 92] st else if b =? 34 then w_write_str [92; 34] st else w_write_char [b] st) as [st1 o1].
    destruct Hstep as (s1 & H1 & I1). cbn [fst snd] in *.
    destruct (IH st1 s1 (acc ++ o1) Hs I1) as (st' & o & s' & E & H2 & I2). exists st', (o1 ++ o), s'.
    split; [rewrite E, <- app_assoc; reflexivity|]. split; [rewrite scan_app, H1; exact H2|exact I2].
Qed.
Lemma w_write_escaped_ok s st sc : all_p s = true -> Inv st sc -> step_ok st sc (w_write_escaped s st).
Proof.
  intros Hs HI. unfold w_write_escaped. destruct (w_write_escaped_fold_ok s st sc [] Hs HI) as (st' & o & s' & E & H & I). rewrite E. exists s'. cbn. auto.
Qed.

Lemma w_write_char_spaces c st : list_eqb c [SP] = false -> spaces (fst (w_write_char c st)) = 0%nat.
Proof. intros H. rewrite w_write_char_sem by exact H. reflexivity. Qed.

Lemma hexd_pbyte v : v < 16 -> pbyte (hexd v) = true.
Proof. intros H. unfold hexd, pbyte. destruct (v <? 10) eqn:E; lia. Qed.
Lemma alnum_plus_pbyte b : is_alnum_plus b = true -> pbyte b = true.
Proof. unfold is_alnum_plus, is_alnum_ascii, is_alpha, is_upper, is_lower, is_digit, pbyte. lia. Qed.

Lemma pct_byte_ok b st sc : byte_ok b = true -> Inv st sc -> step_ok st sc (pct_byte b st).
Proof.
  intros Hb HI. unfold pct_byte. unfold byte_ok in Hb.
  destruct (write_char_ok [37] st sc eq_refl HI) as (s1 & H1 & I1). destruct (w_write_char [37] st) as [st1 o1]. cbn [fst snd] in *.
  assert (P1 : all_p [hexd (b / 16)] = true) by (cbn; rewrite hexd_pbyte by lia; reflexivity).
  destruct (write_char_ok _ st1 s1 P1 I1) as (s2 & H2 & I2). destruct (w_write_char [hexd (b / 16)] st1) as [st2 o2]. cbn [fst snd] in *.
  assert (P2 : all_p [hexd (b mod 16)] = true) by (cbn; rewrite hexd_pbyte by lia; reflexivity).
  destruct (write_char_ok _ st2 s2 P2 I2) as (s3 & H3 & I3). destruct (w_write_char [hexd (b mod 16)] st2) as [st3 o3]. cbn [fst snd] in *.
  exists s3. cbn [fst snd]. split; [rewrite scan_app, H1, scan_app, H2; exact H3|exact I3].
Qed.
Lemma pct_all_ok c : forall st sc acc, bytes_ok c = true -> Inv st sc ->
  exists st' o s', fold_left (fun '(s, o) b => let '(s', o') := pct_byte b s in (s', o ++ o')) c (st, acc) = (st', acc ++ o) /\ scan sc o = Some s' /\ Inv st' s'.
Proof.
  induction c as [|b c IH]; intros st sc acc Hb HI.
  - exists st, [], sc. cbn. rewrite app_nil_r. auto.
  - cbn in Hb. apply andb_prop in Hb. destruct Hb as [Hb Hc]. cbn [fold_left]. cbv beta iota.
    destruct (pct_byte_ok b st sc Hb HI) as (s1 & H1 & I1). destruct (pct_byte b st) as [st1 o1]. cbn [fst snd] in *.
    destruct (IH st1 s1 (acc ++ o1) Hc I1) as (st' & o & s' & E & H2 & I2). exists st', (o1 ++ o), s'.
    split; [rewrite E, <- app_assoc; reflexivity|]. split; [rewrite scan_app, H1; exact H2|exact I2].
Qed.
Lemma pct_char_ok c st sc : bytes_ok c = true -> Inv st sc -> step_ok st sc (pct_char c st).
Proof.
  intros Hb HI. unfold pct_char. destruct c as [|b [|b2 c']].
  - exists sc. cbn. auto.
  - cbn in Hb. rewrite andb_true_r in Hb. destruct (is_alnum_plus b) eqn:E.
    + apply write_char_ok; [cbn; rewrite (alnum_plus_pbyte b E); reflexivity|exact HI].
    + apply pct_byte_ok; assumption.
  - destruct (pct_all_ok (b :: b2 :: c') st sc [] Hb HI) as (st' & o & s' & E & H & I). rewrite E. exists s'. cbn. auto.
Qed.

Lemma line_ok fuel : forall value st sc, bytes_ok value = true -> Inv st sc ->
  exists st' o rest s', rfc2231_line fuel value st = (st', o, rest) /\ scan sc o = Some s' /\ Inv st' s' /\ bytes_ok rest = true /\ (length rest <= length value)%nat /\
    ((1 <= fuel)%nat -> (line_len st < MAX_LINE_LEN - 15)%nat -> value <> [] -> (length rest < length value)%nat).
Proof.
  induction fuel as [|f IH]; intros value st sc Hb HI.
  - exists st, [], value, sc. cbn. repeat split; auto. lia.
  - cbn [rfc2231_line]. destruct (Nat.ltb (line_len st) (MAX_LINE_LEN - 15)) eqn:El.
    + destruct value as [|b0 r] eqn:Ev; [exists st, [], [], sc; cbn; repeat split; auto; intros _ _ H; contradiction|].
      cbn [next_char]. set (n := first_char_len b0).
      destruct (pct_char_ok (firstn n (b0 :: r)) st sc (bytes_ok_firstn _ _ Hb) HI) as (s1 & H1 & I1).
      destruct (pct_char (firstn n (b0 :: r)) st) as [st1 o1]. cbn [fst snd] in *.
      destruct (IH (skipn n (b0 :: r)) st1 s1 (bytes_ok_skipn _ _ Hb) I1) as (st' & o & rest & s' & E & H2 & I2 & Hr & Hl & _). rewrite E.
      exists st', (o1 ++ o), rest, s'. split; [reflexivity|]. split; [rewrite scan_app, H1; exact H2|]. split; [exact I2|]. split; [exact Hr|].
      pose proof (first_char_len_pos b0) as P. fold n in P. rewrite skipn_length in Hl. cbn [length] in *. split; [lia|intros; lia].
    + exists st, [], value, sc. split; [reflexivity|]. split; [reflexivity|]. split; [exact HI|]. split; [exact Hb|]. split; [lia|]. intros _ H. apply Nat.ltb_ge in El. lia.
Qed.

(* a string that begins with SP, written right after CRLF with no space pending *)
Lemma write_str_after_break s0 c st : spaces st = 0%nat -> all_p (s0 ++ [c]) = true -> (c =? SP) = false ->
  scan SL (snd (w_write_str (SP :: s0 ++ [c]) st)) = Some SN /\ Inv (fst (w_write_str (SP :: s0 ++ [c]) st)) SN /\ spaces (fst (w_write_str (SP :: s0 ++ [c]) st)) = 0%nat.
Proof.
  intros Hs Hp Hc. change (SP :: s0 ++ [c]) with ((SP :: s0) ++ [c]). rewrite w_write_str_last by exact Hc. cbn [fst snd spaces]. rewrite Hs.
  cbn [sp_run repeat app scan scan_step]. rewrite N.eqb_refl. split; [apply scan_all_p; exact Hp|]. split; [left; reflexivity|reflexivity].
Qed.

Lemma scan_crlf_then o : scan SN (CRLF ++ o) = scan SL o.
Proof. reflexivity. Qed.

Definition loop_ok (r : res unit (wst * bytes)) : Prop :=
  match r with Ok (st', o) => scan SL o = Some SN /\ spaces st' = 0%nat | _ => True end.

Lemma dec_all_p i : all_p (dec i) = true.
Proof.
  destruct (dec_spec i) as (_ & Hd & _). apply (forallb_impl is_digit); [|exact Hd]. intros x H. unfold is_digit in H. unfold pbyte. lia.
Qed.

Lemma all_p_trunc value m : all_p value = true -> all_p (trunc_go value m) = true.
Proof. intros H. destruct (trunc_go_prefix value m) as (k & _ & ->). apply all_p_firstn. exact H. Qed.

Lemma plain_go_safe fuel : forall value i st, all_p value = true -> spaces st = 0%nat ->
  loop_ok (rfc2231_plain_go fuel KEY value i st).
Proof.
  induction fuel as [|f IH]; intros value i st Hv Hs; [exact I|]. cbn [rfc2231_plain_go].
  replace ([32] ++ KEY ++ [42] ++ dec i ++ bs "=""") with (SP :: (KEY ++ [42] ++ dec i ++ [61]) ++ [34])
    by (cbn [bs app]; rewrite <- !app_assoc; cbn [app]; rewrite <- !app_assoc; reflexivity).
  assert (Hp : all_p ((KEY ++ [42] ++ dec i ++ [61]) ++ [34]) = true) by (rewrite !all_p_app, dec_all_p; reflexivity).
  destruct (write_str_after_break (KEY ++ [42] ++ dec i ++ [61]) 34 st Hs Hp eq_refl) as (H1 & I1 & S1).
  destruct (w_write_str (SP :: (KEY ++ [42] ++ dec i ++ [61]) ++ [34]) st) as [s1 o1]. cbn [fst snd] in *.
  destruct (Nat.ltb MAX_LINE_LEN (line_len s1 + 3)); [exact I|].
  set (chunk := trunc_go value (length (firstn (MAX_LINE_LEN - line_len s1 - 3) value))).
  assert (Hc : all_p chunk = true) by (apply all_p_trunc; exact Hv).
  destruct (w_write_escaped_ok chunk s1 SN Hc I1) as (s2' & H2 & I2). destruct (w_write_escaped chunk s1) as [s2 o2]. cbn [fst snd] in *.
  destruct (write_char_ok [34] s2 s2' eq_refl I2) as (s3' & H3 & I3). pose proof (w_write_char_spaces [34] s2 eq_refl) as S3.
  destruct (w_write_char [34] s2) as [s3 o3]. cbn [fst snd] in *.
  destruct (skipn (length chunk) value) as [|c rest] eqn:Er.
  - cbn [loop_ok]. split; [|exact S3]. rewrite scan_app, H1, scan_app, H2, H3.
    destruct I3 as [->|(-> & A & _)]; [reflexivity|lia].
  - destruct (write_char_ok [59] s3 s3' eq_refl I3) as (s4' & H4 & I4). pose proof (w_write_char_spaces [59] s3 eq_refl) as S4.
    destruct (w_write_char [59] s3) as [s4 o4]. cbn [fst snd] in *. unfold w_new_line. rewrite S4.
    assert (s4' = SN) as -> by (destruct I4 as [->|(-> & A & _)]; [reflexivity|lia]).
    assert (Hr : all_p (c :: rest) = true) by (rewrite <- Er; apply all_p_skipn; exact Hv).
    specialize (IH (c :: rest) (S i) (mkW 0 0 false) Hr eq_refl).
    destruct (rfc2231_plain_go f KEY (c :: rest) (S i) (mkW 0 0 false)) as [[s6 o6]| |]; cbn [loop_ok] in *; auto.
    destruct IH as [H6 S6]. split; [|exact S6]. rewrite scan_app, H1, scan_app, H2, scan_app, H3, scan_app, H4. rewrite scan_crlf_then. exact H6.
Qed.

Lemma safe_all_p T : forallb pct_safe T = true -> all_p T = true.
Proof.
  apply forallb_impl. intros x H. unfold pct_safe, is_alnum_plus, is_alnum_ascii, is_alpha, is_upper, is_lower, is_digit in H. unfold pbyte. lia.
Qed.

Lemma enc_go_safe fuel : forall value i st, bytes_ok value = true -> spaces st = 0%nat ->
  loop_ok (rfc2231_enc_go fuel KEY value i st).
Proof.
  induction fuel as [|f IH]; intros value i st Hv Hs; [exact I|]. cbn [rfc2231_enc_go].
  replace ([32] ++ KEY ++ [42] ++ dec i ++ bs "*=") with (SP :: (KEY ++ [42] ++ dec i ++ [42]) ++ [61])
    by (cbn [bs app]; rewrite <- !app_assoc; cbn [app]; rewrite <- !app_assoc; reflexivity).
  assert (Hp : all_p ((KEY ++ [42] ++ dec i ++ [42]) ++ [61]) = true) by (rewrite !all_p_app, dec_all_p; reflexivity).
  destruct (write_str_after_break (KEY ++ [42] ++ dec i ++ [42]) 61 st Hs Hp eq_refl) as (H1 & I1 & S1).
  destruct (w_write_str (SP :: (KEY ++ [42] ++ dec i ++ [42]) ++ [61]) st) as [s1 o1]. cbn [fst snd] in *.
  assert (E2 : exists s2 o2, (match i with O => w_write_str (bs "utf-8''") s1 | S _ => (s1, []) end) = (s2, o2) /\ scan SN o2 = Some SN /\ spaces s2 = 0%nat).
  { destruct i.
    - change (bs "utf-8''") with (bs "utf-8'" ++ [39]). rewrite w_write_str_last by reflexivity. eexists _, _. split; [reflexivity|]. rewrite S1. split; reflexivity.
    - exists s1, []. auto. }
  destruct E2 as (s2 & o2 & E2 & H2 & S2). rewrite E2.
  destruct (line_sem (S (length value)) value s2 S2 Hv) as (chunk & T & s3 & rest & E3 & Hv' & S3 & _ & Sf & _). rewrite E3.
  assert (HT : scan SN T = Some SN) by (apply scan_all_p; apply safe_all_p; exact Sf).
  destruct rest as [|c r].
  - cbn [loop_ok]. split; [|exact S3]. rewrite scan_app, H1, scan_app, H2. exact HT.
  - rewrite w_write_char_sem by reflexivity. rewrite S3. cbn [sp_run repeat app spaces]. unfold w_new_line. cbn [spaces].
    assert (Hr : bytes_ok (c :: r) = true) by (rewrite Hv', bytes_ok_app in Hv; apply andb_prop in Hv; apply Hv).
    specialize (IH (c :: r) (S i) (mkW 0 0 false) Hr eq_refl).
    destruct (rfc2231_enc_go f KEY (c :: r) (S i) (mkW 0 0 false)) as [[s6 o6]| |]; cbn [loop_ok] in *; auto.
    destruct IH as [H6 S6]. split; [|exact S6]. rewrite scan_app, H1, scan_app, H2, scan_app, HT. cbn [app scan scan_step]. change (pbyte 59) with true. cbn iota.
    rewrite scan_crlf_then. exact H6.
Qed.

Theorem cdisp_safe kind fname e : all_p kind = true -> bytes_ok fname = true ->
  content_disposition_encode kind fname = Ok e -> body_safe e.
Proof.
  intros Hk Hb H. unfold content_disposition_encode in H.
  destruct (write_str_ok kind (mkW 21 0 false) SN Hk (or_introl eq_refl)) as (s1' & H1 & I1). destruct (w_write_str kind (mkW 21 0 false)) as [s1 o1]. cbn [fst snd] in *.
  destruct (write_char_ok [59] s1 s1' eq_refl I1) as (s2' & H2 & I2). pose proof (w_write_char_spaces [59] s1 eq_refl) as S2.
  destruct (w_write_char [59] s1) as [s2 o2]. cbn [fst snd] in *.
  assert (s2' = SN) as -> by (destruct I2 as [->|(-> & A & _)]; [reflexivity|lia]).
  assert (Hpre : scan SN (o1 ++ o2) = Some SN) by (rewrite scan_app, H1; exact H2).
  unfold rfc2231_encode in H.
  destruct (negb (forallb is_alnum_ascii (bs "filename")) || negb (Nat.ltb (length (bs "filename") + 13) MAX_LINE_LEN)); [discriminate|].
  assert (Fin : forall st o, scan SN o = Some SN -> spaces st = 0%nat -> finish (Ok (st, o)) = Ok e -> body_safe e).
  { intros st o Ho Hs Hf. apply (finish_safe st SN o e (or_introl eq_refl) Ho Hf). }
  destruct (forallb is_printable_b fname) eqn:Ep.
  - pose proof (printable_all_p fname Ep) as Hpv.
    destruct (Nat.leb (line_len (w_space s2) + (length (bs "filename") + 2 + length fname + 3)) MAX_LINE_LEN).
    + pose proof (space_ok s2 SN (or_introl eq_refl)) as I3.
      destruct (write_str_ok (bs "filename") (w_space s2) SN eq_refl I3) as (a1 & A1 & J1). destruct (w_write_str (bs "filename") (w_space s2)) as [t1 p1]. cbn [fst snd] in *.
      destruct (write_char_ok [61] t1 a1 eq_refl J1) as (a2 & A2 & J2). destruct (w_write_char [61] t1) as [t2 p2]. cbn [fst snd] in *.
      destruct (write_char_ok [34] t2 a2 eq_refl J2) as (a3 & A3 & J3). destruct (w_write_char [34] t2) as [t3 p3]. cbn [fst snd] in *.
      destruct (w_write_escaped_ok fname t3 a3 Hpv J3) as (a4 & A4 & J4). destruct (w_write_escaped fname t3) as [t4 p4]. cbn [fst snd] in *.
      destruct (write_char_ok [34] t4 a4 eq_refl J4) as (a5 & A5 & J5). destruct (w_write_char [34] t4) as [t5 p5]. cbn [fst snd] in *.
      apply (finish_safe t5 a5 (o1 ++ o2 ++ p1 ++ p2 ++ p3 ++ p4 ++ p5) e J5); [|exact H].
      rewrite app_assoc, scan_app, Hpre, scan_app, A1, scan_app, A2, scan_app, A3, scan_app, A4. exact A5.
    + unfold w_new_line, w_forget_spaces in H. cbn [line_len spaces can_fold] in H.
      pose proof (plain_go_safe (S (length fname)) fname 0 (mkW 0 0 false) Hpv eq_refl) as L.
      change (bs "filename") with KEY in H. destruct (rfc2231_plain_go (S (length fname)) KEY fname 0 (mkW 0 0 false)) as [[t o]| |]; [|discriminate|discriminate].
      cbn [loop_ok] in L. destruct L as [Lo Ls]. apply (Fin t (o1 ++ o2 ++ CRLF ++ o)); [|exact Ls|exact H].
      rewrite app_assoc, scan_app, Hpre, scan_crlf_then. exact Lo.
  - unfold w_new_line, w_forget_spaces in H. cbn [line_len spaces can_fold] in H.
    pose proof (enc_go_safe (S (length fname)) fname 0 (mkW 0 0 false) Hb eq_refl) as L.
    change (bs "filename") with KEY in H. destruct (rfc2231_enc_go (S (length fname)) KEY fname 0 (mkW 0 0 false)) as [[t o]| |]; [|discriminate|discriminate].
    cbn [loop_ok] in L. destruct L as [Lo Ls]. apply (Fin t (o1 ++ o2 ++ CRLF ++ o)); [|exact Ls|exact H].
    rewrite app_assoc, scan_app, Hpre, scan_crlf_then. exact Lo.
Qed.
