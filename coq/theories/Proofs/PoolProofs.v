(* Pool invariants, for every event sequence the model accepts (= every interleaving of any number of
   senders, maintenance passes and shutdowns). *)
From LV Require Import Base.Bytes Model.Pool.
From Coq Require Import Lia Arith PeanoNat.

Definition Inv (p : pstate) : Prop :=
  match idle p with
  | Some l => NoDup l /\ (forall c, In c l <-> stat p c = Idle) /\ (length l <= max_size p)%nat
  | None => forall c, stat p c <> Idle
  end /\
  (forall c, (next_id p <= c)%nat -> stat p c = Fresh) /\
  (sends_ok p <= commits p <= sends p)%nat.

Lemma set_stat_same f c s : set_stat f c s c = s.
Proof. unfold set_stat. rewrite Nat.eqb_refl. reflexivity. Qed.
Lemma set_stat_other f c s x : x <> c -> set_stat f c s x = f x.
Proof. intros H. unfold set_stat. destruct (Nat.eqb x c) eqn:E; [apply Nat.eqb_eq in E; contradiction|reflexivity]. Qed.
Lemma nmem_In x l : nmem x l = true <-> In x l.
Proof.
  induction l as [|y l IH]; cbn; [split; [discriminate|tauto]|]. rewrite orb_true_iff, IH, Nat.eqb_eq. split; intros [H|H]; auto.
Qed.
Lemma set_all_in f cs s x : In x cs -> set_all f cs s x = s.
Proof. intros H. unfold set_all. apply nmem_In in H. rewrite H. reflexivity. Qed.
Lemma set_all_out f cs s x : ~ In x cs -> set_all f cs s x = f x.
Proof. intros H. unfold set_all. destruct (nmem x cs) eqn:E; [apply nmem_In in E; contradiction|reflexivity]. Qed.

Lemma is_stat_eq a b : is_stat a b = true -> a = b.
Proof. destruct a, b; cbn; try discriminate; auto. intros H. apply Bool.eqb_prop in H. subst. reflexivity. Qed.

Lemma NoDup_snoc' (l : list nat) k : NoDup l -> ~ In k l -> NoDup (l ++ [k]).
Proof.
  induction l as [|x l IH]; intros U Hk; cbn; [constructor; [intros []|constructor]|].
  inversion U; subst. constructor.
  - intros Hin. apply in_app_or in Hin. destruct Hin as [Hin|[<-|[]]]; [contradiction|]. apply Hk. left; reflexivity.
  - apply IH; [assumption|]. intros Hin. apply Hk. right; exact Hin.
Qed.
Lemma NoDup_rev_tail (x : nat) r l : rev l = x :: r -> NoDup l -> NoDup (rev r) /\ ~ In x (rev r) /\ l = rev r ++ [x].
Proof.
  intros E U. assert (L : l = rev r ++ [x]) by (rewrite <- (rev_involutive l), E; reflexivity).
  subst l. apply NoDup_remove in U. rewrite app_nil_r in U. tauto.
Qed.

Lemma filter_len_le {A} (f : A -> bool) l : (length (filter f l) <= length l)%nat.
Proof. induction l as [|x l IH]; cbn; [lia|]. destruct (f x); cbn; lia. Qed.

(* pushing at the end / popping from the end of the idle vector *)
Theorem step_inv p e p' : Inv p -> step p e = Some p' -> Inv p'.
Proof.
  intros HInv H. pose proof HInv as (HI & HF & HC). destruct e; cbn [step] in H.
  - (* EPop *)
    destruct (idle p) as [l|] eqn:El; [|discriminate]. destruct (rev l) as [|x r] eqn:Er; [discriminate|].
    destruct (Nat.eqb x c) eqn:Ex; [|discriminate]. apply Nat.eqb_eq in Ex. subst x. inversion H; subst p'. clear H.
    destruct HI as (U & HS & HM). destruct (NoDup_rev_tail c r l Er U) as (U' & Nin & ->).
    assert (Ec : stat p c = Idle) by (apply HS; apply in_or_app; right; left; reflexivity).
    split; [|split; [|exact HC]]; cbn [idle upd stat max_size next_id].
    + split; [exact U'|]. split.
      * intros x. destruct (Nat.eq_dec x c) as [->|Hne].
        -- rewrite set_stat_same. split; [intros Hx; contradiction|discriminate].
        -- rewrite set_stat_other by exact Hne. rewrite <- HS. rewrite in_app_iff. cbn. split; [tauto|]. intros [A|[A|[]]]; [exact A|congruence].
      * rewrite app_length in HM. cbn in HM. lia.
    + intros x Hx. destruct (Nat.eq_dec x c) as [->|Hne]; [rewrite (HF c Hx) in Ec; discriminate|rewrite set_stat_other by exact Hne; apply HF; exact Hx].
  - destruct (idle p) as [[|? ?]|]; inversion H; subst; exact HInv.
  - destruct (idle p); inversion H; subst; exact HInv.
  - (* EProbeOk *)
    destruct (is_stat (stat p c) Probing) eqn:E; [|discriminate]. apply is_stat_eq in E. inversion H; subst p'. clear H.
    split; [|split; [|exact HC]]; cbn [idle upd stat next_id].
    + destruct (idle p) as [l|].
      * destruct HI as (U & HS & HM). split; [exact U|]. split; [|exact HM]. intros x. destruct (Nat.eq_dec x c) as [->|Hne].
        -- rewrite set_stat_same. rewrite HS, E. split; discriminate.
        -- rewrite set_stat_other by exact Hne. apply HS.
      * intros x. destruct (Nat.eq_dec x c) as [->|Hne]; [rewrite set_stat_same; discriminate|rewrite set_stat_other by exact Hne; apply HI].
    + intros x Hx. destruct (Nat.eq_dec x c) as [->|Hne]; [rewrite (HF c Hx) in E; discriminate|rewrite set_stat_other by exact Hne; apply HF; exact Hx].
  - (* EProbeFail *)
    destruct (is_stat (stat p c) Probing) eqn:E; [|discriminate]. apply is_stat_eq in E. inversion H; subst p'. clear H.
    split; [|split; [|exact HC]]; cbn [idle upd stat next_id].
    + destruct (idle p) as [l|].
      * destruct HI as (U & HS & HM). split; [exact U|]. split; [|exact HM]. intros x. destruct (Nat.eq_dec x c) as [->|Hne].
        -- rewrite set_stat_same. rewrite HS, E. split; discriminate.
        -- rewrite set_stat_other by exact Hne. apply HS.
      * intros x. destruct (Nat.eq_dec x c) as [->|Hne]; [rewrite set_stat_same; discriminate|rewrite set_stat_other by exact Hne; apply HI].
    + intros x Hx. destruct (Nat.eq_dec x c) as [->|Hne]; [rewrite (HF c Hx) in E; discriminate|rewrite set_stat_other by exact Hne; apply HF; exact Hx].
  - (* EConnectOk *)
    destruct (Nat.eqb c (next_id p)) eqn:E; [|discriminate]. apply Nat.eqb_eq in E. subst c. inversion H; subst p'. clear H.
    assert (Fr : stat p (next_id p) = Fresh) by (apply HF; lia).
    split; [|split; [|exact HC]]; cbn [idle stat next_id max_size].
    + destruct (idle p) as [l|].
      * destruct HI as (U & HS & HM). split; [exact U|]. split; [|exact HM]. intros x. destruct (Nat.eq_dec x (next_id p)) as [->|Hne].
        -- rewrite set_stat_same. rewrite HS, Fr. split; discriminate.
        -- rewrite set_stat_other by exact Hne. apply HS.
      * intros x. destruct (Nat.eq_dec x (next_id p)) as [->|Hne]; [rewrite set_stat_same; discriminate|rewrite set_stat_other by exact Hne; apply HI].
    + intros x Hx. rewrite set_stat_other by lia. apply HF. lia.
  - inversion H; subst. exact HInv.
  - (* ESendOk *)
    destruct (is_stat (stat p c) InUse) eqn:E; [|discriminate]. apply is_stat_eq in E. inversion H; subst p'. clear H.
    split; [|split]; cbn [idle stat next_id max_size sends_ok commits sends].
    + destruct (idle p) as [l|].
      * destruct HI as (U & HS & HM). split; [exact U|]. split; [|exact HM]. intros x. destruct (Nat.eq_dec x c) as [->|Hne].
        -- rewrite set_stat_same. rewrite HS, E. split; discriminate.
        -- rewrite set_stat_other by exact Hne. apply HS.
      * intros x. destruct (Nat.eq_dec x c) as [->|Hne]; [rewrite set_stat_same; discriminate|rewrite set_stat_other by exact Hne; apply HI].
    + intros x Hx. destruct (Nat.eq_dec x c) as [->|Hne]; [rewrite (HF c Hx) in E; discriminate|rewrite set_stat_other by exact Hne; apply HF; exact Hx].
    + lia.
  - (* ESendErr *)
    destruct (is_stat (stat p c) InUse) eqn:E; [|discriminate]. apply is_stat_eq in E. inversion H; subst p'. clear H.
    split; [|split]; cbn [idle stat next_id max_size sends_ok commits sends].
    + destruct (idle p) as [l|].
      * destruct HI as (U & HS & HM). split; [exact U|]. split; [|exact HM]. intros x. destruct (Nat.eq_dec x c) as [->|Hne].
        -- rewrite set_stat_same. rewrite HS, E. split; discriminate.
        -- rewrite set_stat_other by exact Hne. apply HS.
      * intros x. destruct (Nat.eq_dec x c) as [->|Hne]; [rewrite set_stat_same; discriminate|rewrite set_stat_other by exact Hne; apply HI].
    + intros x Hx. destruct (Nat.eq_dec x c) as [->|Hne]; [rewrite (HF c Hx) in E; discriminate|rewrite set_stat_other by exact Hne; apply HF; exact Hx].
    + destruct committed; lia.
  - (* ERecyclePark *)
    destruct (is_stat (stat p c) (ToRecycle false)) eqn:E; [|discriminate]. apply is_stat_eq in E.
    destruct (idle p) as [l|] eqn:El; [|discriminate]. destruct (Nat.ltb (length l) (max_size p)) eqn:Em; [|discriminate].
    apply Nat.ltb_lt in Em. inversion H; subst p'. clear H. destruct HI as (U & HS & HM).
    assert (Nin : ~ In c l) by (rewrite HS, E; discriminate).
    split; [|split; [|exact HC]]; cbn [idle upd stat next_id max_size].
    + split; [apply NoDup_snoc'; assumption|]. split.
      * intros x. rewrite in_app_iff. cbn. destruct (Nat.eq_dec x c) as [->|Hne].
        -- rewrite set_stat_same. tauto.
        -- rewrite set_stat_other by exact Hne. rewrite <- HS. split; [intros [A|[A|[]]]; [exact A|congruence]|tauto].
      * rewrite app_length. cbn. lia.
    + intros x Hx. destruct (Nat.eq_dec x c) as [->|Hne]; [rewrite (HF c Hx) in E; discriminate|rewrite set_stat_other by exact Hne; apply HF; exact Hx].
  - (* ERecycleClose *)
    assert (G : forall b, stat p c = ToRecycle b -> Inv (upd p (idle p) (set_stat (stat p) c Closed))).
    { intros b E. split; [|split; [|exact HC]]; cbn [idle upd stat next_id max_size].
      + destruct (idle p) as [l|].
        * destruct HI as (U & HS & HM). split; [exact U|]. split; [|exact HM]. intros x. destruct (Nat.eq_dec x c) as [->|Hne].
          -- rewrite set_stat_same. rewrite HS, E. split; discriminate.
          -- rewrite set_stat_other by exact Hne. apply HS.
        * intros x. destruct (Nat.eq_dec x c) as [->|Hne]; [rewrite set_stat_same; discriminate|rewrite set_stat_other by exact Hne; apply HI].
      + intros x Hx. destruct (Nat.eq_dec x c) as [->|Hne]; [rewrite (HF c Hx) in E; discriminate|rewrite set_stat_other by exact Hne; apply HF; exact Hx]. }
    destruct (stat p c) eqn:E; try discriminate. destruct broken.
    + inversion H; subst. exact (G true eq_refl).
    + destruct (idle p) as [l|] eqn:El.
      * destruct (Nat.ltb (length l) (max_size p)); [discriminate|]. inversion H; subst. exact (G false eq_refl).
      * inversion H; subst. exact (G false eq_refl).
  - (* EShutdown *)
    destruct (idle p) as [l|] eqn:El.
    + inversion H; subst p'. clear H. destruct HI as (U & HS & HM).
      split; [|split; [|exact HC]]; cbn [idle upd stat next_id].
      * intros x. destruct (in_dec Nat.eq_dec x l) as [Hin|Hnin].
        -- rewrite set_all_in by exact Hin. discriminate.
        -- rewrite set_all_out by exact Hnin. rewrite <- HS. exact Hnin.
      * intros x Hx. rewrite set_all_out; [apply HF; exact Hx|]. rewrite HS, (HF x Hx). discriminate.
    + inversion H; subst. exact HInv.
  - (* EMaintScan *)
    destruct (idle p) as [l|] eqn:El; [|discriminate].
    destruct (forallb (fun d => nmem d l) dropped && nodup_b dropped) eqn:E; [|discriminate].
    apply andb_prop in E. destruct E as [Esub _]. inversion H; subst p'. clear H. destruct HI as (U & HS & HM).
    assert (Sub : forall d, In d dropped -> In d l).
    { intros d Hd. apply nmem_In. exact (proj1 (forallb_forall _ _) Esub d Hd). }
    split; [|split; [|exact HC]]; cbn [idle upd stat next_id max_size].
    + split; [apply NoDup_filter; exact U|]. split.
      * intros x. unfold remove_all. rewrite filter_In. destruct (in_dec Nat.eq_dec x dropped) as [Hin|Hnin].
        -- rewrite set_all_in by exact Hin. apply nmem_In in Hin. rewrite Hin. cbn. split; [intros [_ X]; discriminate|discriminate].
        -- rewrite set_all_out by exact Hnin. rewrite <- HS.
           destruct (nmem x dropped) eqn:Ex; [apply nmem_In in Ex; contradiction|]. cbn. tauto.
      * unfold remove_all. pose proof (filter_len_le (fun x => negb (nmem x dropped)) l). lia.
    + intros x Hx. rewrite set_all_out; [apply HF; exact Hx|]. intros Hd. apply Sub in Hd. rewrite HS, (HF x Hx) in Hd. discriminate.
  - destruct (idle p); inversion H; subst; exact HInv.
  - (* EMaintConnectOk *)
    destruct (Nat.eqb c (next_id p)) eqn:E; [|discriminate]. apply Nat.eqb_eq in E. subst c. inversion H; subst p'. clear H.
    assert (Fr : stat p (next_id p) = Fresh) by (apply HF; lia).
    split; [|split; [|exact HC]]; cbn [idle stat next_id max_size].
    + destruct (idle p) as [l|].
      * destruct HI as (U & HS & HM). split; [exact U|]. split; [|exact HM]. intros x. destruct (Nat.eq_dec x (next_id p)) as [->|Hne].
        -- rewrite set_stat_same. rewrite HS, Fr. split; discriminate.
        -- rewrite set_stat_other by exact Hne. apply HS.
      * intros x. destruct (Nat.eq_dec x (next_id p)) as [->|Hne]; [rewrite set_stat_same; discriminate|rewrite set_stat_other by exact Hne; apply HI].
    + intros x Hx. rewrite set_stat_other by lia. apply HF. lia.
  - (* EMaintPush *)
    destruct (is_stat (stat p c) MaintNew) eqn:E; [|discriminate]. apply is_stat_eq in E.
    destruct (idle p) as [l|] eqn:El; [|discriminate]. destruct (Nat.ltb (length l) (max_size p)) eqn:Em; [|discriminate].
    apply Nat.ltb_lt in Em. inversion H; subst p'. clear H. destruct HI as (U & HS & HM).
    assert (Nin : ~ In c l) by (rewrite HS, E; discriminate).
    split; [|split; [|exact HC]]; cbn [idle upd stat next_id max_size].
    + split; [apply NoDup_snoc'; assumption|]. split.
      * intros x. rewrite in_app_iff. cbn. destruct (Nat.eq_dec x c) as [->|Hne].
        -- rewrite set_stat_same. tauto.
        -- rewrite set_stat_other by exact Hne. rewrite <- HS. split; [intros [A|[A|[]]]; [exact A|congruence]|tauto].
      * rewrite app_length. cbn. lia.
    + intros x Hx. destruct (Nat.eq_dec x c) as [->|Hne]; [rewrite (HF c Hx) in E; discriminate|rewrite set_stat_other by exact Hne; apply HF; exact Hx].
  - (* EMaintDropNew *)
    destruct (is_stat (stat p c) MaintNew) eqn:E; [|discriminate]. apply is_stat_eq in E.
    assert (G : Inv (upd p (idle p) (set_stat (stat p) c Closed))).
    { split; [|split; [|exact HC]]; cbn [idle upd stat next_id max_size].
      + destruct (idle p) as [l|].
        * destruct HI as (U & HS & HM). split; [exact U|]. split; [|exact HM]. intros x. destruct (Nat.eq_dec x c) as [->|Hne].
          -- rewrite set_stat_same. rewrite HS, E. split; discriminate.
          -- rewrite set_stat_other by exact Hne. apply HS.
        * intros x. destruct (Nat.eq_dec x c) as [->|Hne]; [rewrite set_stat_same; discriminate|rewrite set_stat_other by exact Hne; apply HI].
      + intros x Hx. destruct (Nat.eq_dec x c) as [->|Hne]; [rewrite (HF c Hx) in E; discriminate|rewrite set_stat_other by exact Hne; apply HF; exact Hx]. }
    destruct (idle p) as [l|] eqn:El.
    + destruct (Nat.ltb (length l) (max_size p)); [discriminate|]. inversion H; subst. exact G.
    + inversion H; subst. exact G.
  - (* EMaintAbort *)
    destruct (is_stat (stat p c) Expiring) eqn:E; [|discriminate]. apply is_stat_eq in E. inversion H; subst p'. clear H.
    split; [|split; [|exact HC]]; cbn [idle upd stat next_id].
    + destruct (idle p) as [l|].
      * destruct HI as (U & HS & HM). split; [exact U|]. split; [|exact HM]. intros x. destruct (Nat.eq_dec x c) as [->|Hne].
        -- rewrite set_stat_same. rewrite HS, E. split; discriminate.
        -- rewrite set_stat_other by exact Hne. apply HS.
      * intros x. destruct (Nat.eq_dec x c) as [->|Hne]; [rewrite set_stat_same; discriminate|rewrite set_stat_other by exact Hne; apply HI].
    + intros x Hx. destruct (Nat.eq_dec x c) as [->|Hne]; [rewrite (HF c Hx) in E; discriminate|rewrite set_stat_other by exact Hne; apply HF; exact Hx].
Qed.

Lemma init_inv max : Inv (p_init max).
Proof. unfold Inv, p_init. cbn. repeat split; auto; try constructor; try lia; intros; try contradiction; discriminate. Qed.

Theorem run_inv tr : forall p p', Inv p -> run tr p = Some p' -> Inv p'.
Proof.
  induction tr as [|e tr IH]; intros p p' HI H; cbn [run] in H; [inversion H; subst; exact HI|].
  destruct (step p e) as [p1|] eqn:E; [|discriminate]. exact (IH p1 p' (step_inv p e p1 HI E) H).
Qed.

(* ---------- consequences ---------- *)
(* the life cycle of one connection: the only status changes any event can make *)
Inductive edge : cstat -> cstat -> Prop :=
| e_pop : edge Idle Probing
| e_probe_ok : edge Probing InUse
| e_probe_fail : edge Probing Closed
| e_connect : edge Fresh InUse
| e_send b : edge InUse (ToRecycle b)
| e_park : edge (ToRecycle false) Idle
| e_recycle_close b : edge (ToRecycle b) Closed
| e_shutdown : edge Idle Closed
| e_expire : edge Idle Expiring
| e_maint_new : edge Fresh MaintNew
| e_maint_push : edge MaintNew Idle
| e_maint_drop : edge MaintNew Closed
| e_maint_abort : edge Expiring Closed.

Lemma rev_head_in (l : list nat) x r : rev l = x :: r -> In x l.
Proof. intros E. rewrite <- (rev_involutive l), E. cbn. apply in_or_app. right. left. reflexivity. Qed.

Lemma set_stat_edge f c s x : edge (f c) s -> set_stat f c s x = f x \/ edge (f x) (set_stat f c s x).
Proof. intros E. destruct (Nat.eq_dec x c) as [->|Hne]; [rewrite set_stat_same; right; exact E|rewrite set_stat_other by exact Hne; left; reflexivity]. Qed.

Theorem step_edges p e p' c : Inv p -> step p e = Some p' -> stat p' c = stat p c \/ edge (stat p c) (stat p' c).
Proof.
  intros HInv H. pose proof HInv as (HI & HF & _).
  destruct e as [c0| | |c0|c0|c0| |c0|c0 cm|c0|c0| |dr| |c0|c0|c0|c0]; cbn [step] in H.
  - destruct (idle p) as [l|] eqn:El; [|discriminate]. destruct (rev l) as [|x r] eqn:Er; [discriminate|].
    destruct (Nat.eqb x c0) eqn:Ex; [|discriminate]. apply Nat.eqb_eq in Ex. subst x. inversion H; subst. cbn [stat upd].
    apply set_stat_edge. destruct HI as (_ & HS & _). rewrite (proj1 (HS c0) (rev_head_in l c0 r Er)). constructor.
  - destruct (idle p) as [[|? ?]|]; inversion H; subst; auto.
  - destruct (idle p); inversion H; subst; auto.
  - destruct (is_stat (stat p c0) Probing) eqn:E; [|discriminate]. apply is_stat_eq in E. inversion H; subst. cbn [stat upd].
    apply set_stat_edge. rewrite E. constructor.
  - destruct (is_stat (stat p c0) Probing) eqn:E; [|discriminate]. apply is_stat_eq in E. inversion H; subst. cbn [stat upd].
    apply set_stat_edge. rewrite E. constructor.
  - destruct (Nat.eqb c0 (next_id p)) eqn:E; [|discriminate]. apply Nat.eqb_eq in E. subst c0. inversion H; subst. cbn [stat].
    apply set_stat_edge. rewrite (HF (next_id p)) by lia. constructor.
  - inversion H; subst; auto.
  - destruct (is_stat (stat p c0) InUse) eqn:E; [|discriminate]. apply is_stat_eq in E. inversion H; subst. cbn [stat].
    apply set_stat_edge. rewrite E. constructor.
  - destruct (is_stat (stat p c0) InUse) eqn:E; [|discriminate]. apply is_stat_eq in E. inversion H; subst. cbn [stat].
    apply set_stat_edge. rewrite E. constructor.
  - destruct (is_stat (stat p c0) (ToRecycle false)) eqn:E; [|discriminate]. apply is_stat_eq in E.
    destruct (idle p) as [l|]; [|discriminate]. destruct (Nat.ltb (length l) (max_size p)); [|discriminate].
    inversion H; subst. cbn [stat upd]. apply set_stat_edge. rewrite E. constructor.
  - destruct (stat p c0) eqn:E; try discriminate. destruct broken.
    + inversion H; subst. cbn [stat upd]. apply set_stat_edge. rewrite E. constructor.
    + destruct (idle p) as [l|].
      * destruct (Nat.ltb (length l) (max_size p)); [discriminate|]. inversion H; subst. cbn [stat upd].
        apply set_stat_edge. rewrite E. constructor.
      * inversion H; subst. cbn [stat upd]. apply set_stat_edge. rewrite E. constructor.
  - destruct (idle p) as [l|] eqn:El.
    + inversion H; subst. cbn [stat upd]. unfold set_all. destruct (nmem c l) eqn:En; [|left; reflexivity].
      right. apply nmem_In in En. destruct HI as (_ & HS & _). rewrite (proj1 (HS c) En). constructor.
    + inversion H; subst; auto.
  - destruct (idle p) as [l|] eqn:El; [|discriminate].
    destruct (forallb (fun d => nmem d l) dr && nodup_b dr) eqn:E; [|discriminate]. apply andb_prop in E. destruct E as [Es _].
    inversion H; subst. cbn [stat upd]. unfold set_all. destruct (nmem c dr) eqn:En; [|left; reflexivity].
    right. apply nmem_In in En. pose proof (proj1 (forallb_forall _ _) Es c En) as X. apply nmem_In in X.
    destruct HI as (_ & HS & _). rewrite (proj1 (HS c) X). constructor.
  - destruct (idle p); inversion H; subst; auto.
  - destruct (Nat.eqb c0 (next_id p)) eqn:E; [|discriminate]. apply Nat.eqb_eq in E. subst c0. inversion H; subst. cbn [stat].
    apply set_stat_edge. rewrite (HF (next_id p)) by lia. constructor.
  - destruct (is_stat (stat p c0) MaintNew) eqn:E; [|discriminate]. apply is_stat_eq in E.
    destruct (idle p) as [l|]; [|discriminate]. destruct (Nat.ltb (length l) (max_size p)); [|discriminate].
    inversion H; subst. cbn [stat upd]. apply set_stat_edge. rewrite E. constructor.
  - destruct (is_stat (stat p c0) MaintNew) eqn:E; [|discriminate]. apply is_stat_eq in E.
    destruct (idle p) as [l|].
    + destruct (Nat.ltb (length l) (max_size p)); [discriminate|]. inversion H; subst. cbn [stat upd].
      apply set_stat_edge. rewrite E. constructor.
    + inversion H; subst. cbn [stat upd]. apply set_stat_edge. rewrite E. constructor.
  - destruct (is_stat (stat p c0) Expiring) eqn:E; [|discriminate]. apply is_stat_eq in E. inversion H; subst. cbn [stat upd].
    apply set_stat_edge. rewrite E. constructor.
Qed.

(* a closed connection stays closed: nothing is ever done with it again *)
Lemma step_closed p e p' c : Inv p -> step p e = Some p' -> stat p c = Closed -> stat p' c = Closed.
Proof.
  intros HI H Hc. destruct (step_edges p e p' c HI H) as [E|E]; [congruence|]. rewrite Hc in E. inversion E.
Qed.

(* a connection on which a send failed is only ever closed: it is never parked, probed or used again *)
Lemma step_broken p e p' c : Inv p -> step p e = Some p' -> stat p c = ToRecycle true ->
  stat p' c = ToRecycle true \/ stat p' c = Closed.
Proof.
  intros HI H Hc. destruct (step_edges p e p' c HI H) as [E|E]; [left; congruence|]. rewrite Hc in E. inversion E. right. reflexivity.
Qed.

Lemma run_broken tr : forall p p' c, Inv p -> run tr p = Some p' -> stat p c = ToRecycle true \/ stat p c = Closed ->
  stat p' c = ToRecycle true \/ stat p' c = Closed.
Proof.
  induction tr as [|e tr IH]; intros p p' c HI H Hc; cbn [run] in H; [inversion H; subst; exact Hc|].
  destruct (step p e) as [p1|] eqn:E; [|discriminate]. apply (IH p1 p' c (step_inv p e p1 HI E) H).
  destruct Hc as [Hc|Hc]; [exact (step_broken p e p1 c HI E Hc)|right; exact (step_closed p e p1 c HI E Hc)].
Qed.

(* shutdown is final *)
Lemma step_shutdown_final p e p' : step p e = Some p' -> idle p = None -> idle p' = None.
Proof.
  intros H Hn. destruct e; cbn [step] in H; rewrite ?Hn in H;
  repeat match goal with
  | H : match ?x with _ => _ end = Some _ |- _ => destruct x eqn:?; try discriminate
  | H : (if ?x then _ else _) = Some _ |- _ => destruct x eqn:?; try discriminate
  end; inversion H; subst; cbn [idle upd]; auto.
Qed.
Lemma run_shutdown_final tr : forall p p', run tr p = Some p' -> idle p = None -> idle p' = None.
Proof.
  induction tr as [|e tr IH]; intros p p' H Hn; cbn [run] in H; [inversion H; subst; exact Hn|].
  destruct (step p e) as [p1|] eqn:E; [|discriminate]. exact (IH p1 p' H (step_shutdown_final p e p1 E Hn)).
Qed.
Lemma shutdown_closes_idle p p' l : step p EShutdown = Some p' -> idle p = Some l ->
  idle p' = None /\ forall c, In c l -> stat p' c = Closed.
Proof.
  intros H Hl. cbn [step] in H. rewrite Hl in H. inversion H; subst. cbn. split; [reflexivity|].
  intros c Hc. apply set_all_in. exact Hc.
Qed.

(* after shutdown: no connection can be taken, parked or added; a sender learns it at once *)
Lemma after_shutdown_no_pop p c : idle p = None -> step p (EPop c) = None /\ step p EPopEmpty = None /\
  step p (ERecyclePark c) = None /\ step p (EMaintPush c) = None.
Proof.
  intros H. cbn [step]. rewrite H. repeat split; try reflexivity.
  - destruct (is_stat (stat p c) (ToRecycle false)); reflexivity.
  - destruct (is_stat (stat p c) MaintNew); reflexivity.
Qed.

(* hand-over preconditions: what state a connection is in when a sender gets it *)
Lemma pop_takes_idle p c p' : Inv p -> step p (EPop c) = Some p' -> stat p c = Idle /\ stat p' c = Probing.
Proof.
  intros (HI & _) H. cbn [step] in H. destruct (idle p) as [l|] eqn:El; [|discriminate].
  destruct (rev l) as [|x r] eqn:Er; [discriminate|]. destruct (Nat.eqb x c) eqn:Ex; [|discriminate].
  apply Nat.eqb_eq in Ex. subst x. inversion H; subst. cbn. rewrite set_stat_same. split; [|reflexivity].
  destruct HI as (_ & HS & _). apply HS. rewrite <- (rev_involutive l), Er. cbn. apply in_or_app. right. left. reflexivity.
Qed.
Lemma send_needs_probe_or_fresh p c p' : step p (ESendOk c) = Some p' -> stat p c = InUse.
Proof. cbn [step]. destruct (is_stat (stat p c) InUse) eqn:E; [|discriminate]. intros _. apply is_stat_eq. exact E. Qed.
Lemma inuse_from p e p' c : step p e = Some p' -> stat p c <> InUse -> stat p' c = InUse ->
  (e = EProbeOk c /\ stat p c = Probing) \/ (e = EConnectOk c /\ c = next_id p).
Proof.
  intros H Hn Hi. destruct e; cbn [step] in H;
  repeat match goal with
  | H : match ?x with _ => _ end = Some _ |- _ => destruct x eqn:?; try discriminate
  | H : (if ?x then _ else _) = Some _ |- _ => destruct x eqn:?; try discriminate
  end; inversion H; subst; cbn [stat upd] in Hi; try contradiction;
  try (unfold set_stat in Hi; destruct (Nat.eqb c _) eqn:Ec; [discriminate|contradiction]);
  try (unfold set_all in Hi; destruct (nmem c _); [discriminate|contradiction]).
  - unfold set_stat in Hi. destruct (Nat.eqb c c0) eqn:Ec; [|contradiction]. apply Nat.eqb_eq in Ec. subst c0.
    left. split; [reflexivity|]. apply is_stat_eq. assumption.
  - unfold set_stat in Hi. destruct (Nat.eqb c c0) eqn:Ec; [|contradiction]. apply Nat.eqb_eq in Ec. subst c0.
    right. split; [reflexivity|]. apply Nat.eqb_eq. assumption.
Qed.
