(* Pool invariants, for every event sequence the model accepts (= every interleaving of any number of
   senders, maintenance passes and shutdowns). *)
From LV Require Import Base.Bytes Model.Pool.
From Coq Require Import Lia Arith PeanoNat.

Definition Inv (p : pstate) : Prop :=
  match idle p with
  | Some l => NoDup l /\ (forall c, In c l <-> stat p c = Idle) /\ (length l <= max_size p)%nat
  | None => forall c, stat p c <> Idle
  end /\
  (sends_ok p <= commits p <= sends p)%nat.

Lemma set_stat_same f c s : set_stat f c s c = s.
Proof. unfold set_stat. rewrite Nat.eqb_refl. reflexivity. Qed.
Lemma set_stat_other f c s x : x <> c -> set_stat f c s x = f x.
Proof. intros H. unfold set_stat. destruct (Nat.eqb x c) eqn:E; [apply Nat.eqb_eq in E; contradiction|reflexivity]. Qed.
Lemma nmem_In x l : nmem x l = true <-> In x l.
Proof.
  induction l as [|y l IH]; cbn; [split; [discriminate|tauto]|]. rewrite orb_true_iff, IH, Nat.eqb_eq. split; intros [H|H]; auto.
Qed.
Lemma set_all_in f cs s x : In x cs -> set_all f cs s x = s.
Proof. intros H. unfold set_all. apply nmem_In in H. rewrite H. reflexivity. Qed.
Lemma set_all_out f cs s x : ~ In x cs -> set_all f cs s x = f x.
Proof. intros H. unfold set_all. destruct (nmem x cs) eqn:E; [apply nmem_In in E; contradiction|reflexivity]. Qed.

Lemma is_stat_eq a b : is_stat a b = true -> a = b.
Proof. destruct a, b; cbn; try discriminate; auto. intros H. apply Bool.eqb_prop in H. subst. reflexivity. Qed.

Lemma NoDup_snoc' (l : list nat) k : NoDup l -> ~ In k l -> NoDup (l ++ [k]).
Proof.
  induction l as [|x l IH]; intros U Hk; cbn; [constructor; [intros []|constructor]|].
  inversion U; subst. constructor.
  - intros Hin. apply in_app_or in Hin. destruct Hin as [Hin|[<-|[]]]; [contradiction|]. apply Hk. left; reflexivity.
  - apply IH; [assumption|]. intros Hin. apply Hk. right; exact Hin.
Qed.
Lemma NoDup_rev_tail (x : nat) r l : rev l = x :: r -> NoDup l -> NoDup (rev r) /\ ~ In x (rev r) /\ l = rev r ++ [x].
Proof.
  intros E U. assert (L : l = rev r ++ [x]) by (rewrite <- (rev_involutive l), E; reflexivity).
  subst l. apply NoDup_remove in U. rewrite app_nil_r in U. tauto.
Qed.
Lemma filter_len_le {A} (f : A -> bool) l : (length (filter f l) <= length l)%nat.
Proof. induction l as [|x l IH]; cbn; [lia|]. destruct (f x); cbn; lia. Qed.

Lemma returnable_not_idle s : returnable s = true -> s <> Idle.
Proof. destruct s; cbn; intros; discriminate. Qed.

(* changing the status of a connection that is neither idle before nor after keeps the idle-set part *)
Definition IdleInv (i : option (list nat)) (f : nat -> cstat) (max : nat) : Prop :=
  match i with
  | Some l => NoDup l /\ (forall c, In c l <-> f c = Idle) /\ (length l <= max)%nat
  | None => forall c, f c <> Idle
  end.
Lemma idle_inv_set i f max c s : IdleInv i f max -> f c <> Idle -> s <> Idle -> IdleInv i (set_stat f c s) max.
Proof.
  intros H Hc Hs. destruct i as [l|]; cbn in *.
  - destruct H as (U & HS & HM). split; [exact U|]. split; [|exact HM]. intros x. destruct (Nat.eq_dec x c) as [->|Hne].
    + rewrite set_stat_same. rewrite HS. split; [intros X; contradiction|intros X; contradiction].
    + rewrite set_stat_other by exact Hne. apply HS.
  - intros x. destruct (Nat.eq_dec x c) as [->|Hne]; [rewrite set_stat_same; exact Hs|rewrite set_stat_other by exact Hne; apply H].
Qed.
Lemma idle_inv_push l f max c : IdleInv (Some l) f max -> f c <> Idle -> (length l < max)%nat ->
  IdleInv (Some (l ++ [c])) (set_stat f c Idle) max.
Proof.
  intros (U & HS & HM) Hc Hl. assert (Nin : ~ In c l) by (rewrite HS; exact Hc). cbn.
  split; [apply NoDup_snoc'; assumption|]. split.
  - intros x. rewrite in_app_iff. cbn. destruct (Nat.eq_dec x c) as [->|Hne].
    + rewrite set_stat_same. tauto.
    + rewrite set_stat_other by exact Hne. rewrite <- HS. split; [intros [A|[A|[]]]; [exact A|congruence]|tauto].
  - rewrite app_length. cbn. lia.
Qed.

Theorem step_inv p e p' : Inv p -> step p e = Some p' -> Inv p'.
Proof.
  intros HInv H. pose proof HInv as (HI & HC). fold (IdleInv (idle p) (stat p) (max_size p)) in HI.
  assert (G : forall c s, stat p c <> Idle -> s <> Idle -> Inv (upd p (idle p) (set_stat (stat p) c s))).
  { intros c s Hc Hs. split; [|exact HC]. cbn [idle upd stat max_size]. apply (idle_inv_set _ _ _ c s HI Hc Hs). }
  destruct e as [c0| | |c0|c0|c0| |c0|c0 cm|c0|c0| |dr| |c0|c0|c0|c0]; cbn [step] in H.
  - (* EPop *)
    destruct (idle p) as [l|] eqn:El; [|discriminate]. destruct (rev l) as [|x r] eqn:Er; [discriminate|].
    destruct (Nat.eqb x c0) eqn:Ex; [|discriminate]. apply Nat.eqb_eq in Ex. subst x. inversion H; subst p'. clear H.
    destruct HI as (U & HS & HM). destruct (NoDup_rev_tail c0 r l Er U) as (U' & Nin & ->).
    split; [|exact HC]. cbn [idle upd stat max_size]. split; [exact U'|]. split.
    + intros x. destruct (Nat.eq_dec x c0) as [->|Hne].
      * rewrite set_stat_same. split; [intros Hx; contradiction|discriminate].
      * rewrite set_stat_other by exact Hne. rewrite <- HS. rewrite in_app_iff. cbn. split; [tauto|]. intros [A|[A|[]]]; [exact A|congruence].
    + rewrite app_length in HM. cbn in HM. lia.
  - destruct (idle p) as [[|? ?]|] eqn:El; inversion H; subst. split; [cbn; rewrite El; exact HI|exact HC].
  - destruct (idle p); inversion H; subst; exact HInv.
  - destruct (is_stat (stat p c0) Probing) eqn:E; [|discriminate]. apply is_stat_eq in E. inversion H; subst.
    apply G; [rewrite E|]; discriminate.
  - destruct (is_stat (stat p c0) Probing) eqn:E; [|discriminate]. apply is_stat_eq in E. inversion H; subst.
    apply G; [rewrite E|]; discriminate.
  - destruct (pending p) as [|n]; [discriminate|].
    destruct (is_stat (stat p c0) Fresh) eqn:E; [|discriminate]. apply is_stat_eq in E. inversion H; subst.
    apply (G c0 InUse); [rewrite E|]; discriminate.
  - destruct (pending p) as [|n]; [discriminate|]. inversion H; subst. exact HInv.
  - destruct (is_stat (stat p c0) InUse) eqn:E; [|discriminate]. apply is_stat_eq in E. inversion H; subst p'. clear H.
    split; [|cbn; lia]. cbn [idle stat max_size with_counts upd]. apply idle_inv_set; [exact HI|rewrite E; discriminate|discriminate].
  - destruct (is_stat (stat p c0) InUse) eqn:E; [|discriminate]. apply is_stat_eq in E. inversion H; subst p'. clear H.
    split; [|cbn; destruct cm; lia]. cbn [idle stat max_size with_counts upd]. apply idle_inv_set; [exact HI|rewrite E; discriminate|discriminate].
  - destruct (returnable (stat p c0)) eqn:E; [|discriminate]. apply returnable_not_idle in E.
    destruct (idle p) as [l|] eqn:El; [|discriminate]. destruct (Nat.ltb (length l) (max_size p)) eqn:Em; [|discriminate].
    apply Nat.ltb_lt in Em. inversion H; subst p'. clear H. split; [|exact HC]. cbn [idle upd stat max_size].
    apply idle_inv_push; [exact HI|exact E|exact Em].
  - destruct (is_stat (stat p c0) (ToRecycle true)) eqn:E.
    + apply is_stat_eq in E. inversion H; subst. apply G; [rewrite E|]; discriminate.
    + destruct (returnable (stat p c0)) eqn:E2; [|discriminate]. apply returnable_not_idle in E2. destruct (idle p) as [l|] eqn:El.
      * destruct (Nat.ltb (length l) (max_size p)); [discriminate|]. inversion H; subst. apply G; [exact E2|discriminate].
      * inversion H; subst. apply G; [exact E2|discriminate].
  - destruct (idle p) as [l|] eqn:El.
    + inversion H; subst p'. clear H. destruct HI as (U & HS & HM). split; [|exact HC]. cbn [idle upd stat].
      intros x. destruct (in_dec Nat.eq_dec x l) as [Hin|Hnin].
      * rewrite set_all_in by exact Hin. discriminate.
      * rewrite set_all_out by exact Hnin. rewrite <- HS. exact Hnin.
    + inversion H; subst. exact HInv.
  - destruct (idle p) as [l|] eqn:El; [|discriminate].
    destruct (forallb (fun d => nmem d l) dr && nodup_b dr) eqn:E; [|discriminate].
    inversion H; subst p'. clear H. destruct HI as (U & HS & HM).
    split; [|exact HC]. cbn [idle upd stat max_size]. split; [apply NoDup_filter; exact U|]. split.
    + intros x. unfold remove_all. rewrite filter_In. destruct (in_dec Nat.eq_dec x dr) as [Hin|Hnin].
      * rewrite set_all_in by exact Hin. apply nmem_In in Hin. rewrite Hin. cbn. split; [intros [_ X]; discriminate|discriminate].
      * rewrite set_all_out by exact Hnin. rewrite <- HS.
        destruct (nmem x dr) eqn:Ex; [apply nmem_In in Ex; contradiction|]. cbn. tauto.
    + unfold remove_all. pose proof (filter_len_le (fun x => negb (nmem x dr)) l). lia.
  - destruct (idle p); inversion H; subst; exact HInv.
  - destruct (is_stat (stat p c0) Fresh) eqn:E; [|discriminate]. apply is_stat_eq in E. inversion H; subst.
    apply (G c0 MaintNew); [rewrite E|]; discriminate.
  - destruct (is_stat (stat p c0) MaintNew) eqn:E; [|discriminate]. apply is_stat_eq in E.
    destruct (idle p) as [l|] eqn:El; [|discriminate]. destruct (Nat.ltb (length l) (max_size p)) eqn:Em; [|discriminate].
    apply Nat.ltb_lt in Em. inversion H; subst p'. clear H. split; [|exact HC]. cbn [idle upd stat max_size].
    apply idle_inv_push; [exact HI|rewrite E; discriminate|exact Em].
  - destruct (is_stat (stat p c0) MaintNew) eqn:E; [|discriminate]. apply is_stat_eq in E.
    destruct (idle p) as [l|] eqn:El.
    + destruct (Nat.ltb (length l) (max_size p)); [discriminate|]. inversion H; subst. apply G; [rewrite E|]; discriminate.
    + inversion H; subst. apply G; [rewrite E|]; discriminate.
  - destruct (is_stat (stat p c0) Expiring) eqn:E; [|discriminate]. apply is_stat_eq in E. inversion H; subst.
    apply G; [rewrite E|]; discriminate.
Qed.

Lemma init_inv max : Inv (p_init max).
Proof. unfold Inv, p_init. cbn. repeat split; auto; try constructor; try lia; intros; try contradiction; discriminate. Qed.

Theorem run_inv tr : forall p p', Inv p -> run tr p = Some p' -> Inv p'.
Proof.
  induction tr as [|e tr IH]; intros p p' HI H; cbn [run] in H; [inversion H; subst; exact HI|].
  destruct (step p e) as [p1|] eqn:E; [|discriminate]. exact (IH p1 p' (step_inv p e p1 HI E) H).
Qed.

(* ---------- consequences ---------- *)
(* the life cycle of one connection: the only status changes any event can make *)
Inductive edge : cstat -> cstat -> Prop :=
| e_pop : edge Idle Probing
| e_probe_ok : edge Probing InUse
| e_probe_fail : edge Probing Closed
| e_connect : edge Fresh InUse
| e_send b : edge InUse (ToRecycle b)
| e_park : edge (ToRecycle false) Idle
| e_park_unused : edge InUse Idle
| e_recycle_close b : edge (ToRecycle b) Closed
| e_close_unused : edge InUse Closed
| e_shutdown : edge Idle Closed
| e_expire : edge Idle Expiring
| e_maint_new : edge Fresh MaintNew
| e_maint_push : edge MaintNew Idle
| e_maint_drop : edge MaintNew Closed
| e_maint_abort : edge Expiring Closed.

Lemma rev_head_in (l : list nat) x r : rev l = x :: r -> In x l.
Proof. intros E. rewrite <- (rev_involutive l), E. cbn. apply in_or_app. right. left. reflexivity. Qed.

Lemma set_stat_edge f c s x : edge (f c) s -> set_stat f c s x = f x \/ edge (f x) (set_stat f c s x).
Proof. intros E. destruct (Nat.eq_dec x c) as [->|Hne]; [rewrite set_stat_same; right; exact E|rewrite set_stat_other by exact Hne; left; reflexivity]. Qed.

Lemma returnable_edges s : returnable s = true -> edge s Idle /\ edge s Closed.
Proof. destruct s as [| | | |[|]| | |]; cbn; try discriminate; intros _; split; constructor. Qed.

Theorem step_edges p e p' c : Inv p -> step p e = Some p' -> stat p' c = stat p c \/ edge (stat p c) (stat p' c).
Proof.
  intros HInv H. pose proof HInv as (HI & _).
  destruct e as [c0| | |c0|c0|c0| |c0|c0 cm|c0|c0| |dr| |c0|c0|c0|c0]; cbn [step] in H.
  - destruct (idle p) as [l|] eqn:El; [|discriminate]. destruct (rev l) as [|x r] eqn:Er; [discriminate|].
    destruct (Nat.eqb x c0) eqn:Ex; [|discriminate]. apply Nat.eqb_eq in Ex. subst x. inversion H; subst. cbn [stat upd].
    apply set_stat_edge. destruct HI as (_ & HS & _). rewrite (proj1 (HS c0) (rev_head_in l c0 r Er)). constructor.
  - destruct (idle p) as [[|? ?]|]; inversion H; subst; auto.
  - destruct (idle p); inversion H; subst; auto.
  - destruct (is_stat (stat p c0) Probing) eqn:E; [|discriminate]. apply is_stat_eq in E. inversion H; subst. cbn [stat upd].
    apply set_stat_edge. rewrite E. constructor.
  - destruct (is_stat (stat p c0) Probing) eqn:E; [|discriminate]. apply is_stat_eq in E. inversion H; subst. cbn [stat upd].
    apply set_stat_edge. rewrite E. constructor.
  - destruct (pending p) as [|n]; [discriminate|].
    destruct (is_stat (stat p c0) Fresh) eqn:E; [|discriminate]. apply is_stat_eq in E. inversion H; subst. cbn [stat upd with_pending].
    apply set_stat_edge. rewrite E. constructor.
  - destruct (pending p) as [|n]; [discriminate|]. inversion H; subst; auto.
  - destruct (is_stat (stat p c0) InUse) eqn:E; [|discriminate]. apply is_stat_eq in E. inversion H; subst. cbn [stat upd with_counts].
    apply set_stat_edge. rewrite E. constructor.
  - destruct (is_stat (stat p c0) InUse) eqn:E; [|discriminate]. apply is_stat_eq in E. inversion H; subst. cbn [stat upd with_counts].
    apply set_stat_edge. rewrite E. constructor.
  - destruct (returnable (stat p c0)) eqn:E; [|discriminate]. apply returnable_edges in E.
    destruct (idle p) as [l|]; [|discriminate]. destruct (Nat.ltb (length l) (max_size p)); [|discriminate].
    inversion H; subst. cbn [stat upd]. apply set_stat_edge. apply E.
  - destruct (is_stat (stat p c0) (ToRecycle true)) eqn:E.
    + apply is_stat_eq in E. inversion H; subst. cbn [stat upd]. apply set_stat_edge. rewrite E. constructor.
    + destruct (returnable (stat p c0)) eqn:E2; [|discriminate]. apply returnable_edges in E2. destruct (idle p) as [l|].
      * destruct (Nat.ltb (length l) (max_size p)); [discriminate|]. inversion H; subst. cbn [stat upd].
        apply set_stat_edge. apply E2.
      * inversion H; subst. cbn [stat upd]. apply set_stat_edge. apply E2.
  - destruct (idle p) as [l|] eqn:El.
    + inversion H; subst. cbn [stat upd]. unfold set_all. destruct (nmem c l) eqn:En; [|left; reflexivity].
      right. apply nmem_In in En. destruct HI as (_ & HS & _). rewrite (proj1 (HS c) En). constructor.
    + inversion H; subst; auto.
  - destruct (idle p) as [l|] eqn:El; [|discriminate].
    destruct (forallb (fun d => nmem d l) dr && nodup_b dr) eqn:E; [|discriminate]. apply andb_prop in E. destruct E as [Es _].
    inversion H; subst. cbn [stat upd]. unfold set_all. destruct (nmem c dr) eqn:En; [|left; reflexivity].
    right. apply nmem_In in En. pose proof (proj1 (forallb_forall _ _) Es c En) as X. apply nmem_In in X.
    destruct HI as (_ & HS & _). rewrite (proj1 (HS c) X). constructor.
  - destruct (idle p); inversion H; subst; auto.
  - destruct (is_stat (stat p c0) Fresh) eqn:E; [|discriminate]. apply is_stat_eq in E. inversion H; subst. cbn [stat upd].
    apply set_stat_edge. rewrite E. constructor.
  - destruct (is_stat (stat p c0) MaintNew) eqn:E; [|discriminate]. apply is_stat_eq in E.
    destruct (idle p) as [l|]; [|discriminate]. destruct (Nat.ltb (length l) (max_size p)); [|discriminate].
    inversion H; subst. cbn [stat upd]. apply set_stat_edge. rewrite E. constructor.
  - destruct (is_stat (stat p c0) MaintNew) eqn:E; [|discriminate]. apply is_stat_eq in E.
    destruct (idle p) as [l|].
    + destruct (Nat.ltb (length l) (max_size p)); [discriminate|]. inversion H; subst. cbn [stat upd].
      apply set_stat_edge. rewrite E. constructor.
    + inversion H; subst. cbn [stat upd]. apply set_stat_edge. rewrite E. constructor.
  - destruct (is_stat (stat p c0) Expiring) eqn:E; [|discriminate]. apply is_stat_eq in E. inversion H; subst. cbn [stat upd].
    apply set_stat_edge. rewrite E. constructor.
Qed.

(* a closed connection stays closed: nothing is ever done with it again *)
Lemma step_closed p e p' c : Inv p -> step p e = Some p' -> stat p c = Closed -> stat p' c = Closed.
Proof.
  intros HI H Hc. destruct (step_edges p e p' c HI H) as [E|E]; [congruence|]. rewrite Hc in E. inversion E.
Qed.

(* a connection on which a send failed is only ever closed: it is never parked, probed or used again *)
Lemma step_broken p e p' c : Inv p -> step p e = Some p' -> stat p c = ToRecycle true ->
  stat p' c = ToRecycle true \/ stat p' c = Closed.
Proof.
  intros HI H Hc. destruct (step_edges p e p' c HI H) as [E|E]; [left; congruence|]. rewrite Hc in E. inversion E. right. reflexivity.
Qed.

Lemma run_broken tr : forall p p' c, Inv p -> run tr p = Some p' -> stat p c = ToRecycle true \/ stat p c = Closed ->
  stat p' c = ToRecycle true \/ stat p' c = Closed.
Proof.
  induction tr as [|e tr IH]; intros p p' c HI H Hc; cbn [run] in H; [inversion H; subst; exact Hc|].
  destruct (step p e) as [p1|] eqn:E; [|discriminate]. apply (IH p1 p' c (step_inv p e p1 HI E) H).
  destruct Hc as [Hc|Hc]; [exact (step_broken p e p1 c HI E Hc)|right; exact (step_closed p e p1 c HI E Hc)].
Qed.

(* shutdown is final *)
Lemma step_shutdown_final p e p' : step p e = Some p' -> idle p = None -> idle p' = None.
Proof.
  intros H Hn. destruct e; cbn [step] in H; rewrite ?Hn in H;
  repeat match goal with
  | H : match ?x with _ => _ end = Some _ |- _ => destruct x eqn:?; try discriminate
  | H : (if ?x then _ else _) = Some _ |- _ => destruct x eqn:?; try discriminate
  end; inversion H; subst; cbn [idle upd]; auto.
Qed.
Lemma run_shutdown_final tr : forall p p', run tr p = Some p' -> idle p = None -> idle p' = None.
Proof.
  induction tr as [|e tr IH]; intros p p' H Hn; cbn [run] in H; [inversion H; subst; exact Hn|].
  destruct (step p e) as [p1|] eqn:E; [|discriminate]. exact (IH p1 p' H (step_shutdown_final p e p1 E Hn)).
Qed.
Lemma shutdown_closes_idle p p' l : step p EShutdown = Some p' -> idle p = Some l ->
  idle p' = None /\ forall c, In c l -> stat p' c = Closed.
Proof.
  intros H Hl. cbn [step] in H. rewrite Hl in H. inversion H; subst. cbn. split; [reflexivity|].
  intros c Hc. apply set_all_in. exact Hc.
Qed.

(* after shutdown: no connection can be taken, parked or added; a sender learns it at once *)
Lemma after_shutdown_no_pop p c : idle p = None -> step p (EPop c) = None /\ step p EPopEmpty = None /\
  step p (ERecyclePark c) = None /\ step p (EMaintPush c) = None.
Proof.
  intros H. cbn [step]. rewrite H. repeat split; try reflexivity.
  - destruct (returnable (stat p c)); reflexivity.
  - destruct (is_stat (stat p c) MaintNew); reflexivity.
Qed.

(* hand-over preconditions: what state a connection is in when a sender gets it *)
Lemma pop_takes_idle p c p' : Inv p -> step p (EPop c) = Some p' -> stat p c = Idle /\ stat p' c = Probing.
Proof.
  intros (HI & _) H. cbn [step] in H. destruct (idle p) as [l|] eqn:El; [|discriminate].
  destruct (rev l) as [|x r] eqn:Er; [discriminate|]. destruct (Nat.eqb x c) eqn:Ex; [|discriminate].
  apply Nat.eqb_eq in Ex. subst x. inversion H; subst. cbn. rewrite set_stat_same. split; [|reflexivity].
  destruct HI as (_ & HS & _). apply HS. rewrite <- (rev_involutive l), Er. cbn. apply in_or_app. right. left. reflexivity.
Qed.
Lemma send_needs_probe_or_fresh p c p' : step p (ESendOk c) = Some p' -> stat p c = InUse.
Proof. cbn [step]. destruct (is_stat (stat p c) InUse) eqn:E; [|discriminate]. intros _. apply is_stat_eq. exact E. Qed.
Lemma inuse_from p e p' c : step p e = Some p' -> stat p c <> InUse -> stat p' c = InUse ->
  (e = EProbeOk c /\ stat p c = Probing) \/ (e = EConnectOk c /\ stat p c = Fresh).
Proof.
  intros H Hn Hi. destruct e; cbn [step] in H;
  repeat match goal with
  | H : match ?x with _ => _ end = Some _ |- _ => destruct x eqn:?; try discriminate
  | H : (if ?x then _ else _) = Some _ |- _ => destruct x eqn:?; try discriminate
  end; inversion H; subst; cbn [stat upd with_pending with_counts] in Hi; try contradiction;
  try (unfold set_stat in Hi; destruct (Nat.eqb c _) eqn:Ec; [discriminate|contradiction]);
  try (unfold set_all in Hi; destruct (nmem c _); [discriminate|contradiction]).
  - unfold set_stat in Hi. destruct (Nat.eqb c c0) eqn:Ec; [|contradiction]. apply Nat.eqb_eq in Ec. subst c0.
    left. split; [reflexivity|]. apply is_stat_eq. assumption.
  - unfold set_stat in Hi. destruct (Nat.eqb c c0) eqn:Ec; [|contradiction]. apply Nat.eqb_eq in Ec. subst c0.
    right. split; [reflexivity|]. apply is_stat_eq. assumption.
Qed.

(* ---------- one send at a time, one transaction per hand-over ---------- *)
(* Per connection, the events hand-over (H: probe succeeded / connected), send (S) and return (R) in any
   accepted trace spell (H S? R)*: a connection is never handed to a second sender before the first one
   returned it, and carries at most one transaction per hand-over. *)
Local Open Scope nat_scope.
Inductive sym := SH | SS | SR.
Definition sym_of (c : nat) (e : event) : option sym :=
  match e with
  | EProbeOk x | EConnectOk x => if Nat.eqb c x then Some SH else None
  | ESendOk x | ESendErr x _ => if Nat.eqb c x then Some SS else None
  | ERecyclePark x | ERecycleClose x => if Nat.eqb c x then Some SR else None
  | _ => None
  end.
Definition hstate (s : cstat) : nat := match s with InUse => 1 | ToRecycle _ => 2 | _ => 0 end.
Definition hstep (q : nat) (y : sym) : option nat :=
  match q, y with
  | 0, SH => Some 1
  | 1, SS => Some 2
  | 1, SR => Some 0
  | 2, SR => Some 0
  | _, _ => None
  end.
Fixpoint hrun (q : nat) (l : list sym) : option nat :=
  match l with [] => Some q | y :: r => match hstep q y with Some q' => hrun q' r | None => None end end.
Fixpoint proj (c : nat) (tr : list event) : list sym :=
  match tr with [] => [] | e :: r => match sym_of c e with Some y => y :: proj c r | None => proj c r end end.

Ltac break_step H :=
  repeat match type of H with
  | match ?x with _ => _ end = Some _ => destruct x eqn:?; try discriminate
  | (if ?x then _ else _) = Some _ => destruct x eqn:?; try discriminate
  end; inversion H; subst; clear H.

Lemma returnable_hstate s : returnable s = true -> hstate s = 1 \/ hstate s = 2.
Proof. destruct s as [| | | |[|]| | |]; cbn; try discriminate; auto. Qed.

Lemma step_session p e p' c : Inv p -> step p e = Some p' ->
  match sym_of c e with
  | Some y => hstep (hstate (stat p c)) y = Some (hstate (stat p' c))
  | None => hstate (stat p' c) = hstate (stat p c)
  end.
Proof.
  intros HInv H. pose proof HInv as (HI & _).
  destruct e as [c0| | |c0|c0|c0| |c0|c0 cm|c0|c0| |dr| |c0|c0|c0|c0]; cbn [step] in H; cbn [sym_of].
  - (* EPop *) destruct (idle p) as [l|] eqn:El; [|discriminate]. destruct (rev l) as [|x r] eqn:Er; [discriminate|].
    destruct (Nat.eqb x c0) eqn:Ex; [|discriminate]. apply Nat.eqb_eq in Ex. subst x. inversion H; subst. cbn [stat upd].
    unfold set_stat. destruct (Nat.eqb c c0) eqn:Ec; [|reflexivity]. apply Nat.eqb_eq in Ec. subst c0.
    destruct HI as (_ & HS & _). rewrite (proj1 (HS c) (rev_head_in l c r Er)). reflexivity.
  - break_step H. reflexivity.
  - break_step H. reflexivity.
  - destruct (is_stat (stat p c0) Probing) eqn:E; [|discriminate]. apply is_stat_eq in E. inversion H; subst. cbn [stat upd].
    unfold set_stat. destruct (Nat.eqb c c0) eqn:Ec; [|reflexivity]. apply Nat.eqb_eq in Ec. subst c0. rewrite E. reflexivity.
  - destruct (is_stat (stat p c0) Probing) eqn:E; [|discriminate]. apply is_stat_eq in E. inversion H; subst. cbn [stat upd].
    unfold set_stat. destruct (Nat.eqb c c0) eqn:Ec; [|reflexivity]. apply Nat.eqb_eq in Ec. subst c0. rewrite E. reflexivity.
  - destruct (pending p) as [|n]; [discriminate|].
    destruct (is_stat (stat p c0) Fresh) eqn:E; [|discriminate]. apply is_stat_eq in E. inversion H; subst. cbn [stat upd with_pending].
    unfold set_stat. destruct (Nat.eqb c c0) eqn:Ec; [|reflexivity]. apply Nat.eqb_eq in Ec. subst c0. rewrite E. reflexivity.
  - break_step H. reflexivity.
  - destruct (is_stat (stat p c0) InUse) eqn:E; [|discriminate]. apply is_stat_eq in E. inversion H; subst. cbn [stat upd with_counts].
    unfold set_stat. destruct (Nat.eqb c c0) eqn:Ec; [|reflexivity]. apply Nat.eqb_eq in Ec. subst c0. rewrite E. reflexivity.
  - destruct (is_stat (stat p c0) InUse) eqn:E; [|discriminate]. apply is_stat_eq in E. inversion H; subst. cbn [stat upd with_counts].
    unfold set_stat. destruct (Nat.eqb c c0) eqn:Ec; [|reflexivity]. apply Nat.eqb_eq in Ec. subst c0. rewrite E. reflexivity.
  - destruct (returnable (stat p c0)) eqn:E; [|discriminate]. apply returnable_hstate in E.
    destruct (idle p) as [l|]; [|discriminate]. destruct (Nat.ltb (length l) (max_size p)); [|discriminate].
    inversion H; subst. cbn [stat upd]. unfold set_stat. destruct (Nat.eqb c c0) eqn:Ec; [|reflexivity].
    apply Nat.eqb_eq in Ec. subst c0. destruct E as [-> | ->]; reflexivity.
  - assert (X : returnable (stat p c0) = true \/ stat p c0 = ToRecycle true).
    { destruct (is_stat (stat p c0) (ToRecycle true)) eqn:E; [right; apply is_stat_eq; exact E|].
      destruct (returnable (stat p c0)); [left; reflexivity|discriminate]. }
    assert (Y : hstate (stat p c0) = 1 \/ hstate (stat p c0) = 2).
    { destruct X as [X|X]; [apply returnable_hstate; exact X|rewrite X; right; reflexivity]. }
    assert (Z : p' = upd p (idle p) (set_stat (stat p) c0 Closed)) by (break_step H; reflexivity).
    subst p'. cbn [stat upd]. unfold set_stat. destruct (Nat.eqb c c0) eqn:Ec; [|reflexivity].
    apply Nat.eqb_eq in Ec. subst c0. destruct Y as [-> | ->]; reflexivity.
  - destruct (idle p) as [l|] eqn:El.
    + inversion H; subst. cbn [stat upd]. unfold set_all. destruct (nmem c l) eqn:En; [|reflexivity].
      apply nmem_In in En. destruct HI as (_ & HS & _). rewrite (proj1 (HS c) En). reflexivity.
    + inversion H; subst; reflexivity.
  - destruct (idle p) as [l|] eqn:El; [|discriminate].
    destruct (forallb (fun d => nmem d l) dr && nodup_b dr) eqn:E; [|discriminate]. apply andb_prop in E. destruct E as [Es _].
    inversion H; subst. cbn [stat upd]. unfold set_all. destruct (nmem c dr) eqn:En; [|reflexivity].
    apply nmem_In in En. pose proof (proj1 (forallb_forall _ _) Es c En) as X. apply nmem_In in X.
    destruct HI as (_ & HS & _). rewrite (proj1 (HS c) X). reflexivity.
  - break_step H. reflexivity.
  - destruct (is_stat (stat p c0) Fresh) eqn:E; [|discriminate]. apply is_stat_eq in E. inversion H; subst. cbn [stat upd].
    unfold set_stat. destruct (Nat.eqb c c0) eqn:Ec; [|reflexivity]. apply Nat.eqb_eq in Ec. subst c0. rewrite E. reflexivity.
  - destruct (is_stat (stat p c0) MaintNew) eqn:E; [|discriminate]. apply is_stat_eq in E.
    destruct (idle p) as [l|]; [|discriminate]. destruct (Nat.ltb (length l) (max_size p)); [|discriminate].
    inversion H; subst. cbn [stat upd]. unfold set_stat. destruct (Nat.eqb c c0) eqn:Ec; [|reflexivity].
    apply Nat.eqb_eq in Ec. subst c0. rewrite E. reflexivity.
  - destruct (is_stat (stat p c0) MaintNew) eqn:E; [|discriminate]. apply is_stat_eq in E.
    assert (Z : p' = upd p (idle p) (set_stat (stat p) c0 Closed)) by (break_step H; reflexivity).
    subst p'. cbn [stat upd]. unfold set_stat. destruct (Nat.eqb c c0) eqn:Ec; [|reflexivity].
    apply Nat.eqb_eq in Ec. subst c0. rewrite E. reflexivity.
  - destruct (is_stat (stat p c0) Expiring) eqn:E; [|discriminate]. apply is_stat_eq in E. inversion H; subst. cbn [stat upd].
    unfold set_stat. destruct (Nat.eqb c c0) eqn:Ec; [|reflexivity]. apply Nat.eqb_eq in Ec. subst c0. rewrite E. reflexivity.
Qed.

Theorem run_session c tr : forall p p', Inv p -> run tr p = Some p' ->
  hrun (hstate (stat p c)) (proj c tr) = Some (hstate (stat p' c)).
Proof.
  induction tr as [|e tr IH]; intros p p' HI H; cbn [run proj] in *; [inversion H; subst; reflexivity|].
  destruct (step p e) as [p1|] eqn:E; [|discriminate].
  pose proof (step_session p e p1 c HI E) as S. pose proof (IH p1 p' (step_inv p e p1 HI E) H) as R.
  destruct (sym_of c e) as [y|]; [cbn [hrun]; rewrite S; exact R|rewrite <- S; exact R].
Qed.

(* ---------- exactly once ---------- *)
(* when no reply to an accepted message is lost (no ESendErr _ true), the server commits exactly the
   messages whose send returned Ok; in general it commits at least those (Inv) *)
Definition lost_reply (e : event) : bool := match e with ESendErr _ true => true | _ => false end.
Lemma step_counts p e p' : step p e = Some p' -> lost_reply e = false ->
  commits p = sends_ok p -> commits p' = sends_ok p'.
Proof.
  intros H L Hc. destruct e; cbn [step] in H; try (break_step H; cbn; try assumption; try lia; fail).
  destruct committed; [discriminate|]. break_step H. cbn. assumption.
Qed.
Theorem run_exactly_once tr : forall p p', run tr p = Some p' -> forallb (fun e => negb (lost_reply e)) tr = true ->
  commits p = sends_ok p -> commits p' = sends_ok p'.
Proof.
  induction tr as [|e tr IH]; intros p p' H L Hc; cbn [run forallb] in *; [inversion H; subst; exact Hc|].
  apply andb_prop in L. destruct L as [L1 L2]. apply Bool.negb_true_iff in L1.
  destruct (step p e) as [p1|] eqn:E; [|discriminate]. exact (IH p1 p' H L2 (step_counts p e p1 E L1 Hc)).
Qed.

(* ---------- no connection is opened for a send that starts after shutdown ---------- *)
Definition is_connect (e : event) : bool := match e with EConnectOk _ | EConnectFail => true | _ => false end.
Fixpoint count_ev (f : event -> bool) (tr : list event) : nat :=
  match tr with [] => 0 | e :: r => (if f e then 1 else 0) + count_ev f r end.
Lemma step_pending_shut p e p' : step p e = Some p' -> idle p = None ->
  pending p = ((if is_connect e then 1 else 0) + pending p')%nat.
Proof.
  intros H Hn. destruct e; cbn [step] in H; rewrite ?Hn in H; try discriminate; break_step H; cbn; try reflexivity; try lia.
Qed.
Theorem run_connects_after_shutdown tr : forall p p', run tr p = Some p' -> idle p = None ->
  (count_ev is_connect tr + pending p' = pending p)%nat.
Proof.
  induction tr as [|e tr IH]; intros p p' H Hn; cbn [run count_ev] in *; [inversion H; subst; reflexivity|].
  destruct (step p e) as [p1|] eqn:E; [|discriminate].
  pose proof (step_pending_shut p e p1 E Hn) as S. pose proof (IH p1 p' H (step_shutdown_final p e p1 E Hn)) as R. lia.
Qed.

(* after shutdown nothing is parked: every connection returned later is closed *)
Theorem after_shutdown_none_idle tr p p' c : Inv p -> run tr p = Some p' -> idle p = None -> stat p' c <> Idle.
Proof.
  intros HI H Hn. pose proof (run_inv tr p p' HI H) as (HI' & _). rewrite (run_shutdown_final tr p p' H Hn) in HI'. apply HI'.
Qed.

(* the idle set never exceeds max_size, in every reachable state *)
Theorem reachable_idle_bound tr max p' l : run tr (p_init max) = Some p' -> idle p' = Some l -> (length l <= max)%nat.
Proof.
  intros H Hl. pose proof (run_inv tr _ p' (init_inv max) H) as (HI & _). rewrite Hl in HI.
  assert (M : max_size p' = max).
  { clear HI Hl. assert (G : forall tr p p', run tr p = Some p' -> max_size p' = max_size p).
    { clear. induction tr as [|e tr IH]; intros p p' H; cbn [run] in H; [inversion H; reflexivity|].
      destruct (step p e) as [p1|] eqn:E; [|discriminate]. rewrite (IH p1 p' H).
      clear -E. destruct e; cbn [step] in E; break_step E; reflexivity. }
    rewrite (G tr _ _ H). reflexivity. }
  rewrite M in HI. tauto.
Qed.
