(* The Content-Type value lettre writes for a multipart announces its boundary to the RFC 2045 parameter
   reader of Spec/MimeReader.v (kept apart from MimeProofs.v: this proof computes with N comparisons). *)
From Coq Require Import Strings.String.
From LV Require Import Base.Bytes Base.Str Base.Res Model.HeaderEnc Model.Mime Spec.Rfc5322 Spec.MimeReader Proofs.MimeProofs.
Ltac ev_bs := repeat match goal with |- context [bs ?s] => let v := eval vm_compute in (bs s) in change (bs s) with v end.
Theorem ct_announces k b : forallb bchar_ok b = true -> ct_boundary (mp_ct k b) = Some b.
Proof.
  intros H. rewrite mp_ct_shape. unfold ct_boundary.
  destruct k; unfold kname, kextra, q; ev_bs; cbn [app]; cbn -[take_quoted]; rewrite take_quoted_plain by exact H; reflexivity.
Qed.
