(* base64: decode (encode x) = x for every byte string *)
From LV Require Import Base.Bytes Base.Base64.
From Coq Require Import ZArith Lia ZifyBool ZifyN.
Ltac Zify.zify_post_hook ::= Z.div_mod_to_equations.

Definition chk64 (v : N) : bool :=
  match b64_val (b64_char v) with Some w => (w =? v) && negb (b64_char v =? PAD) | None => false end.

Lemma all64 : forallb chk64 (map N.of_nat (seq 0 64)) = true.
Proof. vm_compute. reflexivity. Qed.

Lemma chk64_ok v : v < 64 -> chk64 v = true.
Proof.
  intros H. pose proof (proj1 (forallb_forall _ _) all64 v) as F. apply F.
  replace v with (N.of_nat (N.to_nat v)) by apply N2Nat.id.
  apply in_map. apply in_seq. lia.
Qed.

Lemma val_char v : v < 64 -> b64_val (b64_char v) = Some v.
Proof.
  intros H. pose proof (chk64_ok v H) as C. unfold chk64 in C.
  destruct (b64_val (b64_char v)) as [w|]; [|discriminate].
  apply andb_prop in C. destruct C as [C _]. apply N.eqb_eq in C. now subst.
Qed.
Lemma char_not_pad v : v < 64 -> (b64_char v =? PAD) = false.
Proof.
  intros H. pose proof (chk64_ok v H) as C. unfold chk64 in C.
  destruct (b64_val (b64_char v)) as [w|]; [|discriminate].
  apply andb_prop in C. destruct C as [_ C]. now apply negb_true_iff in C.
Qed.

Lemma dec_quad v0 v1 v2 v3 r : v0 < 64 -> v1 < 64 -> v2 < 64 -> v3 < 64 ->
  b64dec (b64_char v0 :: b64_char v1 :: b64_char v2 :: b64_char v3 :: r) =
  match b64dec r with
  | Some t => Some ((v0 * 4 + v1 / 16) :: ((v1 mod 16) * 16 + v2 / 4) :: ((v2 mod 4) * 64 + v3) :: t)
  | None => None
  end.
Proof.
  intros H0 H1 H2 H3. cbn [b64dec].
  rewrite !val_char by assumption. rewrite (char_not_pad v2 H2), (char_not_pad v3 H3). cbn [andb].
  reflexivity.
Qed.

Lemma dec_tail1 v0 v1 : v0 < 64 -> v1 < 64 -> v1 mod 16 = 0 ->
  b64dec [b64_char v0; b64_char v1; PAD; PAD] = Some [v0 * 4 + v1 / 16].
Proof.
  intros H0 H1 Hm. cbn [b64dec]. rewrite !val_char by assumption.
  change (PAD =? PAD) with true. cbn [andb]. rewrite Hm. reflexivity.
Qed.

Lemma dec_tail2 v0 v1 v2 : v0 < 64 -> v1 < 64 -> v2 < 64 -> v2 mod 4 = 0 ->
  b64dec [b64_char v0; b64_char v1; b64_char v2; PAD] =
  Some [v0 * 4 + v1 / 16; (v1 mod 16) * 16 + v2 / 4].
Proof.
  intros H0 H1 H2 Hm. cbn [b64dec]. rewrite !val_char by assumption.
  rewrite (char_not_pad v2 H2). cbn [andb]. change (PAD =? PAD) with true. rewrite Hm. reflexivity.
Qed.

Theorem b64_roundtrip_n n : forall l, (length l <= n)%nat -> bytes_ok l = true -> b64dec (b64enc l) = Some l.
Proof.
  induction n as [|n IH]; intros l Hl Hok.
  - destruct l; [reflexivity | cbn in Hl; lia].
  - destruct l as [|a [|b [|c r]]]; [reflexivity| | |].
    + cbn in Hok. rewrite andb_true_r in Hok. unfold byte_ok in Hok.
      cbn [b64enc]. rewrite dec_tail1 by lia. f_equal. f_equal. lia.
    + cbn in Hok. rewrite andb_true_r in Hok. apply andb_prop in Hok. destruct Hok as [Ha Hb].
      unfold byte_ok in *. cbn [b64enc]. rewrite dec_tail2 by lia. f_equal. f_equal; [lia|]. f_equal. lia.
    + cbn [bytes_ok forallb] in Hok.
      apply andb_prop in Hok. destruct Hok as [Ha Hok].
      apply andb_prop in Hok. destruct Hok as [Hb Hok].
      apply andb_prop in Hok. destruct Hok as [Hc Hr].
      unfold byte_ok in *. cbn [b64enc]. rewrite dec_quad by lia.
      rewrite (IH r); [|cbn in Hl; lia|exact Hr].
      f_equal. f_equal; [lia|]. f_equal; [lia|]. f_equal. lia.
Qed.

Theorem b64_roundtrip l : bytes_ok l = true -> b64dec (b64enc l) = Some l.
Proof. apply (b64_roundtrip_n (length l)). lia. Qed.
