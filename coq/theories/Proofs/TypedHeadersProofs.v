(* C17: MIME-Version (all 65 536 pairs of u8) and Content-Transfer-Encoding are read back as stored. *)
From Coq Require Import NArith List Bool Strings.String Lia.
From LV Require Import Base.Bytes Base.Str Model.TypedHeaders Proofs.HeadersProofs.
Import ListNotations.
Local Open Scope N_scope.

Definition pair_ok (a b : N) : bool :=
  match mime_version_parse (mime_version_display a b) with
  | Some (a', b') => (a' =? a) && (b' =? b)
  | None => false
  end.
Fixpoint upto (n : nat) (f : N -> bool) : bool :=           (* f 0 && ... && f (n-1) *)
  match n with O => true | S k => f (N.of_nat k) && upto k f end.
Lemma upto_sound n f : upto n f = true -> forall x, x < N.of_nat n -> f x = true.
Proof.
  induction n as [|k IH]; intros H x Hx; [lia|]. cbn [upto] in H. apply andb_prop in H. destruct H as [H1 H2].
  destruct (N.eq_dec x (N.of_nat k)) as [->|Hne]; [exact H1|]. apply IH; [exact H2|lia].
Qed.
Lemma all_pairs_checked : upto 256 (fun a => upto 256 (fun b => pair_ok a b)) = true.
Proof. vm_compute. reflexivity. Qed.

Theorem mime_version_roundtrip a b : a < 256 -> b < 256 ->
  mime_version_parse (mime_version_display a b) = Some (a, b).
Proof.
  intros Ha Hb. pose proof (upto_sound 256 _ all_pairs_checked a Ha) as H1. cbn beta in H1.
  pose proof (upto_sound 256 _ H1 b Hb) as H2. cbn beta in H2. unfold pair_ok in H2.
  destruct (mime_version_parse (mime_version_display a b)) as [[a' b']|]; [|discriminate].
  apply andb_prop in H2. destruct H2 as [E1 E2]. apply N.eqb_eq in E1. apply N.eqb_eq in E2. subst. reflexivity.
Qed.

Theorem cte_roundtrip e : cte_parse (cte_display e) = Some e.
Proof. destruct e; reflexivity. Qed.

(* and nothing else is a transfer encoding: the reader accepts exactly the five spellings *)
Theorem cte_parse_inv s e : cte_parse s = Some e -> s = cte_display e.
Proof.
  unfold cte_parse. intros H.
  destruct (list_eqb s (bs "7bit")) eqn:E1; [apply HeadersProofs.list_eqb_eq in E1; injection H as <-; exact E1|].
  destruct (list_eqb s (bs "quoted-printable")) eqn:E2; [apply HeadersProofs.list_eqb_eq in E2; injection H as <-; exact E2|].
  destruct (list_eqb s (bs "base64")) eqn:E3; [apply HeadersProofs.list_eqb_eq in E3; injection H as <-; exact E3|].
  destruct (list_eqb s (bs "8bit")) eqn:E4; [apply HeadersProofs.list_eqb_eq in E4; injection H as <-; exact E4|].
  destruct (list_eqb s (bs "binary")) eqn:E5; [apply HeadersProofs.list_eqb_eq in E5; injection H as <-; exact E5|].
  discriminate.
Qed.

(* ---------- Content-Disposition read back: for EVERY file name (any octets: quotes, semicolons, the text
   SP filename= DQUOTE itself, CR LF ...) the raw value with_name stores is parsed back to the same kind and name ---------- *)
Lemma split_once_char_prefix c k r : forallb (fun x => negb (x =? c)) k = true ->
  split_once_char c (k ++ c :: r) = Some (k, r).
Proof.
  induction k as [|x k IH]; intros H; cbn [app split_once_char].
  - rewrite N.eqb_refl. reflexivity.
  - cbn in H. apply andb_prop in H. destruct H as [Hx Hk]. apply negb_true_iff in Hx. rewrite Hx, (IH Hk). reflexivity.
Qed.
Lemma starts_with_app p r : starts_with p (p ++ r) = true.
Proof. induction p as [|x p IH]; [destruct r; reflexivity|]. cbn. rewrite N.eqb_refl. exact IH. Qed.
Lemma skipn_app_len {A} (p r : list A) : skipn (length p) (p ++ r) = r.
Proof. induction p; [reflexivity|assumption]. Qed.
Lemma split_once_str_prefix p r : split_once_str p (p ++ r) = Some ([], r).
Proof.
  destruct p as [|x p]; [destruct r; reflexivity|].
  cbn [app split_once_str]. change (starts_with (x :: p) (x :: p ++ r)) with (starts_with (x :: p) ((x :: p) ++ r)).
  rewrite starts_with_app. change (x :: p ++ r) with ((x :: p) ++ r). rewrite skipn_app_len. reflexivity.
Qed.
Lemma strip_suffix_char_app c l : strip_suffix_char c (l ++ [c]) = Some l.
Proof. unfold strip_suffix_char. rewrite rev_app_distr. cbn. rewrite N.eqb_refl, rev_involutive. reflexivity. Qed.

Theorem content_disposition_readback kind fname : kind = bs "inline" \/ kind = bs "attachment" ->
  cd_parse (cd_raw kind fname) = Some (kind, Some fname).
Proof.
  intros [->| ->]; unfold cd_parse, cd_raw.
  - replace (list_eqb (bs "inline" ++ bs ";" ++ FILENAME_EQ ++ fname ++ [34]) (bs "inline")) with false by reflexivity.
    change (bs "inline" ++ bs ";" ++ FILENAME_EQ ++ fname ++ [34]) with (bs "inline" ++ 59 :: (FILENAME_EQ ++ fname ++ [34])).
    rewrite split_once_char_prefix by reflexivity. cbn [orb]. replace (list_eqb (bs "inline") (bs "inline")) with true by reflexivity. cbn [orb].
    rewrite split_once_str_prefix, strip_suffix_char_app. reflexivity.
  - replace (list_eqb (bs "attachment" ++ bs ";" ++ FILENAME_EQ ++ fname ++ [34]) (bs "inline")) with false by reflexivity.
    change (bs "attachment" ++ bs ";" ++ FILENAME_EQ ++ fname ++ [34]) with (bs "attachment" ++ 59 :: (FILENAME_EQ ++ fname ++ [34])).
    rewrite split_once_char_prefix by reflexivity.
    replace (list_eqb (bs "attachment") (bs "inline") || list_eqb (bs "attachment") (bs "attachment")) with true by reflexivity.
    rewrite split_once_str_prefix, strip_suffix_char_app. reflexivity.
Qed.
Theorem content_disposition_inline : cd_parse (bs "inline") = Some (bs "inline", None).
Proof. reflexivity. Qed.
