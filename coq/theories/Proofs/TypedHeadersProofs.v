(* C17: MIME-Version (all 65 536 pairs of u8) and Content-Transfer-Encoding are read back as stored. *)
From Coq Require Import NArith List Bool Strings.String Lia.
From LV Require Import Base.Bytes Base.Str Model.TypedHeaders Proofs.HeadersProofs.
Import ListNotations.
Local Open Scope N_scope.

Definition pair_ok (a b : N) : bool :=
  match mime_version_parse (mime_version_display a b) with
  | Some (a', b') => (a' =? a) && (b' =? b)
  | None => false
  end.
Fixpoint upto (n : nat) (f : N -> bool) : bool :=           (* f 0 && ... && f (n-1) *)
  match n with O => true | S k => f (N.of_nat k) && upto k f end.
Lemma upto_sound n f : upto n f = true -> forall x, x < N.of_nat n -> f x = true.
Proof.
  induction n as [|k IH]; intros H x Hx; [lia|]. cbn [upto] in H. apply andb_prop in H. destruct H as [H1 H2].
  destruct (N.eq_dec x (N.of_nat k)) as [->|Hne]; [exact H1|]. apply IH; [exact H2|lia].
Qed.
Lemma all_pairs_checked : upto 256 (fun a => upto 256 (fun b => pair_ok a b)) = true.
Proof. vm_compute. reflexivity. Qed.

Theorem mime_version_roundtrip a b : a < 256 -> b < 256 ->
  mime_version_parse (mime_version_display a b) = Some (a, b).
Proof.
  intros Ha Hb. pose proof (upto_sound 256 _ all_pairs_checked a Ha) as H1. cbn beta in H1.
  pose proof (upto_sound 256 _ H1 b Hb) as H2. cbn beta in H2. unfold pair_ok in H2.
  destruct (mime_version_parse (mime_version_display a b)) as [[a' b']|]; [|discriminate].
  apply andb_prop in H2. destruct H2 as [E1 E2]. apply N.eqb_eq in E1. apply N.eqb_eq in E2. subst. reflexivity.
Qed.

Theorem cte_roundtrip e : cte_parse (cte_display e) = Some e.
Proof. destruct e; reflexivity. Qed.

(* and nothing else is a transfer encoding: the reader accepts exactly the five spellings *)
Theorem cte_parse_inv s e : cte_parse s = Some e -> s = cte_display e.
Proof.
  unfold cte_parse. intros H.
  destruct (list_eqb s (bs "7bit")) eqn:E1; [apply HeadersProofs.list_eqb_eq in E1; injection H as <-; exact E1|].
  destruct (list_eqb s (bs "quoted-printable")) eqn:E2; [apply HeadersProofs.list_eqb_eq in E2; injection H as <-; exact E2|].
  destruct (list_eqb s (bs "base64")) eqn:E3; [apply HeadersProofs.list_eqb_eq in E3; injection H as <-; exact E3|].
  destruct (list_eqb s (bs "8bit")) eqn:E4; [apply HeadersProofs.list_eqb_eq in E4; injection H as <-; exact E4|].
  destruct (list_eqb s (bs "binary")) eqn:E5; [apply HeadersProofs.list_eqb_eq in E5; injection H as <-; exact E5|].
  discriminate.
Qed.
