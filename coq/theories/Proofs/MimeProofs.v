(* C11: the RFC 2046 reader of Spec/MimeReader.v applied to the model's formatting of any tree of parts
   gives back that tree: same nesting and order, each part's header fields, each leaf's (encoded) body. *)
From Coq Require Import Strings.String.
From LV Require Import Base.Bytes Base.Str Base.Res Model.HeaderEnc Model.Mime Spec.Rfc5322 Spec.MimeReader Proofs.ResponseProofs Proofs.HeaderProofs.
From Coq Require Import Lia Arith PeanoNat.
Local Arguments N.eqb : simpl never.
Local Arguments N.leb : simpl never.
Local Arguments N.ltb : simpl never.
Local Open Scope nat_scope.

(* ---------- lines ---------- *)
Lemma split_nonempty l : forall acc, split_crlf_go l acc <> [].
Proof.
  assert (G : forall n l, length l <= n -> forall acc, split_crlf_go l acc <> []).
  { induction n as [|n IH]; intros [|b r] Hl acc; cbn [length split_crlf_go] in *; try lia; try (intro X; discriminate X).
    destruct ((b =? CR)%N && starts_with [LF] r); [intro X; discriminate X|]. apply IH. lia. }
  intros acc. apply (G (length l) l). lia.
Qed.

Lemma join_cons a ls : ls <> [] -> join_crlf (a :: ls) = a ++ CRLF ++ join_crlf ls.
Proof. destruct ls as [|x r]; [contradiction|reflexivity]. Qed.

Lemma starts_LF r : starts_with [LF] r = true -> exists r2, r = LF :: r2.
Proof.
  destruct r as [|c r2]; cbn; [discriminate|]. rewrite andb_true_r. intros H. apply N.eqb_eq in H. subst. eauto.
Qed.

Lemma join_split : forall n l, length l <= n -> forall acc, join_crlf (split_crlf_go l acc) = rev acc ++ l.
Proof.
  induction n as [|n IH]; intros [|b r] Hl acc; cbn [split_crlf_go length] in *; try lia.
  - cbn. rewrite frev_rev, app_nil_r. reflexivity.
  - cbn. rewrite frev_rev, app_nil_r. reflexivity.
  - destruct ((b =? CR)%N && starts_with [LF] r) eqn:E.
    + apply andb_prop in E. destruct E as [E1 E2]. apply N.eqb_eq in E1. subst b.
      destruct (starts_LF r E2) as (r2 & ->). rewrite join_cons by apply split_nonempty.
      rewrite IH by (cbn in Hl; lia). rewrite frev_rev. cbn. reflexivity.
    + rewrite IH by lia. cbn. rewrite <- app_assoc. reflexivity.
Qed.

Lemma join_lines l : join_crlf (lines_of l) = l.
Proof. unfold lines_of. rewrite (join_split (length l)) by lia. reflexivity. Qed.

(* splitting distributes over an inserted CRLF *)
Lemma split_app_crlf : forall n x, length x <= n -> forall acc y,
  split_crlf_go (x ++ CR :: LF :: y) acc = split_crlf_go x acc ++ split_crlf_go y [].
Proof.
  induction n as [|n IH]; intros [|b r] Hl acc y; cbn [length] in Hl; try lia.
  - cbn [app split_crlf_go]. replace ((CR =? CR)%N && starts_with [LF] (LF :: y)) with true by (cbn; reflexivity). reflexivity.
  - cbn [app split_crlf_go]. replace ((CR =? CR)%N && starts_with [LF] (LF :: y)) with true by (cbn; reflexivity). reflexivity.
  - cbn [app split_crlf_go].
    assert (S : starts_with [LF] (r ++ CR :: LF :: y) = starts_with [LF] r).
    { destruct r as [|c r2]; cbn; [reflexivity|reflexivity]. }
    rewrite S. destruct ((b =? CR)%N && starts_with [LF] r) eqn:E.
    + apply andb_prop in E. destruct E as [_ E2]. destruct (starts_LF r E2) as (r2 & ->). cbn [app].
      rewrite IH by (cbn in Hl; lia). reflexivity.
    + apply IH. lia.
Qed.

Lemma lines_app_crlf x y : lines_of (x ++ CRLF ++ y) = lines_of x ++ lines_of y.
Proof. unfold lines_of, CRLF. cbn [app]. apply (split_app_crlf (length x)). lia. Qed.

Definition no_cr (s : bytes) : bool := forallb (fun c => negb (c =? CR)%N) s.
Lemma split_no_cr s : no_cr s = true -> forall acc, split_crlf_go s acc = [rev acc ++ s].
Proof.
  induction s as [|b r IH]; intros H acc; cbn [split_crlf_go].
  - rewrite frev_rev, app_nil_r. reflexivity.
  - cbn in H. apply andb_prop in H. destruct H as [Hb Hr]. apply negb_true_iff in Hb. rewrite Hb. cbn [andb].
    rewrite IH by exact Hr. cbn. rewrite <- app_assoc. reflexivity.
Qed.
Lemma lines_no_cr s : no_cr s = true -> lines_of s = [s].
Proof. intros H. unfold lines_of. rewrite split_no_cr by exact H. reflexivity. Qed.

(* ---------- delimiter lines ---------- *)
Lemma starts_with_short p : forall l, length l < length p -> starts_with p l = false.
Proof.
  induction p as [|x p IH]; intros [|y l] H; cbn in *; try lia; try reflexivity.
  rewrite IH by lia. apply andb_false_r.
Qed.
Lemma starts_with_self p : starts_with p p = true.
Proof. induction p as [|x p IH]; cbn; [reflexivity|]. rewrite N.eqb_refl, IH. reflexivity. Qed.

Definition dash (b : bytes) : bytes := [45; 45]%N ++ b.
Definition closing (b : bytes) : bytes := [45; 45]%N ++ b ++ [45; 45]%N.

Lemma delim_dash b : is_delim b (dash b) = true.
Proof.
  unfold is_delim, dash, MimeReader.DD. rewrite starts_with_self.
  replace (2 + length b) with (length ([45; 45]%N ++ b)) by (rewrite app_length; reflexivity).
  rewrite skipn_all. reflexivity.
Qed.
Lemma close_dash b : is_close b (dash b) = false.
Proof.
  unfold is_close, dash, MimeReader.DD. rewrite starts_with_short; [reflexivity|]. rewrite !app_length. cbn. lia.
Qed.
Lemma close_closing b : is_close b (closing b) = true.
Proof.
  unfold is_close, closing, MimeReader.DD. rewrite starts_with_self.
  replace (4 + length b) with (length ([45; 45]%N ++ b ++ [45; 45]%N)) by (rewrite !app_length; cbn; lia).
  rewrite skipn_all. reflexivity.
Qed.

Definition plain_line (b l : bytes) : Prop := is_delim b l = false /\ is_close b l = false.

Lemma scan_acc b ls : Forall (plain_line b) ls -> forall rest c acc,
  MimeReader.scan b (ls ++ rest) (Some c) acc = MimeReader.scan b rest (Some (rev ls ++ c)) acc.
Proof.
  induction ls as [|l ls IH]; intros F rest c acc; [reflexivity|].
  inversion F as [|? ? [Hd Hc] F']; subst. cbn [app MimeReader.scan]. rewrite Hc, Hd.
  rewrite IH by exact F'. cbn [rev]. rewrite <- app_assoc. reflexivity.
Qed.

Lemma scan_parts b (L : list (list bytes)) tail : Forall (Forall (plain_line b)) L -> forall cur acc,
  MimeReader.scan b (flat_map (fun ls => dash b :: ls) L ++ closing b :: tail) cur acc = Some (rev (push_part cur acc) ++ L).
Proof.
  induction L as [|ls L IH]; intros F cur acc.
  - cbn [flat_map app MimeReader.scan]. rewrite close_closing, app_nil_r. reflexivity.
  - inversion F as [|? ? F1 F2]; subst. cbn [flat_map]. rewrite <- !app_assoc. cbn [app MimeReader.scan].
    rewrite close_dash, delim_dash. rewrite scan_acc by exact F1. rewrite IH by exact F2.
    rewrite app_nil_r. cbn [push_part rev]. rewrite rev_involutive, <- app_assoc. reflexivity.
Qed.

(* ---------- trees ---------- *)
Definition fields_of (hs : list (bytes * bytes)) : list (bytes * bytes) := map (fun f => (fst f, unfold (snd f))) hs.
Fixpoint tree_of (p : part) : tree :=
  match p with
  | PSingle hs body => TLeaf (fields_of hs) body
  | PMulti hs b ps => TNode (fields_of hs) (map tree_of ps)
  end.
Fixpoint depth (p : part) : nat :=
  match p with
  | PSingle _ _ => 1
  | PMulti _ _ ps => S (fold_right (fun q m => Nat.max (depth q) m) 0 ps)
  end.
(* the formatted part without its final CRLF: what lies between the blank line / delimiter before it and
   the CRLF that belongs to the delimiter after it *)
Fixpoint fmt' (p : part) : bytes :=
  match p with
  | PSingle hs body => render hs ++ CRLF ++ body
  | PMulti hs b ps => render hs ++ CRLF ++ flat_map (fun q => dash b ++ CRLF ++ fmt' q ++ CRLF) ps ++ closing b
  end.

Lemma part_ind' (P : part -> Prop) :
  (forall hs body, P (PSingle hs body)) -> (forall hs b ps, Forall P ps -> P (PMulti hs b ps)) -> forall p, P p.
Proof.
  intros Hs Hm. fix IH 1. intros [hs body|hs b ps]; [apply Hs|apply Hm].
  induction ps as [|q ps IHps]; constructor; [apply IH|exact IHps].
Qed.

Lemma fmt_multi hs b ps : fmt (PMulti hs b ps) =
  render hs ++ CRLF ++ flat_map (fun q => dash b ++ CRLF ++ fmt q) ps ++ closing b ++ CRLF.
Proof.
  cbn [fmt]. unfold closing, dash, Mime.DD. do 2 f_equal. rewrite <- !app_assoc.
  match goal with |- ?a ++ _ = ?b ++ _ => assert (E : a = b) end.
  { apply flat_map_ext. intros q. rewrite <- app_assoc. reflexivity. }
  rewrite E. reflexivity.
Qed.

Lemma fmt_fmt' : forall p, fmt p = fmt' p ++ CRLF.
Proof.
  apply part_ind'.
  - intros hs body. cbn. rewrite <- !app_assoc. reflexivity.
  - intros hs b ps IH. rewrite fmt_multi. cbn [fmt']. rewrite <- !app_assoc. do 2 f_equal.
    match goal with |- ?a ++ _ = ?b ++ _ => assert (E : a = b) end.
    { induction ps as [|q ps IHps]; [reflexivity|]. inversion IH as [|? ? H1 H2]; subst. cbn [flat_map].
      rewrite IHps by assumption. rewrite H1. reflexivity. }
    rewrite E. reflexivity.
Qed.

(* ---------- well-formed trees ---------- *)
(* header fields accepted by the constructors (C02), a Content-Type that announces the boundary used (or none
   for a leaf), a boundary without CR, and - the clause the property states for generated boundaries - no
   line of a contained part looks like a delimiter line of an enclosing multipart *)
Fixpoint wf (p : part) : Prop :=
  match p with
  | PSingle hs body => Forall field_ok hs /\ boundary_of (fields_of hs) = None
  | PMulti hs b ps =>
    Forall field_ok hs /\ boundary_of (fields_of hs) = Some b /\ no_cr b = true /\
    (fix all (l : list part) : Prop :=
       match l with
       | [] => True
       | q :: r => (wf q /\ Forall (plain_line b) (lines_of (fmt' q))) /\ all r
       end) ps
  end.

Lemma wf_multi hs b ps : wf (PMulti hs b ps) <->
  Forall field_ok hs /\ boundary_of (fields_of hs) = Some b /\ no_cr b = true /\
  Forall (fun q => wf q /\ Forall (plain_line b) (lines_of (fmt' q))) ps.
Proof.
  cbn [wf]. split; intros (A & B & C & D); repeat split; try assumption.
  - induction ps as [|q ps IH]; [constructor|]. destruct D as [D1 D2]. constructor; [exact D1|apply IH; exact D2].
  - induction ps as [|q ps IH]; [exact I|]. inversion D; subst. split; [assumption|apply IH; assumption].
Qed.

Lemma no_cr_dash b : no_cr b = true -> no_cr (dash b) = true /\ no_cr (closing b) = true.
Proof.
  intros H. unfold no_cr, dash, closing in *. rewrite !forallb_app, H. cbn. split; reflexivity.
Qed.

Lemma lines_mbody b ps t : no_cr b = true ->
  lines_of (flat_map (fun q => dash b ++ CRLF ++ fmt' q ++ CRLF) ps ++ closing b ++ t) =
  flat_map (fun q => dash b :: lines_of (fmt' q)) ps ++ lines_of (closing b ++ t).
Proof.
  intros H. induction ps as [|q ps IH]; [reflexivity|]. cbn [flat_map]. rewrite <- !app_assoc.
  rewrite lines_app_crlf. rewrite (lines_no_cr (dash b)) by (apply no_cr_dash; exact H).
  rewrite lines_app_crlf. rewrite IH. cbn [app flat_map]. rewrite <- ?app_assoc. reflexivity.
Qed.

Lemma hb_reads hs body : Forall field_ok hs ->
  header_block (render hs ++ CRLF ++ body) = Some (fields_of hs, body).
Proof.
  intros H. unfold header_block. change (render hs) with (render_fields hs).
  apply header_block_reads_back; [|exact H]. rewrite app_length.
  assert (L : forall l : list (bytes * bytes), Forall field_ok l -> length l <= length (render_fields l)).
  { induction l as [|[n e] l IH]; intros F; [cbn; auto|]. inversion F; subst.
    cbn [render_fields flat_map length fst snd]. rewrite app_length. fold (render_fields l).
    specialize (IH H3). unfold header_line. rewrite !app_length. cbn. lia. }
  specialize (L hs H). lia.
Qed.

Lemma map_opt_map {A B C} (g : A -> B) (f : B -> option C) (h : A -> C) l :
  Forall (fun x => f (g x) = Some (h x)) l -> map_opt f (map g l) = Some (map h l).
Proof.
  induction l as [|x l IH]; intros F; [reflexivity|]. inversion F; subst. cbn. rewrite H1, IH by assumption. reflexivity.
Qed.

Lemma depth_children hs b ps f : depth (PMulti hs b ps) <= S f -> Forall (fun q => depth q <= f) ps.
Proof.
  cbn [depth]. intros H. apply le_S_n in H. induction ps as [|q ps IH]; [constructor|].
  cbn [fold_right] in H. constructor; [lia|apply IH; lia].
Qed.

(* a multipart entity, possibly followed by the CRLF of an enclosing delimiter or by an epilogue *)
Lemma multi_reads hs b ps t f :
  Forall field_ok hs -> boundary_of (fields_of hs) = Some b -> no_cr b = true ->
  Forall (fun q => Forall (plain_line b) (lines_of (fmt' q))) ps ->
  Forall (fun q => parse_entity f (fmt' q) = Some (tree_of q)) ps ->
  (t = [] \/ exists z, t = CRLF ++ z) ->
  parse_entity (S f) (fmt' (PMulti hs b ps) ++ t) = Some (tree_of (PMulti hs b ps)).
Proof.
  intros Hf Hb Hn Hfresh IH Ht. cbn [fmt' parse_entity tree_of]. rewrite <- !app_assoc.
  rewrite hb_reads by exact Hf. rewrite Hb. rewrite lines_mbody by exact Hn.
  assert (T : exists tail, lines_of (closing b ++ t) = closing b :: tail).
  { destruct Ht as [->|(z & ->)].
    - rewrite app_nil_r, lines_no_cr by (apply no_cr_dash; exact Hn). eauto.
    - rewrite lines_app_crlf, lines_no_cr by (apply no_cr_dash; exact Hn). cbn. eauto. }
  destruct T as (tail & ->).
  pose (L := map (fun q => lines_of (fmt' q)) ps).
  assert (E2 : flat_map (fun q => dash b :: lines_of (fmt' q)) ps = flat_map (fun ls => dash b :: ls) L).
  { unfold L. clear. induction ps as [|q ps IHp]; [reflexivity|]. cbn [flat_map map]. rewrite IHp. reflexivity. }
  rewrite E2. rewrite scan_parts.
  - cbn [push_part rev app]. unfold L. 
    rewrite (map_opt_map (fun q => lines_of (fmt' q)) (fun ls => parse_entity f (join_crlf ls)) tree_of).
    + reflexivity.
    + eapply Forall_impl; [|exact IH]. cbn. intros q Hq. rewrite join_lines. exact Hq.
  - unfold L. clear -Hfresh. induction ps as [|q ps IHp]; [constructor|]. inversion Hfresh; subst. constructor; [assumption|apply IHp; assumption].
Qed.

Theorem reads_back : forall p, wf p -> forall fuel, depth p <= fuel -> parse_entity fuel (fmt' p) = Some (tree_of p).
Proof.
  apply (part_ind' (fun p => wf p -> forall fuel, depth p <= fuel -> parse_entity fuel (fmt' p) = Some (tree_of p))).
  - intros hs body (Hf & Hb) fuel Hd. destruct fuel as [|f]; [cbn in Hd; lia|].
    cbn [parse_entity fmt' tree_of]. rewrite hb_reads by exact Hf. rewrite Hb. reflexivity.
  - intros hs b ps IH Hw fuel Hd. apply wf_multi in Hw. destruct Hw as (Hf & Hb & Hn & Hk).
    destruct fuel as [|f]; [cbn in Hd; lia|].
    rewrite <- (app_nil_r (fmt' (PMulti hs b ps))). apply multi_reads; auto.
    + eapply Forall_impl; [|exact Hk]. cbn. tauto.
    + pose proof (depth_children hs b ps f Hd) as Dk. clear -IH Hk Dk.
      induction ps as [|q ps IHp]; [constructor|]. inversion IH; subst. inversion Hk; subst. inversion Dk; subst.
      constructor; [|apply IHp; assumption]. apply H1; [tauto|assumption].
Qed.

(* the formatted octets themselves (with the final CRLF): a multipart reads back as the tree, a top-level
   single part as the leaf whose body is followed by that CRLF *)
Theorem reads_back_formatted_multi hs b ps fuel : wf (PMulti hs b ps) -> depth (PMulti hs b ps) <= fuel ->
  parse_entity fuel (fmt (PMulti hs b ps)) = Some (tree_of (PMulti hs b ps)).
Proof.
  intros Hw Hd. rewrite fmt_fmt'. pose proof Hw as Hw0. apply wf_multi in Hw. destruct Hw as (Hf & Hb & Hn & Hk).
  destruct fuel as [|f]; [cbn in Hd; lia|]. apply multi_reads; auto.
  - eapply Forall_impl; [|exact Hk]. cbn. tauto.
  - pose proof (depth_children hs b ps f Hd) as Dk. clear -Hk Dk.
    induction ps as [|q ps IHp]; [constructor|]. inversion Hk; subst. inversion Dk; subst.
    constructor; [|apply IHp; assumption]. apply reads_back; [tauto|assumption].
  - right. exists []. rewrite app_nil_r. reflexivity.
Qed.
Theorem reads_back_formatted_single hs body fuel : wf (PSingle hs body) -> 1 <= fuel ->
  parse_entity fuel (fmt (PSingle hs body)) = Some (TLeaf (fields_of hs) (body ++ CRLF)).
Proof.
  intros (Hf & Hb) Hd. destruct fuel as [|f]; [lia|]. cbn [fmt parse_entity]. rewrite hb_reads by exact Hf. rewrite Hb. reflexivity.
Qed.

(* the delimiter lines of a multipart body: exactly one dash-boundary line before each part, one closing
   delimiter at the end, with the boundary of the node *)
Theorem multipart_body_lines hs b ps : no_cr b = true ->
  exists body, fmt' (PMulti hs b ps) = render hs ++ CRLF ++ body /\
  lines_of body = flat_map (fun q => dash b :: lines_of (fmt' q)) ps ++ [closing b].
Proof.
  intros Hn. eexists. split; [cbn [fmt']; reflexivity|].
  rewrite <- (app_nil_r (closing b)) at 1. rewrite lines_mbody by exact Hn.
  rewrite app_nil_r, (lines_no_cr (closing b)) by (apply no_cr_dash; exact Hn). reflexivity.
Qed.

(* a part formatted alone is, octet for octet, what appears inside its parent *)
Theorem child_inside hs b ps q : In q ps ->
  exists pre post, fmt (PMulti hs b ps) = pre ++ dash b ++ CRLF ++ fmt q ++ post.
Proof.
  intros Hin. rewrite fmt_multi. apply in_split in Hin. destruct Hin as (l1 & l2 & ->).
  rewrite flat_map_app. cbn [flat_map].
  exists (render hs ++ CRLF ++ flat_map (fun q0 => dash b ++ CRLF ++ fmt q0) l1).
  exists (flat_map (fun q0 => dash b ++ CRLF ++ fmt q0) l2 ++ closing b ++ CRLF).
  rewrite <- !app_assoc. reflexivity.
Qed.

(* ---------- the Content-Type lettre writes for a multipart announces its boundary ---------- *)
Definition bchar_ok (c : N) : bool := negb (c =? 34)%N && negb (c =? 92)%N && negb (c =? CR)%N.
Lemma take_quoted_plain b rest : forallb bchar_ok b = true -> take_quoted (b ++ 34%N :: rest) = Some (b, rest).
Proof.
  induction b as [|c b IH]; intros H; cbn [app take_quoted].
  - rewrite N.eqb_refl. reflexivity.
  - cbn in H. apply andb_prop in H. destruct H as [Hc Hb]. unfold bchar_ok in Hc.
    apply andb_prop in Hc. destruct Hc as [Hc H3]. apply andb_prop in Hc. destruct Hc as [H1 H2].
    apply negb_true_iff in H1, H2. rewrite H1, H2. rewrite IH by exact Hb. reflexivity.
Qed.

Definition kname (k : mkind) : bytes :=
  match k with MMixed => bs "mixed" | MAlternative => bs "alternative" | MRelated => bs "related"
             | MEncrypted _ => bs "encrypted" | MSigned _ _ => bs "signed" end.
Definition kextra (k : mkind) : bytes :=
  match k with
  | MEncrypted p => bs "; protocol=" ++ q p
  | MSigned p m => bs "; protocol=" ++ q p ++ bs "; micalg=" ++ q m
  | _ => []
  end.
Lemma mp_ct_shape k b : mp_ct k b = bs "multipart/" ++ kname k ++ bs "; boundary=" ++ [34%N] ++ b ++ 34%N :: kextra k.
Proof. unfold mp_ct, kname, kextra, q. destruct k; rewrite <- ?app_assoc; reflexivity. Qed.


(* a Message whose body is a MIME part: the message's own header fields, then the part's, in one header
   section.  It is the part with the message's fields put in front of its own. *)
Definition with_fields (mh : list (bytes * bytes)) (p : part) : part :=
  match p with
  | PSingle hs body => PSingle (mh ++ hs) body
  | PMulti hs b ps => PMulti (mh ++ hs) b ps
  end.
Lemma render_app a b : render (a ++ b) = render a ++ render b.
Proof. unfold render. apply flat_map_app. Qed.
Theorem message_is_part mh p : render mh ++ fmt p = fmt (with_fields mh p).
Proof. destruct p as [hs body|hs b ps]; cbn [with_fields fmt]; rewrite render_app, <- !app_assoc; reflexivity. Qed.
