(* C13: the body canonicalization dkim.rs computes (one pass over the octets) equals the RFC 6376 3.4.3 /
   3.4.4 definition in terms of lines (Spec/Dkim.v), for every body that is a sequence of CRLF-terminated
   lines - which is what Message::body_raw always hands over. *)
From Coq Require Import Strings.String.
From LV Require Import Base.Bytes Base.Str Base.Res Model.HeaderEnc Model.Headers Model.Dkim Spec.Rfc5322 Spec.Dkim Proofs.MimeProofs.
From Coq Require Import Lia Arith PeanoNat.
Local Open Scope nat_scope.

Notation wspb := Spec.Dkim.wsp.
Lemma wsp_model c : Model.Dkim.wsp c = wspb c. Proof. reflexivity. Qed.

(* no CR LF pair inside *)
Fixpoint has_crlf (l : bytes) : bool :=
  match l with
  | c :: r => ((c =? CR)%N && starts_with [LF] r) || has_crlf r
  | [] => false
  end.
Definition line_ok (l : bytes) : Prop := has_crlf l = false.
Definition terminated (ls : list bytes) : bytes := flat_map (fun l => l ++ CRLF) ls.

(* ---------- a line on its own is one line ---------- *)
Lemma split_line l : has_crlf l = false -> forall acc, split_crlf_go l acc = [rev acc ++ l].
Proof.
  induction l as [|b r IH]; intros H acc; cbn [split_crlf_go].
  - rewrite frev_rev, app_nil_r. reflexivity.
  - cbn [has_crlf] in H. apply orb_false_iff in H. destruct H as [H1 H2]. rewrite H1.
    rewrite IH by exact H2. cbn. rewrite <- app_assoc. reflexivity.
Qed.
Lemma lines_terminated ls : Forall line_ok ls -> lines_of (terminated ls) = ls ++ [[]].
Proof.
  induction ls as [|l ls IH]; intros F; [reflexivity|]. inversion F as [|? ? Hl F']; subst.
  cbn [terminated flat_map]. rewrite <- app_assoc. rewrite lines_app_crlf. fold (terminated ls).
  rewrite IH by exact F'. unfold lines_of at 1. rewrite split_line by exact Hl. reflexivity.
Qed.
Lemma body_lines_terminated ls : Forall line_ok ls -> body_lines (terminated ls) = ls.
Proof.
  intros F. unfold body_lines. rewrite lines_terminated by exact F. rewrite rev_app_distr. cbn. apply rev_involutive.
Qed.

(* ---------- trailing empty lines: the code's loop on the reversed octets ---------- *)
Lemma strip_blank_step X : strip_blank (X ++ CRLF ++ CRLF) = strip_blank (X ++ CRLF).
Proof. unfold strip_blank. rewrite !rev_app_distr. cbn [rev CRLF app]. cbn [strip_blank_rev]. rewrite !N.eqb_refl. reflexivity. Qed.

Lemma last_two (l : bytes) : (2 <= length l) -> exists a d c, l = a ++ [d; c].
Proof.
  intros H. destruct (rev l) as [|c [|d r]] eqn:E.
  - apply (f_equal (@length N)) in E. rewrite rev_length in E. cbn in E. lia.
  - apply (f_equal (@length N)) in E. rewrite rev_length in E. cbn in E. lia.
  - exists (rev r), d, c. rewrite <- (rev_involutive l), E. cbn. rewrite <- app_assoc. reflexivity.
Qed.
Lemma has_crlf_app a b : has_crlf (a ++ b) = false -> has_crlf a = false /\ has_crlf b = false.
Proof.
  induction a as [|c a IH]; intros H; [cbn in *; auto|]. cbn [app has_crlf] in *. apply orb_false_iff in H. destruct H as [H1 H2].
  destruct (IH H2) as (A & B). split; [|exact B]. apply orb_false_iff. split; [|exact A].
  destruct (c =? CR)%N; [|reflexivity]. cbn [andb] in *. destruct a as [|d a]; [reflexivity|]. cbn in *. exact H1.
Qed.

(* a non-empty line that holds no CRLF does not complete a CRLF CRLF at the end *)
Lemma strip_blank_keeps X l : (X = [] \/ exists X', X = X' ++ CRLF) -> l <> [] -> has_crlf l = false ->
  strip_blank (X ++ l ++ CRLF) = X ++ l ++ CRLF.
Proof.
  intros HX Hl Hc. unfold strip_blank.
  assert (G : strip_blank_rev (rev (X ++ l ++ CRLF)) = rev (X ++ l ++ CRLF)).
  { rewrite !rev_app_distr. cbn [rev CRLF app].
    destruct l as [|c0 l0]; [contradiction|].
    destruct (Nat.le_gt_cases 2 (length (c0 :: l0))) as [H2|H1].
    - destruct (last_two (c0 :: l0) H2) as (a & d & c & E). rewrite E in *. rewrite rev_app_distr. cbn [rev app].
      cbn [strip_blank_rev]. destruct ((LF =? LF)%N && (CR =? CR)%N && (c =? LF)%N && (d =? CR)%N) eqn:T; [|reflexivity].
      apply andb_prop in T. destruct T as [T Td]. apply andb_prop in T. destruct T as [_ Tc].
      apply N.eqb_eq in Td, Tc. subst. apply has_crlf_app in Hc. destruct Hc as (_ & Hc). cbn in Hc. discriminate.
    - destruct l0; [|cbn in H1; lia]. cbn [rev app].
      destruct HX as [->|(X' & ->)].
      + reflexivity.
      + rewrite rev_app_distr. cbn [rev CRLF app]. cbn [strip_blank_rev].
        replace ((LF =? LF)%N && (CR =? CR)%N && (c0 =? LF)%N && (LF =? CR)%N) with false; [reflexivity|].
        rewrite andb_comm. reflexivity. }
  rewrite G. apply rev_involutive.
Qed.

Lemma terminated_snoc ls l : terminated (ls ++ [l]) = terminated ls ++ l ++ CRLF.
Proof. unfold terminated. rewrite flat_map_app. cbn. rewrite app_nil_r. reflexivity. Qed.
Lemma terminated_shape ls : terminated ls = [] \/ exists X', terminated ls = X' ++ CRLF.
Proof.
  destruct ls as [|l ls] using rev_ind; [left; reflexivity|]. right. rewrite terminated_snoc.
  exists (terminated ls ++ l). rewrite <- app_assoc. reflexivity.
Qed.

Lemma drop_trailing_snoc_nonempty ls l : l <> [] -> drop_trailing_empty (ls ++ [l]) = ls ++ [l].
Proof.
  intros H. unfold drop_trailing_empty. rewrite rev_app_distr. cbn. destruct l; [contradiction|]. cbn.
  rewrite rev_involutive. reflexivity.
Qed.
Lemma drop_trailing_snoc_empty ls : drop_trailing_empty (ls ++ [[]]) = drop_trailing_empty ls.
Proof. unfold drop_trailing_empty. rewrite rev_app_distr. reflexivity. Qed.

Lemma match_nonempty (Z : list bytes) : Z <> [] ->
  terminated Z = match Z with [] => CRLF | b :: l => terminated (b :: l) end.
Proof. destruct Z; [contradiction|reflexivity]. Qed.

(* the code's loop = dropping the trailing empty lines, keeping one CRLF when nothing else is left *)
Lemma strip_blank_lines ls : ls <> [] -> Forall line_ok ls ->
  strip_blank (terminated ls) =
  match drop_trailing_empty ls with [] => CRLF | ls' => terminated ls' end.
Proof.
  induction ls as [|l ls IH] using rev_ind; intros Hne F; [contradiction|].
  apply Forall_app in F. destruct F as [F Fl]. inversion Fl as [|? ? Hl _]; subst.
  rewrite terminated_snoc. destruct l as [|c l].
  - rewrite drop_trailing_snoc_empty. cbn [app]. destruct ls as [|l0 ls0] using rev_ind.
    + reflexivity.
    + clear IHls0. rewrite terminated_snoc. rewrite <- !app_assoc.
      replace (l0 ++ CRLF ++ CRLF) with ((l0) ++ CRLF ++ CRLF) by reflexivity.
      rewrite (app_assoc (terminated ls0) l0). rewrite strip_blank_step. rewrite <- app_assoc.
      rewrite <- terminated_snoc. apply IH; [destruct ls0; discriminate|exact F].
  - rewrite drop_trailing_snoc_nonempty by discriminate.
    rewrite strip_blank_keeps; [|apply terminated_shape|discriminate|exact Hl].
    rewrite <- terminated_snoc.
    apply match_nonempty. exact Hne.
Qed.

(* ---------- simple ---------- *)
Theorem simple_body_is_rfc ls : ls <> [] -> Forall line_ok ls ->
  canon_body Simple (terminated ls) = spec_body false (terminated ls).
Proof.
  intros Hne F. unfold canon_body, spec_body. rewrite body_lines_terminated by exact F.
  rewrite strip_blank_lines by assumption. destruct (drop_trailing_empty ls); reflexivity.
Qed.

(* ---------- relaxed: the streaming pass, line by line ---------- *)
(* what the loop does to one line (it sees the line's end as the CRLF that follows) *)
Fixpoint stream_line (l : bytes) : bytes :=
  match l with
  | [] => []
  | c :: r =>
    if wspb c then
      match r with
      | [] => []
      | d :: _ => if wspb d then stream_line r else SP :: stream_line r
      end
    else c :: stream_line r
  end.

Lemma wspb_cr : wspb CR = false. Proof. reflexivity. Qed.
Lemma wspb_lf : wspb LF = false. Proof. reflexivity. Qed.

Lemma relax_stream_line l : has_crlf l = false -> forall rest,
  relax_stream (l ++ CRLF ++ rest) = stream_line l ++ CRLF ++ relax_stream rest.
Proof.
  induction l as [|c r IH]; intros H rest.
  - reflexivity.
  - cbn [has_crlf] in H. apply orb_false_iff in H. destruct H as [H1 H2].
    cbn [app relax_stream stream_line]. rewrite wsp_model. destruct (wspb c) eqn:Wc.
    + destruct r as [|d r2].
      * cbn [app]. replace (starts_with CRLF (CRLF ++ rest)) with true by reflexivity.
        reflexivity.
      * cbn [app]. 
        assert (S : starts_with CRLF (d :: r2 ++ CRLF ++ rest) = false).
        { cbn [starts_with CRLF]. destruct (CR =? d)%N eqn:Ed; [|reflexivity]. apply N.eqb_eq in Ed. subst d.
          cbn [has_crlf] in H2. apply orb_false_iff in H2. destruct H2 as [H3 _]. rewrite N.eqb_refl in H3. cbn [andb] in H3.
          destruct r2 as [|e r3]; cbn [app starts_with CRLF] in *; [reflexivity|].
          rewrite andb_true_r in H3. cbn [andb]. rewrite ?andb_true_r. first [exact H3 | rewrite N.eqb_sym; exact H3]. }
        rewrite S. rewrite wsp_model. pose proof (IH H2 rest) as IHr. cbn [app] in IHr. destruct (wspb d) eqn:Wd.
        -- rewrite IHr. reflexivity.
        -- rewrite IHr. reflexivity.
    + rewrite (IH H2 rest). reflexivity.
Qed.

Lemma relax_stream_lines ls : Forall line_ok ls ->
  relax_stream (terminated ls) = terminated (map stream_line ls).
Proof.
  induction ls as [|l ls IH]; intros F; [reflexivity|]. inversion F as [|? ? Hl F']; subst.
  cbn [terminated flat_map map]. rewrite <- !app_assoc. rewrite relax_stream_line by exact Hl.
  fold (terminated ls). rewrite IH by exact F'. reflexivity.
Qed.

(* the streamed line is the RFC's: runs of WSP reduced to one SP, WSP at the end of the line dropped *)
Lemma drop_wsp_app_nonws x c : wspb c = false -> drop_wsp (x ++ [c]) = if forallb wspb x then [c] else drop_wsp x ++ [c].
Proof.
  intros Hc. induction x as [|d x IH]; cbn [app drop_wsp forallb].
  - rewrite Hc. reflexivity.
  - destruct (wspb d); cbn [andb]; [exact IH|reflexivity].
Qed.
Lemma drop_wsp_all x : forallb wspb x = true -> drop_wsp x = [].
Proof. induction x as [|d x IH]; cbn [drop_wsp forallb]; [reflexivity|]. destruct (wspb d); [exact IH|discriminate]. Qed.
Lemma forallb_rev {A} (f : A -> bool) l : forallb f (rev l) = forallb f l.
Proof. induction l as [|x l IH]; [reflexivity|]. cbn. rewrite forallb_app, IH. cbn. rewrite andb_true_r. apply andb_comm. Qed.

Lemma rstrip_cons_nonws c Y : wspb c = false -> rstrip (c :: Y) = c :: rstrip Y.
Proof.
  intros Hc. unfold rstrip. cbn [rev]. rewrite drop_wsp_app_nonws by exact Hc.
  destruct (forallb wspb (rev Y)) eqn:E.
  - rewrite drop_wsp_all by exact E. reflexivity.
  - rewrite rev_app_distr. reflexivity.
Qed.
Lemma rstrip_cons_keep x Y : rstrip Y <> [] -> rstrip (x :: Y) = x :: rstrip Y.
Proof.
  intros H. unfold rstrip in *. cbn [rev].
  assert (G : forall z, drop_wsp z <> [] -> drop_wsp (z ++ [x]) = drop_wsp z ++ [x]).
  { induction z as [|d z IH]; intros Hz; [contradiction|]. cbn [app drop_wsp] in *. destruct (Spec.Dkim.wsp d); [apply IH; exact Hz|reflexivity]. }
  rewrite G.
  - rewrite rev_app_distr. reflexivity.
  - intros E. apply H. rewrite E. reflexivity.
Qed.
Lemma rstrip_all_ws Y : forallb wspb Y = true -> rstrip Y = [].
Proof. intros H. unfold rstrip. rewrite drop_wsp_all; [reflexivity|]. rewrite forallb_rev. exact H. Qed.

Lemma sl_ws_ws c d l : wspb c = true -> wspb d = true -> stream_line (c :: d :: l) = stream_line (d :: l).
Proof. intros Hc Hd. change (stream_line (c :: d :: l)) with (if wspb c then (if wspb d then stream_line (d :: l) else SP :: stream_line (d :: l)) else c :: stream_line (d :: l)). rewrite Hc, Hd. reflexivity. Qed.
Lemma sl_ws_nw c d l : wspb c = true -> wspb d = false -> stream_line (c :: d :: l) = SP :: d :: stream_line l.
Proof. intros Hc Hd. change (stream_line (c :: d :: l)) with (if wspb c then (if wspb d then stream_line (d :: l) else SP :: stream_line (d :: l)) else c :: stream_line (d :: l)). rewrite Hc, Hd. cbn [stream_line]. rewrite Hd. reflexivity. Qed.
Lemma sl_nw d l : wspb d = false -> stream_line (d :: l) = d :: stream_line l.
Proof. intros Hd. cbn [stream_line]. rewrite Hd. reflexivity. Qed.
Lemma sl_ws_end c : wspb c = true -> stream_line [c] = [].
Proof. intros Hc. cbn [stream_line]. rewrite Hc. reflexivity. Qed.

Lemma stream_is_relax : forall l,
  rstrip (compress false l) = stream_line l /\
  (forall c, wspb c = true -> rstrip (SP :: compress true l) = stream_line (c :: l)).
Proof.
  induction l as [|d l (IH1 & IH2)].
  - split; [reflexivity|]. intros c Hc. rewrite sl_ws_end by exact Hc. cbn [compress]. apply rstrip_all_ws. reflexivity.
  - split.
    + cbn [compress]. destruct (wspb d) eqn:Wd.
      * exact (IH2 d Wd).
      * rewrite rstrip_cons_nonws by exact Wd. rewrite IH1. rewrite sl_nw by exact Wd. reflexivity.
    + intros c Hc. cbn [compress]. destruct (wspb d) eqn:Wd.
      * rewrite sl_ws_ws by assumption. exact (IH2 d Wd).
      * rewrite sl_ws_nw by assumption.
        assert (N1 : rstrip (d :: compress false l) <> []) by (rewrite rstrip_cons_nonws by exact Wd; discriminate).
        rewrite rstrip_cons_keep by exact N1. rewrite rstrip_cons_nonws by exact Wd. rewrite IH1. reflexivity.
Qed.
Lemma stream_line_spec l : stream_line l = relax_line l.
Proof. symmetry. apply stream_is_relax. Qed.

(* a relaxed line holds no CRLF either *)
Lemma stream_ws_not_lf : forall r c, wspb c = true -> starts_with [LF] (stream_line (c :: r)) = false.
Proof.
  induction r as [|d r IH]; intros c Hc.
  - rewrite sl_ws_end by exact Hc. reflexivity.
  - destruct (wspb d) eqn:Wd.
    + rewrite sl_ws_ws by assumption. apply IH. exact Wd.
    + rewrite sl_ws_nw by assumption. reflexivity.
Qed.
Lemma stream_starts_lf r : starts_with [LF] (stream_line r) = starts_with [LF] r.
Proof.
  destruct r as [|c r]; [reflexivity|]. destruct (wspb c) eqn:Wc.
  - rewrite stream_ws_not_lf by exact Wc. cbn [starts_with]. destruct (LF =? c)%N eqn:E; [|reflexivity].
    apply N.eqb_eq in E. subst c. discriminate Wc.
  - rewrite sl_nw by exact Wc. reflexivity.
Qed.
Lemma stream_line_ok l : has_crlf l = false -> has_crlf (stream_line l) = false.
Proof.
  induction l as [|c r IH]; intros H; [reflexivity|]. cbn [has_crlf] in H. apply orb_false_iff in H. destruct H as [H1 H2].
  cbn [stream_line]. destruct (wspb c) eqn:Wc.
  - destruct r as [|d r2]; [reflexivity|]. destruct (wspb d); [apply IH; exact H2|].
    cbn [has_crlf]. rewrite (IH H2). reflexivity.
  - cbn [has_crlf]. rewrite stream_starts_lf, H1, (IH H2). reflexivity.
Qed.

Theorem relaxed_body_is_rfc ls : ls <> [] -> Forall line_ok ls ->
  canon_body Relaxed (terminated ls) = spec_body true (terminated ls).
Proof.
  intros Hne F. unfold canon_body, spec_body. rewrite body_lines_terminated by exact F.
  rewrite relax_stream_lines by exact F.
  assert (Hne' : map stream_line ls <> []) by (destruct ls; [contradiction|discriminate]).
  assert (F' : Forall line_ok (map stream_line ls)).
  { apply Forall_map. eapply Forall_impl; [|exact F]. intros l Hl. apply stream_line_ok. exact Hl. }
  rewrite strip_blank_lines by assumption.
  assert (E : map relax_line ls = map stream_line ls) by (apply map_ext; intros; symmetry; apply stream_line_spec).
  rewrite E. destruct (drop_trailing_empty (map stream_line ls)) as [|b r] eqn:D; [reflexivity|].
  (* a non-empty result is longer than CRLF only if ... it is never exactly CRLF: its last line is non-empty *)
  assert (NE : list_eqb (terminated (b :: r)) CRLF = false).
  { assert (L : exists ls0 l0, b :: r = ls0 ++ [l0] /\ l0 <> []).
    { unfold drop_trailing_empty in D. destruct (drop_empty (rev (map stream_line ls))) as [|x xs] eqn:DE.
      - cbn in D. discriminate.
      - exists (rev xs), x. split.
        + rewrite <- D. reflexivity.
        + clear -DE. induction (rev (map stream_line ls)) as [|y ys IHy]; cbn in DE; [discriminate|].
          destruct y; cbn in DE; [apply IHy; exact DE|]. inversion DE; subst. discriminate. }
    destruct L as (ls0 & l0 & -> & Hl0). rewrite terminated_snoc.
    destruct l0 as [|c0 l1]; [contradiction|].
    destruct (terminated ls0) as [|t ts] eqn:T.
    - cbn [app]. destruct l1 as [|c1 l2]; cbn.
      + (* c0 CR LF vs CR LF *) destruct (c0 =? CR)%N; reflexivity.
      + destruct (c0 =? CR)%N; [|reflexivity]. destruct (c1 =? LF)%N; [|reflexivity]. destruct l2; reflexivity.
    - destruct (terminated_shape ls0) as [E0|(X' & E0)]; [rewrite T in E0; discriminate|].
      (* at least CRLF ++ c0 ++ CRLF: five octets or more *)
      assert (Len : 3 <= length ((t :: ts) ++ (c0 :: l1) ++ CRLF)).
      { rewrite !app_length. cbn. lia. }
      destruct ((t :: ts) ++ (c0 :: l1) ++ CRLF) as [|a [|b0 [|c2 r2]]] eqn:EE; cbn in Len; try lia.
      cbn. destruct (a =? CR)%N; [|reflexivity]. destruct (b0 =? LF)%N; reflexivity. }
  rewrite NE. reflexivity.
Qed.
