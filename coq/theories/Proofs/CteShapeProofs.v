(* The emitted octets obey the declared content-transfer-encoding (RFC 2045 6.7, 6.8, 2.7): base64 and
   quoted-printable bodies are ASCII lines of at most 76 characters separated by CRLF, without bare CR or LF,
   quoted-printable lines do not end in white space; a body that is declared 7bit is ASCII, and - when it has
   neither NUL nor a bare CR or LF (the class of the known finding F16) - its lines are within 998 octets. *)
From LV Require Import Base.Bytes Base.Res Base.Base64 Model.Body Spec.Rfc2047 Spec.Rfc5322 Spec.Cte Proofs.BodyProofs.
From Coq Require Import Lia Arith PeanoNat ZArith ZifyBool ZifyN.
Ltac Zify.zify_post_hook ::= Z.div_mod_to_equations.
Local Arguments N.eqb : simpl never.
Local Arguments N.leb : simpl never.
Local Arguments N.ltb : simpl never.
Local Arguments N.div : simpl never.
Local Arguments N.modulo : simpl never.

(* ---------- texts made of lines ---------- *)
(* an ASCII octet other than CR and LF *)
Definition okc (b : N) : bool := (b <? 128) && negb (b =? CR) && negb (b =? LF).
(* complete lines, each followed by CRLF, then the line being written *)
Definition join (ls : list bytes) (cur : bytes) : bytes := flat_map (fun ln => ln ++ CRLF) ls ++ cur.

Lemma join_app ls cur y : join ls cur ++ y = join ls (cur ++ y).
Proof. unfold join. rewrite app_assoc. reflexivity. Qed.
Lemma join_snoc ls a c : join (ls ++ [a]) c = join ls (a ++ CRLF ++ c).
Proof. unfold join. rewrite flat_map_app. cbn [flat_map]. rewrite app_nil_r, <- !app_assoc. reflexivity. Qed.
Lemma join_cons a ls c : join (a :: ls) c = a ++ CRLF ++ join ls c.
Proof. unfold join. cbn [flat_map]. rewrite <- !app_assoc. reflexivity. Qed.

Lemma okc_mem ln : forallb okc ln = true -> mem CR ln = false /\ mem LF ln = false.
Proof.
  induction ln as [|b r IH]; [split; reflexivity|]. cbn [forallb mem]. intros H.
  apply andb_prop in H. destruct H as [Hb Hr]. destruct (IH Hr) as [A B]. rewrite A, B.
  unfold okc, CR, LF in *. split; lia.
Qed.
Lemma okc_ascii ln : forallb okc ln = true -> is_ascii ln = true.
Proof.
  unfold is_ascii. induction ln as [|b r IH]; [reflexivity|]. cbn [forallb]. intros H.
  apply andb_prop in H. destruct H as [Hb Hr]. rewrite (IH Hr). unfold okc, is_ascii_b in *. lia.
Qed.

Lemma split_line a : forall rest cur, mem CR a = false ->
  split_crlf_go (a ++ CRLF ++ rest) cur = (rev cur ++ a) :: split_crlf_go rest [].
Proof.
  induction a as [|b a IH]; intros rest cur H.
  - cbn [app CRLF split_crlf_go starts_with]. rewrite !N.eqb_refl. cbn [andb]. rewrite frev_rev, app_nil_r. reflexivity.
  - cbn [mem] in H. apply Bool.orb_false_elim in H. destruct H as [Hb Ha].
    cbn [app split_crlf_go]. rewrite N.eqb_sym in Hb. rewrite Hb. cbn [andb].
    rewrite IH by exact Ha. cbn [rev]. rewrite <- app_assoc. reflexivity.
Qed.
Lemma split_last a : forall cur, mem CR a = false -> split_crlf_go a cur = [rev cur ++ a].
Proof.
  induction a as [|b a IH]; intros cur H.
  - cbn [split_crlf_go]. rewrite frev_rev, app_nil_r. reflexivity.
  - cbn [mem] in H. apply Bool.orb_false_elim in H. destruct H as [Hb Ha].
    cbn [split_crlf_go]. rewrite N.eqb_sym in Hb. rewrite Hb. cbn [andb].
    rewrite IH by exact Ha. cbn [rev]. rewrite <- app_assoc. reflexivity.
Qed.

Lemma lines_of_join ls : forall cur, Forall (fun ln => forallb okc ln = true) ls -> forallb okc cur = true ->
  lines_of (join ls cur) = ls ++ [cur].
Proof.
  unfold lines_of. induction ls as [|a ls IH]; intros cur Hl Hc.
  - unfold join. cbn [flat_map app]. rewrite split_last by (apply okc_mem; exact Hc). reflexivity.
  - inversion Hl as [|? ? Ha Hls]; subst. rewrite join_cons.
    rewrite split_line by (apply okc_mem; exact Ha). cbn [rev app]. rewrite IH by assumption. reflexivity.
Qed.

Lemma join_ascii ls : forall cur, Forall (fun ln => forallb okc ln = true) ls -> forallb okc cur = true ->
  is_ascii (join ls cur) = true.
Proof.
  induction ls as [|a ls IH]; intros cur Hl Hc.
  - unfold join. cbn [flat_map app]. apply okc_ascii. exact Hc.
  - inversion Hl as [|? ? Ha Hls]; subst. rewrite join_cons. unfold is_ascii in *. rewrite !forallb_app.
    rewrite (IH cur Hls Hc). pose proof (okc_ascii a Ha) as A. unfold is_ascii in A. rewrite A. reflexivity.
Qed.

Definition ws (c : N) : bool := (c =? 32) || (c =? 9).
Definition no_trail (ln : bytes) : bool := match rev ln with c :: _ => negb ((c =? 32) || (c =? 9)) | [] => true end.
Definition line76 (ln : bytes) : Prop := (length ln <= 76)%nat /\ forallb okc ln = true.
Definition qline (ln : bytes) : Prop := (length ln <= 76)%nat /\ forallb okc ln = true /\ no_trail ln = true.

Lemma forallb_Forall {A} (f : A -> bool) l : Forall (fun x => f x = true) l -> forallb f l = true.
Proof. induction 1 as [|x l H _ IH]; [reflexivity|]. cbn [forallb]. rewrite H, IH. reflexivity. Qed.

Lemma b64_shape ls cur : Forall line76 ls -> line76 cur -> b64_lines_ok (join ls cur) = true.
Proof.
  intros Hl [Hc1 Hc2]. unfold b64_lines_ok, no_bare, no_bare_crlf, lines_le, body_lines.
  assert (Hl2 : Forall (fun ln => forallb okc ln = true) ls) by (eapply Forall_impl; [|exact Hl]; intros a [_ A]; exact A).
  rewrite lines_of_join by assumption. rewrite join_ascii by assumption. cbn [andb].
  apply andb_true_intro. split; apply forallb_Forall; apply Forall_app; split.
  - eapply Forall_impl; [|exact Hl]. intros a [_ A]. destruct (okc_mem a A) as [X Y]. rewrite X, Y. reflexivity.
  - constructor; [|constructor]. destruct (okc_mem cur Hc2) as [X Y]. rewrite X, Y. reflexivity.
  - eapply Forall_impl; [|exact Hl]. intros a [A _]. apply Nat.leb_le. exact A.
  - constructor; [|constructor]. apply Nat.leb_le. exact Hc1.
Qed.

Lemma qp_shape ls cur : Forall qline ls -> qline cur -> qp_lines_ok (join ls cur) = true.
Proof.
  intros Hl (Hc1 & Hc2 & Hc3). unfold qp_lines_ok.
  assert (Hb : b64_lines_ok (join ls cur) = true).
  { apply b64_shape; [|split; assumption]. eapply Forall_impl; [|exact Hl]. intros a (A & B & _). split; assumption. }
  unfold b64_lines_ok in Hb. rewrite Hb. cbn [andb]. unfold body_lines.
  assert (Hl2 : Forall (fun ln => forallb okc ln = true) ls) by (eapply Forall_impl; [|exact Hl]; intros a (_ & A & _); exact A).
  rewrite lines_of_join by assumption. apply forallb_Forall. apply Forall_app. split.
  - eapply Forall_impl; [|exact Hl]. intros a (_ & _ & A). exact A.
  - constructor; [|constructor]. exact Hc3.
Qed.

(* ---------- base64 bodies ---------- *)
Lemma b64_char_okc v : okc (b64_char v) = true.
Proof.
  unfold okc, b64_char, CR, LF. destruct (v <? 26) eqn:A; [lia|]. destruct (v <? 52) eqn:B; [lia|].
  destruct (v <? 62) eqn:C; [lia|]. destruct (v =? 62); lia.
Qed.
Lemma b64enc_line n : forall w, (length w <= 3 * n)%nat -> (length (b64enc w) <= 4 * n)%nat /\ forallb okc (b64enc w) = true.
Proof.
  induction n as [|n IH]; intros w H.
  - destruct w; [split; [cbn; lia|reflexivity]|cbn in H; lia].
  - destruct w as [|a [|b [|c r]]]; cbn [b64enc forallb length]; rewrite ?b64_char_okc; cbn [andb].
    + split; [lia|reflexivity].
    + split; [lia|reflexivity].
    + split; [lia|reflexivity].
    + cbn [length] in H. destruct (IH r ltac:(lia)) as [A B]. split; [lia|exact B].
Qed.

Lemma b64_wrap_go_lines fuel : forall l, exists ls cur, b64_wrap_go fuel l = join ls cur /\ Forall line76 ls /\ line76 cur.
Proof.
  assert (E : exists ls cur, @nil N = join ls cur /\ Forall line76 ls /\ line76 cur).
  { exists [], []. split; [reflexivity|]. split; [constructor|]. split; [cbn; lia|reflexivity]. }
  induction fuel as [|f IH]; intros l; [exact E|].
  destruct l as [|b l']; [exact E|]. cbn [b64_wrap_go]. set (l := b :: l').
  assert (C : line76 (b64enc (firstn 57 l))).
  { destruct (b64enc_line 19 (firstn 57 l)) as [A B]; [rewrite firstn_length; lia|]. split; [lia|exact B]. }
  destruct (skipn 57 l) as [|c r] eqn:Er.
  - exists [], (b64enc (firstn 57 l)). rewrite app_nil_r. split; [reflexivity|]. split; [constructor|exact C].
  - destruct (IH (c :: r)) as (ls & cur & E1 & E2 & E3). exists (b64enc (firstn 57 l) :: ls), cur.
    rewrite E1, join_cons. split; [reflexivity|]. split; [constructor; assumption|exact E3].
Qed.

Theorem b64_wrap_obeys l : b64_lines_ok (b64_wrap l) = true.
Proof. unfold b64_wrap. destruct (b64_wrap_go_lines (S (length l)) l) as (ls & cur & E & A & B). rewrite E. apply b64_shape; assumption. Qed.

(* ---------- quoted-printable bodies ---------- *)
Definition out_of (q : qst) : bytes := rev (res_rev q).
Definition LInv (q : qst) : Prop :=
  exists ls cur, out_of q = join ls cur /\ Forall qline ls /\ forallb okc cur = true /\
    length cur = on_line q /\ (on_line q <= 76)%nat /\ (on_line q = 76%nat -> (1 <= bk q <= 3)%nat).
Definition head_ok (q : qst) : Prop := match res_rev q with c :: _ => negb ((c =? 32) || (c =? 9)) = true | [] => True end.
Definition okx (x : bytes) : Prop := forallb okc x = true /\ (1 <= length x <= 3)%nat.

Lemma rev_append_rev' {A} (x y : list A) : rev_append x y = rev x ++ y.
Proof. apply rev_append_rev. Qed.
Lemma firstn_len_app {A} (a b : list A) : firstn (length a) (a ++ b) = a.
Proof. rewrite firstn_app, Nat.sub_diag, firstn_all. cbn [firstn]. apply app_nil_r. Qed.
Lemma skipn_len_app {A} (a b : list A) : skipn (length a) (a ++ b) = b.
Proof. rewrite skipn_app, Nat.sub_diag, skipn_all. reflexivity. Qed.
Lemma no_trail_snoc a c : no_trail (a ++ [c]) = negb ((c =? 32) || (c =? 9)).
Proof. unfold no_trail. rewrite rev_app_distr. reflexivity. Qed.

Lemma q_append_L x q : okx x -> LInv q -> LInv (q_append x q).
Proof.
  intros [Hx1 Hx2] (ls & cur & R & Hls & Hc & Hlen & Hle & Hbk). unfold q_append, QP_LIMIT.
  destruct (Nat.ltb 76 (on_line q + length x)) eqn:E1.
  - destruct (Nat.eqb (on_line q) 76) eqn:E2.
    + apply Nat.eqb_eq in E2. specialize (Hbk E2).
      set (c1 := firstn (76 - bk q) cur). set (c2 := skipn (76 - bk q) cur).
      assert (Ec : cur = c1 ++ c2) by (symmetry; apply firstn_skipn).
      assert (L2 : length c2 = bk q) by (unfold c2; rewrite skipn_length; lia).
      assert (L1 : length c1 = (76 - bk q)%nat) by (unfold c1; rewrite firstn_length; lia).
      assert (Rr : res_rev q = rev c2 ++ rev c1 ++ rev (flat_map (fun ln => ln ++ CRLF) ls)).
      { unfold out_of in R. apply (f_equal (@rev N)) in R. rewrite rev_involutive in R. rewrite R. unfold join.
        rewrite Ec, !rev_app_distr, <- app_assoc. reflexivity. }
      assert (F : firstn (bk q) (res_rev q) = rev c2) by (rewrite Rr, <- L2, <- (rev_length c2); apply firstn_len_app).
      assert (S : skipn (bk q) (res_rev q) = rev c1 ++ rev (flat_map (fun ln => ln ++ CRLF) ls))
        by (rewrite Rr, <- L2, <- (rev_length c2); apply skipn_len_app).
      rewrite Ec, forallb_app in Hc. apply andb_prop in Hc. destruct Hc as [Hc1 Hc2].
      exists (ls ++ [c1 ++ [61]]), (c2 ++ x). unfold out_of. cbn [res_rev on_line bk].
      rewrite F, S, !rev_append_rev'. split; [|split; [|split; [|split; [|split]]]].
      * rewrite join_snoc. unfold join. rewrite !rev_app_distr, !rev_involutive. cbn [rev SOFT app CRLF].
        rewrite <- !app_assoc. reflexivity.
      * apply Forall_app. split; [exact Hls|]. constructor; [|constructor]. split; [|split].
        -- rewrite app_length, L1. cbn [length]. lia.
        -- rewrite forallb_app, Hc1. reflexivity.
        -- rewrite no_trail_snoc. reflexivity.
      * rewrite forallb_app, Hc2, Hx1. reflexivity.
      * rewrite app_length. lia.
      * lia.
      * lia.
    + apply Nat.eqb_neq in E2. apply Nat.ltb_lt in E1.
      exists (ls ++ [cur ++ [61]]), x. unfold out_of in *. cbn [res_rev on_line bk]. rewrite !rev_append_rev'.
      split; [|split; [|split; [|split; [|split]]]].
      * rewrite join_snoc, !rev_app_distr, !rev_involutive, R. unfold join. cbn [rev SOFT app CRLF].
        rewrite <- !app_assoc. reflexivity.
      * apply Forall_app. split; [exact Hls|]. constructor; [|constructor]. split; [|split].
        -- rewrite app_length. cbn [length]. lia.
        -- rewrite forallb_app, Hc. reflexivity.
        -- rewrite no_trail_snoc. reflexivity.
      * exact Hx1.
      * cbn. reflexivity.
      * lia.
      * lia.
  - apply Nat.ltb_ge in E1. exists ls, (cur ++ x). unfold out_of in *. cbn [res_rev on_line bk]. rewrite !rev_append_rev'.
    split; [|split; [|split; [|split; [|split]]]].
    * rewrite rev_app_distr, rev_involutive, R. apply join_app.
    * exact Hls.
    * rewrite forallb_app, Hc, Hx1. reflexivity.
    * rewrite app_length. lia.
    * lia.
    * lia.
Qed.

Lemma q_append_head x c q : head_ok (q_append (x ++ [c]) q) <-> negb ((c =? 32) || (c =? 9)) = true.
Proof. unfold head_ok, q_append. cbn [res_rev]. rewrite rev_append_rev', rev_app_distr. cbn [rev app]. reflexivity. Qed.

(* the last character of the output belongs to the line being written *)
Lemma last_char q c r ls cur : res_rev q = c :: r -> out_of q = join ls cur -> c <> LF -> exists cur', cur = cur' ++ [c] /\ rev r = join ls cur'.
Proof.
  intros E R Hc. unfold out_of in R. rewrite E in R. cbn [rev] in R.
  destruct (rev cur) as [|c' rc] eqn:Ec.
  - exfalso. apply (f_equal (@rev N)) in Ec. rewrite rev_involutive in Ec. cbn in Ec. subst cur.
    unfold join in R. rewrite app_nil_r in R. clear E.
    destruct (rev ls) as [|a rl] eqn:El.
    + apply (f_equal (@rev bytes)) in El. rewrite rev_involutive in El. cbn in El. subst ls. cbn in R. destruct (rev r); discriminate R.
    + apply (f_equal (@rev bytes)) in El. rewrite rev_involutive in El. cbn [rev] in El. subst ls.
      rewrite flat_map_app in R. cbn [flat_map] in R. rewrite app_nil_r in R. rewrite <- ?app_assoc in R.
      assert (X : forall fl : bytes, fl ++ a ++ CRLF = (fl ++ a ++ [CR]) ++ [LF]) by (intros fl; unfold CRLF; rewrite <- !app_assoc; reflexivity).
      rewrite X in R. apply app_inj_tail in R. destruct R as [_ R]. congruence.
  - apply (f_equal (@rev N)) in Ec. rewrite rev_involutive in Ec. cbn [rev] in Ec. subst cur.
    unfold join in R. rewrite app_assoc in R. apply app_inj_tail in R. destruct R as [R1 R2]. subst c'.
    exists (rev rc). split; [reflexivity|]. exact R1.
Qed.

Lemma q_trailing_L q : LInv q -> LInv (q_trailing q) /\ head_ok (q_trailing q).
Proof.
  intros H. unfold q_trailing. destruct (res_rev q) as [|c r] eqn:E.
  - split; [exact H|]. unfold head_ok. rewrite E. exact I.
  - assert (G : forall x y z, c = x -> x <> LF -> okx [61; y; z] -> negb ((z =? 32) || (z =? 9)) = true ->
       LInv (q_append [61; y; z] (mkQ r (pred (on_line q)) (pred (bk q)))) /\ head_ok (q_append [61; y; z] (mkQ r (pred (on_line q)) (pred (bk q))))).
    { intros x y z Hcx Hx Hk Hz. destruct H as (ls & cur & R & Hls & Hc & Hlen & Hle & Hbk).
      destruct (last_char q c r ls cur E R ltac:(congruence)) as (cur' & Ec & Rr).
      split.
      - apply q_append_L; [exact Hk|]. exists ls, cur'. unfold out_of. cbn [res_rev on_line bk].
        rewrite Ec, forallb_app in Hc. apply andb_prop in Hc. destruct Hc as [Hc _].
        rewrite Ec, app_length in Hlen. cbn [length] in Hlen.
        split; [exact Rr|]. split; [exact Hls|]. split; [exact Hc|]. split; [lia|]. split; lia.
      - change [61; y; z] with ([61; y] ++ [z]). apply q_append_head. exact Hz. }
    destruct (c =? 32) eqn:E1.
    + apply (G 32 50 48); [lia|unfold LF; lia|split; [reflexivity|cbn; lia]|reflexivity].
    + destruct (c =? 9) eqn:E2.
      * apply (G 9 48 57); [lia|unfold LF; lia|split; [reflexivity|cbn; lia]|reflexivity].
      * split; [exact H|]. unfold head_ok. rewrite E, E1, E2. reflexivity.
Qed.

Lemma head_no_trail q ls cur : out_of q = join ls cur -> head_ok q -> no_trail cur = true.
Proof.
  intros R H. unfold no_trail. destruct (rev cur) as [|c rc] eqn:Ec; [reflexivity|].
  unfold out_of in R. apply (f_equal (@rev N)) in R. rewrite rev_involutive in R. unfold join in R.
  rewrite rev_app_distr, Ec in R. unfold head_ok in H. rewrite R in H. exact H.
Qed.

Lemma crlf_push_L q : LInv q -> head_ok q -> LInv (mkQ (rev_append CRLF (res_rev q)) 0 (bk q + 2)).
Proof.
  intros (ls & cur & R & Hls & Hc & Hlen & Hle & Hbk) Hh.
  exists (ls ++ [cur]), []. unfold out_of in *. cbn [res_rev on_line bk]. rewrite rev_append_rev'.
  split; [|split; [|split; [|split; [|split]]]]; try (cbn; lia); try reflexivity.
  - rewrite rev_app_distr, rev_involutive, R, join_snoc. cbn [rev CRLF app]. unfold join, CRLF. rewrite <- app_assoc. reflexivity.
  - apply Forall_app. split; [exact Hls|]. constructor; [|constructor]. split; [lia|]. split; [exact Hc|].
    apply (head_no_trail q ls cur R Hh).
Qed.

Lemma run_push_L q run : LInv q -> forallb okc run = true -> (on_line q + length run <= 75)%nat ->
  LInv (mkQ (rev_append run (res_rev q)) (on_line q + length run) 0).
Proof.
  intros (ls & cur & R & Hls & Hc & Hlen & Hle & Hbk) Hr Hn.
  exists ls, (cur ++ run). unfold out_of in *. cbn [res_rev on_line bk]. rewrite rev_append_rev'.
  split; [|split; [|split; [|split; [|split]]]]; try lia.
  - rewrite rev_app_distr, rev_involutive, R. apply join_app.
  - exact Hls.
  - rewrite forallb_app, Hc, Hr. reflexivity.
  - rewrite app_length. lia.
Qed.

Lemma plain_okc b : needs_encoding b = false -> okc b = true.
Proof. unfold needs_encoding, okc, CR, LF. lia. Qed.
Lemma take_run_okc cap : forall l, forallb okc (take_run cap l) = true /\ (length (take_run cap l) <= cap)%nat.
Proof.
  induction cap as [|c IH]; intros l; [split; [reflexivity|cbn; lia]|].
  destruct l as [|b r]; [split; [reflexivity|cbn; lia]|]. cbn [take_run].
  destruct (needs_encoding b) eqn:E; [split; [reflexivity|cbn; lia]|].
  destruct (IH r) as [A B]. cbn [forallb length]. rewrite A, (plain_okc b E). split; [reflexivity|lia].
Qed.
Lemma hexu_okc v : v < 16 -> okc (hexu v) = true.
Proof. unfold okc, hexu, CR, LF. intros H. destruct (v <? 10) eqn:E; lia. Qed.

Lemma encode_byte_L b q : b < 256 -> LInv q -> LInv (q_encode_byte b q).
Proof.
  intros Hb H. unfold q_encode_byte. destruct (b =? 61) eqn:E1.
  - apply q_append_L; [split; [reflexivity|cbn; lia]|exact H].
  - destruct ((b =? 9) || ((32 <=? b) && (b <=? 126))) eqn:E2.
    + apply q_append_L; [|exact H]. split; [|cbn; lia]. cbn [forallb]. unfold okc, CR, LF. lia.
    + apply q_append_L; [|exact H]. split; [|cbn; lia]. unfold hex_triplet. cbn [forallb].
      rewrite !hexu_okc by lia. reflexivity.
Qed.

Theorem qp_go_L l : forall skip was_cr q, LInv q -> bytes_ok l = true ->
  LInv (qp_go l skip was_cr q) /\ head_ok (qp_go l skip was_cr q).
Proof.
  induction l as [|b r IH]; intros skip was_cr q H Hok.
  - cbn [qp_go]. destruct was_cr.
    + split; [apply q_append_L; [split; [reflexivity|cbn; lia]|exact H]|].
      change [61; 48; 68] with ([61; 48] ++ [68]). apply q_append_head. reflexivity.
    + apply q_trailing_L. exact H.
  - unfold bytes_ok in Hok. cbn [forallb] in Hok. apply andb_prop in Hok. destruct Hok as [Hb Hr].
    cbn [qp_go]. destruct skip as [|k]; [|apply IH; assumption].
    destruct (was_cr && (b =? LF)) eqn:E1.
    + destruct (q_trailing_L q H) as [A B]. apply IH; [|exact Hr]. apply crlf_push_L; assumption.
    + set (q0 := if was_cr then q_append [61; 48; 68] q else q).
      assert (H0 : LInv q0).
      { unfold q0. destruct was_cr; [|exact H]. apply q_append_L; [split; [reflexivity|cbn; lia]|exact H]. }
      destruct (b =? CR) eqn:E2; [apply IH; assumption|].
      destruct (Nat.leb 3 (QP_LIMIT - on_line q0) && negb (needs_encoding b)) eqn:E3.
      * apply IH; [|exact Hr]. apply andb_prop in E3. destruct E3 as [E3 _]. apply Nat.leb_le in E3. unfold QP_LIMIT in *.
        destruct (take_run_okc (76 - on_line q0 - 2) (b :: r)) as [A B].
        apply run_push_L; [exact H0|exact A|lia].
      * apply IH; [|exact Hr]. apply encode_byte_L; [|exact H0]. unfold byte_ok in Hb. lia.
Qed.

Theorem qp_encode_obeys l : bytes_ok l = true -> qp_lines_ok (qp_encode l) = true.
Proof.
  intros Hok. unfold qp_encode. rewrite frev_rev.
  assert (H0 : LInv (mkQ [] 0 0)).
  { exists [], []. split; [reflexivity|]. split; [constructor|]. split; [reflexivity|]. cbn. split; [reflexivity|]. split; lia. }
  destruct (qp_go_L l 0 false _ H0 Hok) as [(ls & cur & R & Hls & Hc & Hlen & Hle & _) Hh].
  unfold out_of in R. rewrite R. apply qp_shape; [exact Hls|]. split; [lia|]. split; [exact Hc|].
  eapply head_no_trail; [exact R|exact Hh].
Qed.

(* ---------- bodies declared 7bit ---------- *)
(* every maximal run of octets other than LF (the one being read has c octets so far) is at most n long *)
Fixpoint runs_go (n : nat) (l : bytes) (c : nat) : bool :=
  match l with
  | [] => Nat.leb c n
  | b :: r => if b =? LF then Nat.leb c n && runs_go n r 0 else runs_go n r (S c)
  end.

Lemma runs_mono n l : forall c, runs_go n l (S c) = true -> runs_go n l c = true.
Proof.
  induction l as [|b r IH]; intros c H; cbn [runs_go] in *.
  - apply Nat.leb_le in H. apply Nat.leb_le. lia.
  - destruct (b =? LF).
    + apply andb_prop in H. destruct H as [A B]. rewrite B. apply Nat.leb_le in A. replace (Nat.leb c n) with true by (symmetry; apply Nat.leb_le; lia). reflexivity.
    + apply IH. exact H.
Qed.
Lemma runs_weaken n m l : (n <= m)%nat -> forall c, runs_go n l c = true -> runs_go m l c = true.
Proof.
  intros Hnm. induction l as [|b r IH]; intros c H; cbn [runs_go] in *.
  - apply Nat.leb_le in H. apply Nat.leb_le. lia.
  - destruct (b =? LF).
    + apply andb_prop in H. destruct H as [A B]. rewrite (IH _ B). apply Nat.leb_le in A.
      replace (Nat.leb c m) with true by (symmetry; apply Nat.leb_le; lia). reflexivity.
    + apply IH. exact H.
Qed.

Lemma ltl_runs l : forall idx last, (last <= idx)%nat -> ltl_go l idx last = false -> runs_go 75 l (idx - last) = true.
Proof.
  induction l as [|b r IH]; intros idx last Hle H; cbn [ltl_go runs_go] in *.
  - apply Nat.leb_gt in H. apply Nat.leb_le. lia.
  - destruct (b =? LF).
    + apply Bool.orb_false_elim in H. destruct H as [A B]. apply Nat.leb_gt in A.
      replace (Nat.leb (idx - last) 75) with true by (symmetry; apply Nat.leb_le; lia). cbn [andb].
      apply runs_mono. specialize (IH (S idx) idx ltac:(lia) B). replace (S idx - idx)%nat with 1%nat in IH by lia. exact IH.
    + specialize (IH (S idx) last ltac:(lia) H). replace (S idx - last)%nat with (S (idx - last)) in IH by lia. exact IH.
Qed.

Lemma crlf_runs n l : forall pc c, runs_go n l c = true -> runs_go (S n) (crlf_spec_go l pc) c = true.
Proof.
  induction l as [|b r IH]; intros pc c H; cbn [crlf_spec_go runs_go] in *.
  - apply Nat.leb_le in H. apply Nat.leb_le. lia.
  - destruct (b =? LF) eqn:E.
    + apply andb_prop in H. destruct H as [A B]. apply Nat.leb_le in A. specialize (IH (b =? CR) 0%nat B).
      destruct pc; cbn [andb negb app runs_go].
      * rewrite E, IH. replace (Nat.leb c (S n)) with true by (symmetry; apply Nat.leb_le; lia). reflexivity.
      * change (CR =? LF) with false. cbn iota. change (LF =? LF) with true. cbn iota. rewrite IH.
        replace (Nat.leb (S c) (S n)) with true by (symmetry; apply Nat.leb_le; lia). reflexivity.
    + cbn [andb app runs_go]. rewrite E. apply IH. exact H.
Qed.

Lemma mem_app x a : forall b, mem x (a ++ b) = mem x a || mem x b.
Proof. induction a as [|y a IH]; intros b; [reflexivity|]. cbn [app mem]. rewrite IH, Bool.orb_assoc. reflexivity. Qed.
Lemma mem_rev x a : mem x (rev a) = mem x a.
Proof.
  induction a as [|y a IH]; [reflexivity|]. cbn [rev mem]. rewrite mem_app, IH. cbn [mem].
  rewrite Bool.orb_false_r. apply Bool.orb_comm.
Qed.

Lemma split_head l : forall cur, exists x tl, split_crlf_go l cur = (rev cur ++ x) :: tl.
Proof.
  induction l as [|b r IH]; intros cur.
  - exists [], []. cbn [split_crlf_go]. rewrite frev_rev, app_nil_r. reflexivity.
  - cbn [split_crlf_go]. destruct ((b =? CR) && starts_with [LF] r).
    + eexists [], _. rewrite frev_rev, app_nil_r. reflexivity.
    + destruct (IH (b :: cur)) as (x & tl & E). exists (b :: x), tl. rewrite E. cbn [rev]. rewrite <- app_assoc. reflexivity.
Qed.

Definition nobare_line (ln : bytes) : bool := negb (mem CR ln) && negb (mem LF ln).
Lemma runs_lines n n0 : forall l, (length l <= n0)%nat -> forall cur, mem LF cur = false -> runs_go n l (length cur) = true ->
  forallb nobare_line (split_crlf_go l cur) = true ->
  forallb (fun ln => Nat.leb (length ln) n) (split_crlf_go l cur) = true.
Proof.
  induction n0 as [|n0 IH]; intros l Hl cur Hc Hr Hb.
  - destruct l; [|cbn in Hl; lia]. cbn [split_crlf_go forallb runs_go] in *. rewrite frev_rev, rev_length, Hr. reflexivity.
  - destruct l as [|b r].
    + cbn [split_crlf_go forallb runs_go] in *. rewrite frev_rev, rev_length, Hr. reflexivity.
    + cbn [split_crlf_go] in *. destruct ((b =? CR) && starts_with [LF] r) eqn:E.
      * apply andb_prop in E. destruct E as [E1 E2]. destruct r as [|y r2]; [discriminate E2|].
        cbn [starts_with] in E2. rewrite Bool.andb_true_r in E2.
        assert (b = CR) by (unfold CR in *; lia). assert (y = LF) by (unfold LF in *; lia). subst b y.
        cbn [runs_go] in Hr. change (CR =? LF) with false in Hr. cbn iota in Hr. change (LF =? LF) with true in Hr. cbn iota in Hr.
        apply andb_prop in Hr. destruct Hr as [A B]. apply Nat.leb_le in A.
        cbn [forallb] in *. apply andb_prop in Hb. destruct Hb as [_ Hb].
        rewrite frev_rev, rev_length. replace (Nat.leb (length cur) n) with true by (symmetry; apply Nat.leb_le; lia). cbn [andb].
        apply IH; [cbn [length] in Hl; lia|reflexivity|exact B|exact Hb].
      * destruct (b =? LF) eqn:Eb.
        -- exfalso. destruct (split_head r (b :: cur)) as (x & tl & Ex). rewrite Ex in Hb. cbn [forallb] in Hb.
           apply andb_prop in Hb. destruct Hb as [Hb _]. unfold nobare_line in Hb. apply andb_prop in Hb. destruct Hb as [_ Hb].
           rewrite mem_app, mem_rev in Hb. cbn [mem] in Hb. rewrite N.eqb_sym, Eb in Hb. discriminate Hb.
        -- cbn [runs_go] in Hr. rewrite Eb in Hr.
           apply IH; [cbn [length] in Hl; lia| |exact Hr|exact Hb]. cbn [mem]. rewrite N.eqb_sym, Eb, Hc. reflexivity.
Qed.

Lemma crlf_go_ascii l : forall pc, is_ascii l = true -> is_ascii (crlf_spec_go l pc) = true.
Proof.
  unfold is_ascii. induction l as [|b r IH]; intros pc H; [reflexivity|]. cbn [forallb crlf_spec_go] in *.
  apply andb_prop in H. destruct H as [A B]. rewrite forallb_app, (IH _ B).
  destruct ((b =? LF) && negb pc); cbn [forallb]; rewrite ?A; reflexivity.
Qed.

(* what is emitted under 7bit, by the automatic choice or on request *)
Theorem sevenbit_obeys is_string l out :
  body_new is_string l = (out, SevenBit) \/ body_new_with_encoding is_string l SevenBit = Ok (out, SevenBit) ->
  is_ascii out = true /\ (mem 0 out = false -> no_bare out = true -> sevenbit_ok out = true).
Proof.
  intros H.
  assert (G : out = encode_crlf is_string l /\ is_ascii l = true /\ line_too_long l = false).
  { unfold body_new, body_new_with_encoding, choose, kind_of, qp_or_b64, new_impl in H.
    destruct (is_ascii l) eqn:Ea; destruct (line_too_long l) eqn:El; destruct is_string;
      repeat match type of H with context [if ?c then _ else _] => destruct c end;
      destruct H as [H|H]; try discriminate H; inversion H; subst; auto. }
  destruct G as (-> & Ha & Hl).
  assert (A : is_ascii (encode_crlf is_string l) = true).
  { unfold encode_crlf. destruct is_string; [|exact Ha]. rewrite BodyProofs.in_place_crlf_spec. apply crlf_go_ascii. exact Ha. }
  split; [exact A|]. intros Hn Hb. unfold sevenbit_ok. rewrite A, Hn, Hb. cbn [andb negb].
  assert (R : runs_go 998 (encode_crlf is_string l) 0 = true).
  { pose proof (ltl_runs l 0 0 ltac:(lia) Hl) as R0. cbn [Nat.sub] in R0. unfold encode_crlf. destruct is_string.
    - rewrite BodyProofs.in_place_crlf_spec. apply (runs_weaken 76); [lia|]. apply crlf_runs. exact R0.
    - apply (runs_weaken 75); [lia|]. exact R0. }
  unfold lines_le, body_lines, lines_of. unfold no_bare, no_bare_crlf, lines_of in Hb.
  apply (runs_lines 998 (length (encode_crlf is_string l))); [lia|reflexivity|exact R|exact Hb].
Qed.

(* every body the library builds: the emitted octets obey the encoding that is declared *)
Definition obeys (e : cte) (out : bytes) : Prop :=
  match e with
  | Base64 => b64_lines_ok out = true
  | QuotedPrintable => qp_lines_ok out = true
  | SevenBit => is_ascii out = true /\ (mem 0 out = false -> no_bare out = true -> sevenbit_ok out = true)
  | EightBit | Binary => True
  end.

Theorem body_obeys is_string l out e : bytes_ok l = true ->
  body_new is_string l = (out, e) \/ (exists e0, body_new_with_encoding is_string l e0 = Ok (out, e)) ->
  obeys e out.
Proof.
  intros Hok H.
  assert (Hc : bytes_ok (encode_crlf is_string l) = true) by (rewrite encode_crlf_content; apply content_ok; exact Hok).
  destruct e; cbn [obeys]; try exact I.
  - (* 7bit *)
    apply (sevenbit_obeys is_string l). destruct H as [H|[e0 H]]; [left; exact H|right].
    assert (e0 = SevenBit).
    { unfold body_new_with_encoding in H. destruct e0; cbn [new_impl] in H;
      repeat match type of H with context [if ?c then _ else _] => destruct c end; try discriminate H; inversion H; reflexivity. }
    subst e0. exact H.
  - (* quoted-printable *)
    assert (out = qp_encode (encode_crlf is_string l)).
    { destruct H as [H|[e0 H]].
      - unfold body_new in H. destruct (choose is_string l false); cbn [new_impl] in H; inversion H; reflexivity.
      - unfold body_new_with_encoding in H. destruct e0; cbn [new_impl] in H;
        repeat match type of H with context [if ?c then _ else _] => destruct c end; try discriminate H; inversion H; reflexivity. }
    subst out. apply qp_encode_obeys. exact Hc.
  - (* base64 *)
    assert (out = b64_wrap (encode_crlf is_string l)).
    { destruct H as [H|[e0 H]].
      - unfold body_new in H. destruct (choose is_string l false); cbn [new_impl] in H; inversion H; reflexivity.
      - unfold body_new_with_encoding in H. destruct e0; cbn [new_impl] in H;
        repeat match type of H with context [if ?c then _ else _] => destruct c end; try discriminate H; inversion H; reflexivity. }
    subst out. apply b64_wrap_obeys.
Qed.
Print Assumptions body_obeys.
