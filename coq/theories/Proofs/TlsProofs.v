(* C06: under required / wrapper TLS nothing but EHLO, STARTTLS and QUIT is ever written in clear, success
   needs an accepted handshake, and the capabilities used afterwards are those learned inside TLS. *)
From Coq Require Import Strings.String.
From LV Require Import Base.Bytes Base.Str Base.Utf8 Base.Res Base.Base64
  Model.Codec Model.Response Model.ServerInfo Model.Auth Model.Client Model.Tls Proofs.ClientProofs.
From Coq Require Import Lia.

Definition EHLO_LINE (hello : bytes) : bytes := bs "EHLO " ++ hello ++ CRLF.
Definition allowed (hello : bytes) (u : unit_ev) : Prop :=
  u = ULine (EHLO_LINE hello) \/ u = ULine STARTTLS_LINE \/ u = ULine QUIT.

Lemma allowed_units hello s s' us : new_units s s' us -> Forall (allowed hello) us -> Forall (allowed hello) (ulog s) ->
  Forall (allowed hello) (ulog s').
Proof.
  unfold new_units. intros -> Hu Hs. apply Forall_app. split; [|exact Hs]. apply Forall_rev. exact Hu.
Qed.

(* ehlo: EHLO, possibly followed by QUIT; usable afterwards iff it succeeded *)
Lemma ehlo_units hello s : shut s = false -> panic s = false -> Forall (allowed hello) (ulog s) ->
  let x := ehlo hello s in
  Forall (allowed hello) (ulog (snd x)) /\ (fst x = Ok tt -> shut (snd x) = false /\ panic (snd x) = false).
Proof.
  intros Hs Hp Ha. unfold ehlo. destruct (hello_ok hello).
  2:{ cbn [fst snd]. destruct (abort_units s) as (B1 & B2 & _ & B4). split; [|discriminate].
      eapply allowed_units; [exact B4| |exact Ha]. unfold quit_tail. rewrite Hp, Hs. constructor; [right; right; reflexivity|constructor]. }
  unfold ehlo_send. fold (EHLO_LINE hello).
  pose proof (try_command (EHLO_LINE hello) s Hs Hp) as T.
  destruct (try_smtp (command (EHLO_LINE hello) s)) as [[r|e|] s1]; cbn [step_post] in T.
  - destruct T as (N & S1 & P1 & _ & _).
    assert (A1 : Forall (allowed hello) (ulog s1)).
    { eapply allowed_units; [exact N| |exact Ha]. constructor; [left; reflexivity|constructor]. }
    destruct (from_response r) as [i|e|]; cbn [try_smtp fst snd].
    + split; [exact A1|]. intros _. cbn. auto.
    + destruct (abort_units s1) as (B1 & B2 & _ & B4). split; [|discriminate].
      eapply allowed_units; [exact B4| |exact A1]. unfold quit_tail. rewrite P1, S1. constructor; [right; right; reflexivity|constructor].
    + split; [exact A1|discriminate].
  - destruct T as (N & _). cbn [fst snd]. split; [|discriminate].
    eapply allowed_units; [exact N| |exact Ha]. constructor; [left; reflexivity|]. constructor; [right; right; reflexivity|constructor].
  - contradiction.
Qed.

Lemma open_ctl sc : shut (open sc) = false /\ panic (open sc) = false /\ ulog (open sc) = [].
Proof.
  unfold open. destruct (deliver_ctl (mkSt [] false false sc false info_default [])) as (A & B & _ & D).
  rewrite A, B, D. cbn. auto.
Qed.

Lemma connect_units hello sc :
  let x := connect hello sc in
  Forall (allowed hello) (ulog (snd x)) /\ (fst x = Ok tt -> shut (snd x) = false /\ panic (snd x) = false).
Proof.
  unfold connect. destruct (open_ctl sc) as (O1 & O2 & O3).
  destruct (read_response_ctl (open sc)) as (_ & C2 & _ & C4 & _ & C6).
  destruct (read_response (open sc)) as [[r|e|] s1]; cbn [fst snd] in *.
  - apply ehlo_units; [congruence|congruence|rewrite C6, O3; constructor].
  - split; [rewrite C6, O3; constructor|discriminate].
  - split; [rewrite C6, O3; constructor|discriminate].
Qed.

Lemma starttls_units hello pt p s : shut s = false -> panic s = false -> Forall (allowed hello) (ulog s) ->
  let x := starttls hello pt p s in
  Forall (allowed hello) (clear_units (snd x)) /\
  (fst x = Ok tt -> t_enc (snd x) = true /\ handshake pt p = true /\ shut (t_sess (snd x)) = false /\ panic (t_sess (snd x)) = false).
Proof.
  intros Hs Hp Ha. unfold starttls. destruct (f_starttls (info s)).
  2:{ cbn. split; [exact Ha|discriminate]. }
  pose proof (try_command STARTTLS_LINE s Hs Hp) as T.
  destruct (try_smtp (command STARTTLS_LINE s)) as [[r|e|] s1]; cbn [step_post] in T.
  - destruct T as (N & S1 & P1 & _ & _).
    assert (A1 : Forall (allowed hello) (ulog s1)).
    { eapply allowed_units; [exact N| |exact Ha]. constructor; [right; left; reflexivity|constructor]. }
    destruct (nonempty (inbuf s1)).
    + cbn [fst snd clear_units t_enc t_sess]. split; [|discriminate].
      destruct (abort_units s1) as (_ & _ & _ & B4). eapply allowed_units; [exact B4| |exact A1].
      unfold quit_tail. rewrite P1, S1. constructor; [right; right; reflexivity|constructor].
    + destruct (handshake pt p) eqn:Hh.
      * assert (F1 : shut (fresh_session s1) = false /\ panic (fresh_session s1) = false /\ ulog (fresh_session s1) = []) by (cbn; auto).
        destruct F1 as (F1 & F2 & F3).
        assert (F4 : Forall (allowed hello) (ulog (fresh_session s1))) by (rewrite F3; constructor).
        pose proof (ehlo_units hello (fresh_session s1) F1 F2 F4) as E. cbn zeta in E.
        destruct (ehlo hello (fresh_session s1)) as [r3 s3]. cbn [fst snd clear_units t_enc t_clear t_sess] in *.
        split; [exact A1|]. intros ->. destruct E as (_ & E2). destruct (E2 eq_refl). auto.
      * cbn [fst snd clear_units t_enc t_sess]. split; [exact A1|discriminate].
  - destruct T as (N & _). cbn [fst snd clear_units t_enc t_sess]. split; [|discriminate].
    eapply allowed_units; [exact N| |exact Ha]. constructor; [right; left; reflexivity|]. constructor; [right; right; reflexivity|constructor].
  - contradiction.
Qed.

Lemma authenticate_clear hello c r t :
  (fst (r, t) <> Ok tt \/ t_enc t = true) -> Forall (allowed hello) (clear_units t) ->
  let y := authenticate c (r, t) in
  Forall (allowed hello) (clear_units (snd y)) /\ t_enc (snd y) = t_enc t /\ (fst y = Ok tt -> r = Ok tt).
Proof.
  intros H Ha. unfold authenticate. destruct r as [[]|e|].
  - destruct H as [H|H]; [cbn in H; contradiction|].
    destruct c as [[[ms u] pw]|]; [|cbn; auto].
    destruct (auth ms u pw (t_sess t)) as [[r1|e1|] s']; cbn [fst snd clear_units t_enc t_clear];
      unfold clear_units in Ha; rewrite H in *; (split; [exact Ha|split; [reflexivity|auto; try discriminate]]).
  - cbn. split; [exact Ha|split; [reflexivity|discriminate]].
  - cbn. split; [exact Ha|split; [reflexivity|discriminate]].
Qed.

Definition strict (m : tls_mode) : Prop := m = TRequired \/ m = TWrapper.

Theorem strict_connection mode hello pt p c sc : strict mode ->
  let x := connection mode hello pt p c sc in
  Forall (allowed hello) (clear_units (snd x)) /\
  (fst x = Ok tt -> t_enc (snd x) = true /\ handshake pt p = true) /\
  (mode = TWrapper -> clear_units (snd x) = []).
Proof.
  intros [-> | ->]; unfold connection.
  - (* required *)
    pose proof (connect_units hello sc) as C. cbn zeta in C.
    destruct (connect hello sc) as [[[]|e|] s]; cbn [fst snd] in C.
    + destruct C as (Ca & Cb). destruct (Cb eq_refl) as (S & P).
      pose proof (starttls_units hello pt p s S P Ca) as U. cbn zeta in U.
      destruct (starttls hello pt p s) as [r t]. cbn [fst snd] in U. destruct U as (U1 & U2).
      assert (H : fst (r, t) <> Ok tt \/ t_enc t = true).
      { destruct r as [[]|e|]; [right; apply U2; reflexivity|left; discriminate|left; discriminate]. }
      pose proof (authenticate_clear hello c r t H U1) as A. cbn zeta in A.
      destruct (authenticate c (r, t)) as [r' t']. cbn [fst snd] in *. destruct A as (A1 & A2 & A3).
      split; [exact A1|]. split; [|discriminate]. intros ->. specialize (A3 eq_refl). subst r.
      destruct (U2 eq_refl) as (E1 & E2 & _). rewrite A2. auto.
    + cbn [fst snd clear_units t_enc t_sess]. split; [apply C|]. split; discriminate.
    + cbn [fst snd clear_units t_enc t_sess]. split; [apply C|]. split; discriminate.
  - (* wrapper *)
    destruct (handshake pt p) eqn:Hh.
    + destruct (connect hello sc) as [r s].
      assert (H : fst (r, mkT [] s true) <> Ok tt \/ t_enc (mkT [] s true) = true) by (right; reflexivity).
      assert (Ha : Forall (allowed hello) (clear_units (mkT [] s true))) by (cbn; constructor).
      pose proof (authenticate_clear hello c r (mkT [] s true) H Ha) as A. cbn zeta in A.
      destruct (authenticate c (r, mkT [] s true)) as [r' t'] eqn:E. cbn [fst snd] in *. destruct A as (A1 & A2 & A3).
      split; [exact A1|]. split; [intros _; rewrite A2; auto|]. intros _.
      (* authenticate keeps t_clear and t_enc *)
      unfold authenticate in E. destruct r as [[]|e|]; [|inversion E; reflexivity|inversion E; reflexivity].
      destruct c as [[[ms u] pw]|]; [|inversion E; reflexivity].
      destruct (auth ms u pw (t_sess (mkT [] s true))) as [[r1|e1|] s']; inversion E; reflexivity.
    + cbn. split; [constructor|]. split; [discriminate|reflexivity].
Qed.

(* the message and the envelope only ever go over the channel that `connection` ended with *)
Theorem strict_send mode hello pt p c sc env msg : strict mode ->
  let y := tsend mode hello pt p c sc env msg in
  Forall (allowed hello) (clear_units (snd y)) /\ (fst y <> Err e_conn -> True).
Proof.
  intros Hm. unfold tsend. pose proof (strict_connection mode hello pt p c sc Hm) as C. cbn zeta in C.
  destruct (connection mode hello pt p c sc) as [[[]|e|] t]; cbn [fst snd] in C; destruct C as (C1 & C2 & _).
  - destruct (C2 eq_refl) as (E & _). destruct (send env msg (t_sess t)) as [r s']. cbn [fst snd].
    split; [|auto]. unfold clear_units in *. cbn [t_enc t_clear]. rewrite E in *. exact C1.
  - cbn. auto.
  - cbn. auto.
Qed.

(* the in-TLS capabilities do not depend on anything learned or buffered before the handshake *)
Theorem capabilities_replaced hello s s' :
  closed s = closed s' -> script s = script s' -> ehlo hello (fresh_session s) = ehlo hello (fresh_session s').
Proof. intros H1 H2. unfold fresh_session. rewrite H1, H2. reflexivity. Qed.

(* opportunistic: the upgrade is attempted exactly when STARTTLS was offered, and then there is no way back *)
Theorem opportunistic_rule hello pt p c sc s : connect hello sc = (Ok tt, s) ->
  connection TOpportunistic hello pt p c sc =
  authenticate c (if f_starttls (info s) then starttls hello pt p s else (Ok tt, mkT [] s false)).
Proof. intros H. unfold connection. rewrite H. reflexivity. Qed.

Theorem none_never_upgrades hello pt p c sc : t_enc (snd (connection TNone hello pt p c sc)) = false.
Proof.
  unfold connection. destruct (connect hello sc) as [[[]|e|] s]; cbn; try reflexivity.
  destruct c as [[[ms u] pw]|]; [|reflexivity]. destruct (auth ms u pw s) as [[r|e|] s']; reflexivity.
Qed.

(* the acceptance table, and what each switch relaxes *)
Theorem cert_table p :
  (cert_ok CGood p = true <-> add_root p = true \/ accept_invalid_certs p = true) /\
  (cert_ok CWrongName p = true <-> accept_invalid_certs p = true \/ (add_root p = true /\ accept_invalid_hostnames p = true)) /\
  (cert_ok CSelfSigned p = true <-> accept_invalid_certs p = true) /\
  (cert_ok CExpired p = true <-> accept_invalid_certs p = true).
Proof. destruct p as [[] [] []]; cbn; intuition discriminate. Qed.

Theorem hostname_switch_only_relaxes_the_name c r a :
  cert_ok c (mkTp r a true) = cert_ok c (mkTp r a false) \/ c = CWrongName.
Proof. destruct c; cbn; auto. Qed.
