(* Lemmas about the SMTP client model (Model/Client.v): what is written, in which order,
   and what the results mean.  Used by Properties C04, C05, C14, C15 and by the pool proofs. *)
From Coq Require Import Strings.String.
From LV Require Import Base.Bytes Base.Str Base.Utf8 Base.Res Base.Base64
  Model.Codec Model.Response Model.ServerInfo Model.Auth Model.Client.

(* ---------- read_line / read_response ---------- *)

Lemma split_lf_length l a t : split_lf l = Some (a, t) -> (length t < length l)%nat /\ l = a ++ t.
Proof.
  revert a t; induction l as [|b l IH]; intros a t H; [discriminate|].
  cbn [split_lf] in H. destruct (b =? LF).
  - inversion H; subst. cbn. split; [lia|reflexivity].
  - destruct (split_lf l) as [[a' t']|] eqn:E; [|discriminate].
    inversion H; subst. destruct (IH _ _ eq_refl) as [Hl He]. cbn. split; [lia|now f_equal].
Qed.

Lemma read_line_shrinks i c l rest :
  read_line i c = RL_line l rest -> (length rest < length i)%nat.
Proof.
  unfold read_line. destruct (split_lf i) as [[a t]|] eqn:E.
  - destruct (utf8_valid a); intros H; inversion H; subst. apply (split_lf_length _ _ _ E).
  - destruct c; [|discriminate]. destruct i as [|b i]; [discriminate|].
    destruct (utf8_valid (b :: i)); intros H; inversion H; subst. cbn. lia.
Qed.

(* the parts of the state read_response never touches *)
Definition same_ctl (s s' : cst) : Prop :=
  closed s' = closed s /\ shut s' = shut s /\ script s' = script s /\ panic s' = panic s /\
  info s' = info s /\ ulog s' = ulog s.

Lemma same_ctl_refl s : same_ctl s s.
Proof. unfold same_ctl; tauto. Qed.
Lemma same_ctl_trans a b c : same_ctl a b -> same_ctl b c -> same_ctl a c.
Proof. unfold same_ctl; intuition congruence. Qed.
Lemma same_ctl_upd s i : same_ctl s (upd_in s i).
Proof. unfold same_ctl, upd_in; cbn; tauto. Qed.

Lemma read_loop_ctl fuel : forall buf s, same_ctl s (snd (read_loop fuel buf s)).
Proof.
  induction fuel as [|f IH]; intros buf s; cbn [read_loop]; [apply same_ctl_refl|].
  destruct (read_line (inbuf s) (closed s)) as [l rest| |rest|]; cbn [snd];
    try apply same_ctl_refl; try apply same_ctl_upd.
  destruct (parse_response (buf ++ l)) as [r rest'| | |]; cbn [snd]; try apply same_ctl_upd.
  eapply same_ctl_trans; [apply same_ctl_upd|]. apply IH.
Qed.
Lemma read_response_ctl s : same_ctl s (snd (read_response s)).
Proof. apply read_loop_ctl. Qed.

(* what a result of read_response can be *)
Definition reply_verdict (x : rres) : Prop :=
  match x with
  | Ok r => is_positive r = true
  | Err e =>
      (ek e = Transient /\ exists r, ecode e = Some (rcode r) /\ sev (rcode r) = 4 /\ etext e = concat (rlines r)) \/
      (ek e = Permanent /\ exists r, ecode e = Some (rcode r) /\ sev (rcode r) = 5 /\ etext e = concat (rlines r)) \/
      (ek e = EResponse /\ ecode e = None) \/ (ek e = ENetwork /\ ecode e = None) \/
      (ek e = EClient /\ ecode e = None)
  | Panic => False
  end.

Lemma code_error_verdict r : is_positive r = false -> reply_verdict (Err (code_error r)).
Proof.
  intros Hp. unfold code_error. cbn.
  destruct (sev (rcode r) =? 4) eqn:E4.
  - left. cbn. split; [reflexivity|]. exists r. apply N.eqb_eq in E4. auto.
  - destruct (sev (rcode r) =? 5) eqn:E5.
    + right; left. cbn. split; [reflexivity|]. exists r. apply N.eqb_eq in E5. auto.
    + right; right; right; right. cbn. auto.
Qed.

Lemma read_loop_verdict fuel : forall buf s,
  (length (inbuf s) < fuel)%nat -> reply_verdict (fst (read_loop fuel buf s)).
Proof.
  induction fuel as [|f IH]; intros buf s Hf; [lia|]. cbn [read_loop].
  destruct (read_line (inbuf s) (closed s)) as [l rest| |rest|] eqn:E; cbn [fst].
  - destruct (parse_response (buf ++ l)) as [r rest'| | |]; cbn [fst].
    + destruct (is_positive r) eqn:P; [exact P | now apply code_error_verdict].
    + apply IH. cbn. apply read_line_shrinks in E. lia.
    + cbn. right; right; left; auto.
    + cbn. right; right; left; auto.
  - cbn. right; right; left; auto.
  - cbn. right; right; right; left; auto.
  - cbn. right; right; right; left; auto.
Qed.

Lemma read_response_verdict s : reply_verdict (fst (read_response s)).
Proof. apply read_loop_verdict. lia. Qed.

(* a read on a stream the peer has closed never blocks *)
Lemma read_line_closed_no_block i : read_line i true <> RL_block.
Proof.
  unfold read_line. destruct (split_lf i) as [[a t]|].
  - destruct (utf8_valid a); discriminate.
  - destruct i; [discriminate|]. destruct (utf8_valid _); discriminate.
Qed.

Definition is_timeout_err (x : rres) : bool :=
  match x with Err e => etimeout e | _ => false end.

Lemma read_loop_closed fuel : forall buf s,
  closed s = true -> is_timeout_err (fst (read_loop fuel buf s)) = false.
Proof.
  induction fuel as [|f IH]; intros buf s Hc; [reflexivity|]. cbn [read_loop]. rewrite Hc.
  destruct (read_line (inbuf s) true) as [l rest| |rest|] eqn:E; cbn [fst]; try reflexivity.
  - destruct (parse_response (buf ++ l)) as [r rest'| | |]; cbn [fst]; try reflexivity.
    + destruct (is_positive r); [reflexivity|]. unfold code_error.
      destruct (_ =? 4); [reflexivity|]. destruct (_ =? 5); reflexivity.
    + apply IH. exact Hc.
  - exfalso. exact (read_line_closed_no_block _ E).
Qed.

(* ---------- what command / abort write ---------- *)

Definition new_units (s s' : cst) (us : list unit_ev) : Prop := ulog s' = rev us ++ ulog s.

Lemma new_units_refl s : new_units s s [].
Proof. reflexivity. Qed.
Lemma new_units_trans a b c u v : new_units a b u -> new_units b c v -> new_units a c (u ++ v).
Proof. unfold new_units; intros H1 H2. rewrite H2, H1, rev_app_distr, app_assoc. reflexivity. Qed.

Lemma deliver_ctl s : shut (deliver s) = shut s /\ panic (deliver s) = panic s /\
  info (deliver s) = info s /\ ulog (deliver s) = ulog s.
Proof. unfold deliver. destruct (closed s); [tauto|]. destruct (script s); cbn; tauto. Qed.

Lemma command_units line s :
  let s' := snd (command line s) in
  shut s' = shut s /\ panic s' = panic s /\ info s' = info s /\
  new_units s s' (if shut s then [] else [ULine line]).
Proof.
  unfold command. destruct (shut s) eqn:Hs; cbn [snd].
  - rewrite Hs. repeat split; reflexivity.
  - destruct (read_response_ctl (deliver (log_unit s (ULine line)))) as (_ & H2 & _ & H4 & H5 & H6).
    destruct (deliver_ctl (log_unit s (ULine line))) as (D1 & D2 & D3 & D4).
    unfold new_units. rewrite H2, H4, H5, H6, D1, D2, D3, D4. cbn. rewrite Hs. repeat split; reflexivity.
Qed.

Lemma message_units msg s :
  let s' := snd (message msg s) in
  shut s' = shut s /\ panic s' = panic s /\ info s' = info s /\
  new_units s s' (if shut s then [] else [UData (wire msg)]).
Proof.
  unfold message. destruct (shut s) eqn:Hs; cbn [snd].
  - rewrite Hs. repeat split; reflexivity.
  - destruct (read_response_ctl (deliver (log_unit s (UData (wire msg))))) as (_ & H2 & _ & H4 & H5 & H6).
    destruct (deliver_ctl (log_unit s (UData (wire msg)))) as (D1 & D2 & D3 & D4).
    unfold new_units. rewrite H2, H4, H5, H6, D1, D2, D3, D4. cbn. rewrite Hs. repeat split; reflexivity.
Qed.

Definition quit_tail (s : cst) : list unit_ev :=
  if panic s then [] else if shut s then [] else [ULine QUIT].

Lemma abort_units s :
  shut (abort s) = true /\ panic (abort s) = true /\ info (abort s) = info s /\
  new_units s (abort s) (quit_tail s).
Proof.
  unfold abort, quit_tail. destruct (panic s) eqn:Hp; cbn.
  - rewrite Hp. repeat split; reflexivity.
  - set (s0 := mkSt (inbuf s) (closed s) (shut s) (script s) true (info s) (ulog s)).
    destruct (command_units QUIT s0) as (C1 & C2 & C3 & C4). cbn in C1, C2, C3, C4.
    unfold new_units in *. rewrite C2, C3, C4. repeat split; reflexivity.
Qed.

(* ---------- one guarded step: try_smtp!(command(..)) ---------- *)

Lemma command_verdict l s : shut s = false -> reply_verdict (fst (command l s)).
Proof. intros H. unfold command. rewrite H. apply read_response_verdict. Qed.
Lemma message_verdict m s : shut s = false -> reply_verdict (fst (message m s)).
Proof. intros H. unfold message. rewrite H. apply read_response_verdict. Qed.

Definition step_post (s : cst) (u : unit_ev) (x : rres * cst) : Prop :=
  match x with
  | (Ok r, s') => new_units s s' [u] /\ shut s' = false /\ panic s' = false /\ info s' = info s /\
                  is_positive r = true
  | (Err e, s') => new_units s s' [u; ULine QUIT] /\ shut s' = true /\ panic s' = true /\
                   info s' = info s /\ reply_verdict (Err e)
  | (Panic, _) => False
  end.

Lemma try_command l s : shut s = false -> panic s = false ->
  step_post s (ULine l) (try_smtp (command l s)).
Proof.
  intros Hs Hp. pose proof (command_verdict l s Hs) as V.
  pose proof (command_units l s) as U. cbn zeta in U. rewrite Hs in U.
  destruct (command l s) as [[r|e|] s1]; cbn [fst snd try_smtp step_post] in *.
  - destruct U as (U1 & U2 & U3 & U4). repeat split; try congruence; try exact V.
  - destruct U as (U1 & U2 & U3 & U4).
    destruct (abort_units s1) as (A1 & A2 & A3 & A4).
    unfold quit_tail in A4. rewrite U2, Hp, U1 in A4.
    repeat split; try congruence; try exact V.
    exact (new_units_trans _ _ _ _ _ U4 A4).
  - exact V.
Qed.

Lemma try_message m s : shut s = false -> panic s = false ->
  step_post s (UData (wire m)) (try_smtp (message m s)).
Proof.
  intros Hs Hp. pose proof (message_verdict m s Hs) as V.
  pose proof (message_units m s) as U. cbn zeta in U. rewrite Hs in U.
  destruct (message m s) as [[r|e|] s1]; cbn [fst snd try_smtp step_post] in *.
  - destruct U as (U1 & U2 & U3 & U4). repeat split; try congruence; try exact V.
  - destruct U as (U1 & U2 & U3 & U4).
    destruct (abort_units s1) as (A1 & A2 & A3 & A4).
    unfold quit_tail in A4. rewrite U2, Hp, U1 in A4.
    repeat split; try congruence; try exact V.
    exact (new_units_trans _ _ _ _ _ U4 A4).
  - exact V.
Qed.

(* ---------- the transaction: MAIL, RCPT*, DATA, content ---------- *)

Definition mail_opts (env : envelope) (msg : bytes) : list bytes :=
  (if has_non_ascii_addresses env then [bs "SMTPUTF8"] else []) ++
  (if negb (is_ascii msg) then [bs "BODY=8BITMIME"] else []).

Definition rcpt_units (tos : list bytes) : list unit_ev := map (fun a => ULine (show_rcpt a)) tos.

Definition expected_units (env : envelope) (msg : bytes) : list unit_ev :=
  ULine (show_mail (e_from env) (mail_opts env msg)) :: rcpt_units (e_to env) ++ [ULine DATA; UData (wire msg)].

(* outcome of a run of guarded steps that were to write `exp` *)
Definition run_post (s : cst) (exp : list unit_ev) (ok : bool) (s' : cst) : Prop :=
  if ok then new_units s s' exp /\ shut s' = false /\ panic s' = false /\ info s' = info s
  else exists k, (1 <= k <= length exp)%nat /\ new_units s s' (firstn k exp ++ [ULine QUIT]) /\
                 shut s' = true /\ panic s' = true.

Lemma rcpts_post tos : forall s, shut s = false -> panic s = false ->
  match rcpts tos s with
  | (Ok _, s') => run_post s (rcpt_units tos) true s'
  | (Err e, s') => run_post s (rcpt_units tos) false s' /\ reply_verdict (Err e)
  | (Panic, _) => False
  end.
Proof.
  induction tos as [|a tos IH]; intros s Hs Hp; cbn [rcpts].
  - cbn. repeat split; auto.
  - change (rcpt_units (a :: tos)) with (ULine (show_rcpt a) :: rcpt_units tos).
    pose proof (try_command (show_rcpt a) s Hs Hp) as T.
    destruct (try_smtp (command (show_rcpt a) s)) as [[r|e|] s1]; cbn [step_post] in T.
    + destruct T as (N & S1 & P1 & I1 & _).
      specialize (IH s1 S1 P1).
      destruct (rcpts tos s1) as [[u|e|] s2].
      * cbn [run_post] in *. destruct IH as (N2 & S2 & P2 & I2).
        repeat split; try congruence.
        exact (new_units_trans _ _ _ _ _ N N2).
      * destruct IH as [(k & Hk & N2 & S2 & P2) V]. split; [|exact V].
        exists (S k). cbn [length firstn]. repeat split; try lia; try assumption.
        change (ULine (show_rcpt a) :: firstn k (rcpt_units tos) ++ [ULine QUIT])
          with ([ULine (show_rcpt a)] ++ (firstn k (rcpt_units tos) ++ [ULine QUIT])).
        exact (new_units_trans _ _ _ _ _ N N2).
      * exact IH.
    + destruct T as (N & S1 & P1 & I1 & V). split; [|exact V].
      exists 1%nat. cbn [length firstn]. repeat split; try lia; assumption.
    + exact T.
Qed.

Definition local_refusal (e : error) : Prop := ek e = EClient /\ ecode e = None.

Theorem send_units env msg s : shut s = false -> panic s = false ->
  match send env msg s with
  | (Ok r, s') => run_post s (expected_units env msg) true s' /\ is_positive r = true
  | (Err e, s') =>
      (s' = s /\ local_refusal e /\
       ((has_non_ascii_addresses env = true /\ f_utf8 (info s) = false) \/
        (negb (is_ascii msg) = true /\ f_8bit (info s) = false)))
      \/ (run_post s (expected_units env msg) false s' /\ reply_verdict (Err e))
  | (Panic, _) => False
  end.
Proof.
  intros Hs Hp. unfold send.
  destruct (has_non_ascii_addresses env && negb (f_utf8 (info s))) eqn:E1.
  { left. apply andb_prop in E1. destruct E1 as [A B]. apply negb_true_iff in B.
    split; [reflexivity|]. split; [split; reflexivity|]. left; auto. }
  destruct (negb (is_ascii msg) && negb (f_8bit (info s))) eqn:E2.
  { left. apply andb_prop in E2. destruct E2 as [A B]. apply negb_true_iff in B.
    split; [reflexivity|]. split; [split; reflexivity|]. right; auto. }
  fold (mail_opts env msg).
  pose proof (try_command (show_mail (e_from env) (mail_opts env msg)) s Hs Hp) as T.
  destruct (try_smtp (command (show_mail (e_from env) (mail_opts env msg)) s)) as [[r|e|] s1];
    cbn [step_post] in T; [| |exact T].
  2:{ destruct T as (N & S1 & P1 & I1 & V). right. split; [|exact V].
      exists 1%nat. unfold expected_units. cbn [length firstn].
      repeat split; try lia; try assumption. }
  destruct T as (N & S1 & P1 & I1 & _).
  pose proof (rcpts_post (e_to env) s1 S1 P1) as R.
  destruct (rcpts (e_to env) s1) as [[u|e|] s2]; [| |exact R].
  2:{ destruct R as [(k & Hk & N2 & S2 & P2) V]. right. split; [|exact V].
      exists (S k). unfold expected_units. cbn [length firstn]. rewrite app_length.
      repeat split; try lia; try assumption.
      rewrite firstn_app. replace (k - length (rcpt_units (e_to env)))%nat with 0%nat by lia.
      cbn [firstn]. rewrite app_nil_r.
      change (ULine (show_mail (e_from env) (mail_opts env msg)) :: firstn k (rcpt_units (e_to env)) ++ [ULine QUIT])
        with ([ULine (show_mail (e_from env) (mail_opts env msg))] ++ (firstn k (rcpt_units (e_to env)) ++ [ULine QUIT])).
      exact (new_units_trans _ _ _ _ _ N N2). }
  cbn [run_post] in R. destruct R as (N2 & S2 & P2 & I2).
  pose proof (try_command DATA s2 S2 P2) as T3.
  destruct (try_smtp (command DATA s2)) as [[r3|e|] s3]; cbn [step_post] in T3; [| |exact T3].
  2:{ destruct T3 as (N3 & S3 & P3 & I3 & V). right. split; [|exact V].
      exists (S (length (rcpt_units (e_to env)) + 1)). unfold expected_units. cbn [length].
      rewrite app_length. cbn [length]. repeat split; try lia; try assumption.
      cbn [firstn]. rewrite firstn_app, firstn_all2 by lia.
      replace (length (rcpt_units (e_to env)) + 1 - length (rcpt_units (e_to env)))%nat with 1%nat by lia.
      cbn [firstn].
      pose proof (new_units_trans _ _ _ _ _ N (new_units_trans _ _ _ _ _ N2 N3)) as NN.
      unfold new_units in *. rewrite NN. f_equal; cbn; rewrite <- ?app_assoc; reflexivity. }
  destruct T3 as (N3 & S3 & P3 & I3 & _).
  pose proof (try_message msg s3 S3 P3) as T4.
  destruct (try_smtp (message msg s3)) as [[r4|e|] s4]; cbn [step_post] in T4; [| |exact T4].
  - destruct T4 as (N4 & S4 & P4 & I4 & Pos). split; [|exact Pos].
    cbn [run_post]. repeat split; try congruence.
    pose proof (new_units_trans _ _ _ _ _ N (new_units_trans _ _ _ _ _ N2 (new_units_trans _ _ _ _ _ N3 N4))) as NN.
    unfold new_units in *. rewrite NN. f_equal; unfold expected_units; cbn; rewrite <- ?app_assoc; reflexivity.
  - destruct T4 as (N4 & S4 & P4 & I4 & V). right. split; [|exact V].
    exists (length (expected_units env msg)). repeat split; try lia; try assumption.
    + unfold expected_units. cbn. lia.
    + rewrite firstn_all.
      pose proof (new_units_trans _ _ _ _ _ N (new_units_trans _ _ _ _ _ N2 (new_units_trans _ _ _ _ _ N3 N4))) as NN.
      unfold new_units in *. rewrite NN. f_equal; unfold expected_units; cbn; rewrite <- ?app_assoc; reflexivity.
Qed.
