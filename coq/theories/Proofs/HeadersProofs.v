(* The header map: names compare ASCII-case-insensitively; every reachable map has pairwise distinct
   names; lookup / replacement / removal behave like an abstract map keyed by the lower-cased name. *)
From LV Require Import Base.Bytes Base.Res Model.HeaderEnc Model.Headers.
From Coq Require Import Lia.

Lemma list_eqb_eq a : forall b, list_eqb a b = true <-> a = b.
Proof.
  induction a as [|x a IH]; intros [|y b]; cbn; split; intros H; try discriminate; try reflexivity.
  - apply andb_prop in H. destruct H as [E H]. apply N.eqb_eq in E. apply IH in H. subst. reflexivity.
  - inversion H; subst. rewrite N.eqb_refl. apply IH. reflexivity.
Qed.

Definition key (n : bytes) : bytes := map to_lower n.
Lemma name_eq_key a b : name_eq a b = true <-> key a = key b.
Proof. unfold name_eq, eq_ignore_case. apply list_eqb_eq. Qed.
Lemma name_eq_key_false a b : name_eq a b = false <-> key a <> key b.
Proof. rewrite <- name_eq_key. destruct (name_eq a b); split; intros; try discriminate; auto. exfalso; apply H; reflexivity. Qed.

(* the abstract view: association list keyed by lower-cased name, in insertion order *)
Definition keys (hs : headers) : list bytes := map (fun h => key (h_name h)) hs.
Definition uniq (hs : headers) : Prop := NoDup (keys hs).

Lemma find_header_spec n hs : uniq hs ->
  forall h, find_header n hs = Some h <-> (In h hs /\ key (h_name h) = key n).
Proof.
  induction hs as [|x hs IH]; intros U h; cbn [find_header].
  - split; [discriminate|intros [[] _]].
  - inversion U as [|k ks Hnin Hnd]; subst. destruct (name_eq n (h_name x)) eqn:E.
    + apply name_eq_key in E. split.
      * intros H; inversion H; subst. split; [left; reflexivity|auto].
      * intros [[->|Hin] Hk]; [reflexivity|]. exfalso. apply Hnin. unfold keys. rewrite <- E, <- Hk.
        apply in_map with (f := fun h => key (h_name h)) in Hin. exact Hin.
    + apply name_eq_key_false in E. rewrite (IH Hnd h). split.
      * intros [Hin Hk]. split; [right; exact Hin|exact Hk].
      * intros [[->|Hin] Hk]; [exfalso; apply E; auto|split; assumption].
Qed.

Lemma keys_insert v hs :
  keys (insert_raw v hs) = if existsb (fun h => name_eq (h_name v) (h_name h)) hs then keys hs else keys hs ++ [key (h_name v)].
Proof.
  induction hs as [|x hs IH]; cbn [insert_raw existsb keys map]; [reflexivity|].
  destruct (name_eq (h_name v) (h_name x)) eqn:E; cbn [orb].
  - cbn [keys map]. apply name_eq_key in E. rewrite E. reflexivity.
  - cbn [keys map]. fold (keys (insert_raw v hs)). rewrite IH. fold (keys hs).
    destruct (existsb _ hs); reflexivity.
Qed.

Lemma existsb_key v hs : existsb (fun h => name_eq (h_name v) (h_name h)) hs = true <-> In (key (h_name v)) (keys hs).
Proof.
  unfold keys. rewrite existsb_exists, in_map_iff. split.
  - intros (h & Hin & E). apply name_eq_key in E. exists h. auto.
  - intros (h & E & Hin). exists h. split; [exact Hin|]. apply name_eq_key. auto.
Qed.

Lemma NoDup_snoc {A} (l : list A) k : NoDup l -> ~ In k l -> NoDup (l ++ [k]).
Proof.
  induction l as [|x l IH]; intros U Hk; cbn; [constructor; [intros []|constructor]|].
  inversion U; subst. constructor.
  - intros Hin. apply in_app_or in Hin. destruct Hin as [Hin|[<-|[]]]; [contradiction|]. apply Hk. left; reflexivity.
  - apply IH; [assumption|]. intros Hin. apply Hk. right; exact Hin.
Qed.

Theorem insert_uniq v hs : uniq hs -> uniq (insert_raw v hs).
Proof.
  unfold uniq. intros U. rewrite keys_insert. destruct (existsb _ hs) eqn:E; [exact U|].
  apply NoDup_snoc; [exact U|]. intros Hk. apply existsb_key in Hk. congruence.
Qed.

Lemma filter_all_id {A} (f : A -> bool) l : forallb f l = true -> filter f l = l.
Proof. induction l as [|x l IH]; cbn; [auto|]. intros H. apply andb_prop in H. destruct H as [Hx Hl]. rewrite Hx, IH; auto. Qed.

Lemma remove_spec n hs : uniq hs ->
  keys (snd (remove_raw n hs)) = filter (fun k => negb (list_eqb k (key n))) (keys hs) /\
  uniq (snd (remove_raw n hs)) /\
  (forall h, In h (snd (remove_raw n hs)) <-> (In h hs /\ key (h_name h) <> key n)).
Proof.
  induction hs as [|x hs IH]; intros U; cbn [remove_raw].
  - cbn. repeat split; auto; try constructor; intros; tauto.
  - inversion U as [|k ks Hnin Hnd]; subst. destruct (name_eq n (h_name x)) eqn:E.
    + apply name_eq_key in E. cbn [snd keys map filter].
      replace (list_eqb (key (h_name x)) (key n)) with true by (symmetry; apply list_eqb_eq; auto). cbn [negb].
      assert (F : filter (fun k => negb (list_eqb k (key n))) (keys hs) = keys hs).
      { apply filter_all_id. apply forallb_forall. intros k Hk. apply negb_true_iff.
        destruct (list_eqb k (key n)) eqn:Ek; [|reflexivity]. apply list_eqb_eq in Ek. subst k.
        exfalso. apply Hnin. fold (keys hs). rewrite <- E. exact Hk. }
      fold (keys hs). rewrite F. split; [reflexivity|]. split; [exact Hnd|].
      intros h. split.
      * intros Hin. split; [right; exact Hin|]. intros Hk. apply Hnin. fold (keys hs). rewrite <- E, <- Hk.
        unfold keys. apply in_map with (f := fun h => key (h_name h)) in Hin. exact Hin.
      * intros [[->|Hin] Hk]; [exfalso; apply Hk; auto|exact Hin].
    + apply name_eq_key_false in E. destruct (IH Hnd) as (K & U' & I').
      destruct (remove_raw n hs) as [x' r'] eqn:Er. cbn [snd] in *. cbn [keys map filter].
      replace (list_eqb (key (h_name x)) (key n)) with false
        by (symmetry; apply Bool.not_true_iff_false; intros Ek; apply list_eqb_eq in Ek; apply E; auto).
      cbn [negb]. fold (keys r'). fold (keys hs). rewrite K. split; [reflexivity|]. split.
      * unfold uniq. cbn [keys map]. fold (keys r'). constructor; [|exact U'].
        rewrite K. intros Hin. apply filter_In in Hin. destruct Hin as [Hin _]. exact (Hnin Hin).
      * intros h. cbn [In]. rewrite I'. split.
        -- intros [->|[Hin Hk]]; [split; [left; reflexivity|auto]|split; [right; exact Hin|exact Hk]].
        -- intros [[->|Hin] Hk]; [left; reflexivity|right; split; assumption].
Qed.

(* lookups after the two updates *)
Theorem get_after_insert n v hs : uniq hs ->
  get_raw n (insert_raw v hs) = if name_eq n (h_name v) then Some (h_raw v) else get_raw n hs.
Proof.
  intros U. unfold get_raw. induction hs as [|x hs IH]; cbn [insert_raw find_header].
  - destruct (name_eq n (h_name v)); reflexivity.
  - inversion U as [|k ks Hnin Hnd]; subst.
    destruct (name_eq (h_name v) (h_name x)) eqn:E; cbn [find_header].
    + apply name_eq_key in E. destruct (name_eq n (h_name v)) eqn:E2.
      * reflexivity.
      * apply name_eq_key_false in E2. replace (name_eq n (h_name x)) with false; [reflexivity|].
        symmetry. apply name_eq_key_false. congruence.
    + destruct (name_eq n (h_name x)) eqn:E3.
      * apply name_eq_key in E3. apply name_eq_key_false in E.
        replace (name_eq n (h_name v)) with false; [reflexivity|]. symmetry. apply name_eq_key_false. congruence.
      * apply IH. exact Hnd.
Qed.

Theorem get_after_remove n m hs : uniq hs ->
  get_raw n (snd (remove_raw m hs)) = if name_eq n m then None else get_raw n hs.
Proof.
  intros U. unfold get_raw. induction hs as [|x hs IH]; cbn [remove_raw].
  - cbn. destruct (name_eq n m); reflexivity.
  - inversion U as [|k ks Hnin Hnd]; subst. destruct (name_eq m (h_name x)) eqn:E.
    + cbn [snd find_header]. apply name_eq_key in E. destruct (name_eq n m) eqn:E2.
      * apply name_eq_key in E2. destruct (find_header n hs) as [h|] eqn:F; [|reflexivity].
        exfalso. apply (find_header_spec n hs Hnd) in F. destruct F as [Hin Hk].
        apply Hnin. fold (keys hs). rewrite <- E, <- E2, <- Hk. unfold keys.
        apply in_map with (f := fun h => key (h_name h)) in Hin. exact Hin.
      * apply name_eq_key_false in E2. replace (name_eq n (h_name x)) with false; [reflexivity|].
        symmetry. apply name_eq_key_false. congruence.
    + specialize (IH Hnd). destruct (remove_raw m hs) as [x' r'] eqn:Er. cbn [snd find_header] in *.
      destruct (name_eq n (h_name x)) eqn:E3.
      * apply name_eq_key in E3. apply name_eq_key_false in E.
        replace (name_eq n m) with false; [reflexivity|]. symmetry. apply name_eq_key_false. congruence.
      * exact IH.
Qed.

(* every map built by any sequence of operations from the empty map has distinct names *)
Theorem run_hops_uniq ops : forall hs, uniq hs -> uniq (snd (run_hops ops hs)).
Proof.
  induction ops as [|o ops IH]; intros hs U; cbn [run_hops]; [exact U|].
  destruct o as [n v|n|n].
  - destruct (hval_new n v) as [h| |].
    + specialize (IH (insert_raw h hs) (insert_uniq h hs U)). destruct (run_hops ops (insert_raw h hs)). exact IH.
    + specialize (IH hs U). destruct (run_hops ops hs). exact IH.
    + specialize (IH hs U). destruct (run_hops ops hs). exact IH.
  - specialize (IH hs U). destruct (run_hops ops hs). exact IH.
  - destruct (remove_spec n hs U) as (_ & U' & _). destruct (remove_raw n hs) as [x hs1]. cbn [snd] in U'.
    specialize (IH hs1 U'). destruct (run_hops ops hs1). exact IH.
Qed.
