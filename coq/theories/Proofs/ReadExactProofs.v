(* C15: reading a reply takes exactly that reply from the stream - every line of it, nothing of what follows -
   and returns its verdict; so a later line is never the answer to an earlier command. *)
From Coq Require Import Lia Arith.
From LV Require Import Base.Bytes Base.Utf8 Base.Res Model.Response Model.ServerInfo Model.Client
  Proofs.ResponseProofs Proofs.ClientProofs Model.Transports Proofs.TransportProofs.

(* text lines: ASCII without LF (hence valid UTF-8, one line of the stream each) *)
Definition plain_text (t : bytes) : Prop := is_ascii t = true /\ mem LF t = false.

Lemma ascii_utf8 l : is_ascii l = true -> utf8_valid l = true.
Proof. exact (stub_ascii l). Qed.

Lemma split_lf_line body more : mem LF body = false -> split_lf (body ++ LF :: more) = Some (body ++ [LF], more).
Proof.
  induction body as [|b body IH]; intros H; cbn [app split_lf].
  - rewrite N.eqb_refl. reflexivity.
  - cbn [mem] in H. apply orb_false_iff in H. destruct H as [H1 H2]. rewrite N.eqb_sym in H1. rewrite H1. rewrite IH by exact H2. reflexivity.
Qed.

Lemma read_line_one body more closed : mem LF body = false -> is_ascii body = true ->
  read_line (body ++ LF :: more) closed = RL_line (body ++ [LF]) more.
Proof.
  intros H1 H2. unfold read_line. rewrite split_lf_line by exact H1.
  rewrite ascii_utf8; [reflexivity|]. unfold is_ascii in *. rewrite forallb_app, H2. reflexivity.
Qed.

Lemma mem_app x a b : mem x (a ++ b) = mem x a || mem x b.
Proof. induction a as [|y a IH]; [reflexivity|]. cbn [app mem]. rewrite IH. apply orb_assoc. Qed.

(* a rendered line = body ++ [LF] with an ASCII, LF-free body *)
Definition line_body (sep : N) (c : code) (t : bytes) : bytes := digits c ++ [sep] ++ t ++ [CR].
Lemma line_body_ok sep c t : code_ok c -> (sep = 45 \/ sep = 32) -> plain_text t ->
  mem LF (line_body sep c t) = false /\ is_ascii (line_body sep c t) = true.
Proof.
  intros (Hs & Hc & Hd) Hsep (Ha & Hl). unfold line_body, digits. split.
  - rewrite !mem_app. rewrite Hl. cbn [mem]. unfold LF, CR in *.
    replace (10 =? sev c + 48) with false by (symmetry; apply N.eqb_neq; lia).
    replace (10 =? cat c + 48) with false by (symmetry; apply N.eqb_neq; lia).
    replace (10 =? det c + 48) with false by (symmetry; apply N.eqb_neq; lia).
    destruct Hsep as [-> | ->]; reflexivity.
  - unfold is_ascii. cbn [app forallb]. unfold is_ascii_b.
    replace (sev c + 48 <? 128) with true by (symmetry; apply N.ltb_lt; lia).
    replace (cat c + 48 <? 128) with true by (symmetry; apply N.ltb_lt; lia).
    replace (det c + 48 <? 128) with true by (symmetry; apply N.ltb_lt; lia).
    replace (sep <? 128) with true by (symmetry; apply N.ltb_lt; destruct Hsep as [-> | ->]; lia).
    cbn [andb]. rewrite forallb_app. unfold is_ascii in Ha. fold is_ascii_b. rewrite Ha. reflexivity.
Qed.

Lemma render_cont_body c t : render_cont (c, t) = line_body 45 c t ++ [LF].
Proof. unfold render_cont, line_body, CRLF. cbn [fst snd]. rewrite <- ?app_assoc. reflexivity. Qed.

(* a buffer holding only continuation lines is an incomplete reply *)
Lemma many_cont_incomplete c init : forall fuel acc, code_ok c -> Forall no_crlf init -> (length init < fuel)%nat ->
  many_cont fuel (flat_map (fun t => render_cont (c, t)) init) acc = Incomplete.
Proof.
  induction init as [|t init IH]; intros fuel acc Hc F Hf; (destruct fuel as [|f]; [cbn in Hf; lia|]).
  - reflexivity.
  - inversion F; subst. cbn [flat_map many_cont].
    rewrite (cont_line_ok c t (flat_map (fun t0 => render_cont (c, t0)) init) Hc H1).
    apply IH; auto. cbn in Hf. lia.
Qed.
Lemma parse_prefix_incomplete c init : code_ok c -> Forall no_crlf init ->
  parse_response (flat_map (fun t => render_cont (c, t)) init) = Incomplete.
Proof.
  intros Hc F. unfold parse_response. rewrite many_cont_incomplete; auto.
  pose proof (flat_render_length c init). lia.
Qed.

Definition verdict (r : response) : rres := if is_positive r then Ok r else Err (code_error r).

(* the loop, with k continuation lines already in the buffer *)
Lemma read_loop_exact c last rest : code_ok c -> plain_text last -> no_crlf last ->
  forall todo done fuel s,
  Forall plain_text todo -> Forall no_crlf todo -> Forall no_crlf done ->
  inbuf s = flat_map (fun t => render_cont (c, t)) todo ++ digits c ++ [32] ++ last ++ CRLF ++ rest ->
  (length todo < fuel)%nat ->
  read_loop fuel (flat_map (fun t => render_cont (c, t)) done) s =
  (verdict (mkResp c (done ++ todo ++ [last])), upd_in s rest).
Proof.
  intros Hc Pl Nl. induction todo as [|t todo IH]; intros done fuel s Pt Nt Nd Hin Hf; (destruct fuel as [|f]; [cbn in Hf; lia|]).
  - cbn [flat_map app] in Hin. cbn [read_loop].
    assert (E : inbuf s = line_body 32 c last ++ LF :: rest).
    { rewrite Hin. unfold line_body, CRLF. rewrite <- ?app_assoc. reflexivity. }
    destruct (line_body_ok 32 c last Hc (or_intror eq_refl) Pl) as (B1 & B2).
    rewrite E. rewrite (read_line_one _ rest (closed s) B1 B2).
    assert (W : flat_map (fun t => render_cont (c, t)) done ++ line_body 32 c last ++ [LF] = wire_of (mkResp c (done ++ [last])) ++ []).
    { unfold wire_of. cbn [rcode rlines]. rewrite wire_of_lines_split. unfold line_body, CRLF. rewrite <- ?app_assoc, app_nil_r. reflexivity. }
    rewrite W. rewrite parse_response_complete.
    + cbn [app]. unfold verdict. destruct (is_positive (mkResp c (done ++ [last]))); reflexivity.
    + split; [exact Hc|]. cbn [rlines]. split; [destruct done; discriminate|]. apply Forall_app. split; [exact Nd|constructor; [exact Nl|constructor]].
  - inversion Pt as [|? ? Pt1 Pt2]; subst. inversion Nt as [|? ? Nt1 Nt2]; subst.
    cbn [flat_map] in Hin. rewrite render_cont_body in Hin. rewrite <- ?app_assoc in Hin. cbn [app] in Hin.
    cbn [read_loop].
    destruct (line_body_ok 45 c t Hc (or_introl eq_refl) Pt1) as (B1 & B2).
    assert (E : inbuf s = line_body 45 c t ++ LF :: (flat_map (fun t0 => render_cont (c, t0)) todo ++ digits c ++ [32] ++ last ++ CRLF ++ rest)).
    { rewrite Hin. rewrite <- ?app_assoc. reflexivity. }
    rewrite E. rewrite (read_line_one _ _ (closed s) B1 B2).
    assert (W : flat_map (fun t0 => render_cont (c, t0)) done ++ line_body 45 c t ++ [LF] = flat_map (fun t0 => render_cont (c, t0)) (done ++ [t])).
    { rewrite flat_map_app. cbn [flat_map]. rewrite render_cont_body, app_nil_r. reflexivity. }
    rewrite W. rewrite parse_prefix_incomplete; [|exact Hc|apply Forall_app; split; [exact Nd|constructor; [exact Nt1|constructor]]].
    rewrite (IH (done ++ [t]) f (upd_in s (flat_map (fun t0 => render_cont (c, t0)) todo ++ digits c ++ [32] ++ last ++ CRLF ++ rest))); auto.
    + rewrite <- app_assoc. cbn [app]. reflexivity.
    + apply Forall_app. split; [exact Nd|constructor; [exact Nt1|constructor]].
    + cbn in Hf. lia.
Qed.

Theorem read_exact r rest s : reply_ok r -> Forall plain_text (rlines r) ->
  inbuf s = wire_of r ++ rest ->
  read_response s = (verdict r, upd_in s rest).
Proof.
  intros (Hc & Hne & F) P Hin. destruct r as [c ls]. cbn [rcode rlines] in *.
  destruct (exists_last Hne) as (init & last & ->).
  apply Forall_app in F. destruct F as [Fi Fl]. inversion Fl as [|? ? Nl _]; subst.
  apply Forall_app in P. destruct P as [Pi Pl]. inversion Pl as [|? ? Pl1 _]; subst.
  unfold read_response. unfold wire_of in Hin. cbn [rcode rlines] in Hin. rewrite wire_of_lines_split in Hin. rewrite <- ?app_assoc in Hin.
  change (@nil N) with (flat_map (fun t => render_cont (c, t)) (@nil bytes)).
  rewrite (read_loop_exact c last rest Hc Pl1 Nl init [] (S (length (inbuf s))) s Pi Fi (Forall_nil _)).
  - reflexivity.
  - rewrite Hin. rewrite <- ?app_assoc. reflexivity.
  - rewrite Hin. rewrite app_length. pose proof (flat_render_length c init). lia.
Qed.
