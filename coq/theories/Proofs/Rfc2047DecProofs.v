(* Algebra of the RFC 2047 reader of Spec/Rfc2047.v: how decode_unstructured behaves on a text that is
   cut at the borders of its white-space runs.  Used by HeaderRtProofs.v (C12 round trip). *)
From Coq Require Import Strings.String.
From LV Require Import Base.Bytes Base.Str Base.Base64 Spec.Rfc5322 Spec.Rfc2047 Model.HeaderEnc.
From Coq Require Import Lia Arith PeanoNat.
Local Arguments N.eqb : simpl never.
Local Arguments N.leb : simpl never.
Local Arguments N.ltb : simpl never.

Definition wsrun (l : bytes) : bool := forallb is_wsp l.
Definition wordb (l : bytes) : bool := forallb (fun b => negb (is_wsp b)) l.
Definition bnd (r : bytes) : bool := match r with [] => true | b :: _ => is_wsp b end.
Definition nbnd (r : bytes) : bool := match r with [] => true | b :: _ => negb (is_wsp b) end.

(* the reader, from a given "previous word was an encoded-word" flag *)
Definition D (pe : bool) (l : bytes) : bytes := dec_toks (utoks l) pe.
Definition is_enc (w : bytes) : bool := match decode_word w with Some _ => true | None => false end.

(* ---------- tokenizer ---------- *)
Lemma utoks_go_switch l : utoks_go l [] true = utoks_go l [] false.
Proof.
  destruct l as [|b r]; [reflexivity|]. cbn [utoks_go]. destruct (is_wsp b); reflexivity.
Qed.

Lemma utoks_go_word w : forall cur r, wordb w = true -> bnd r = true ->
  utoks_go (w ++ r) cur false =
  match rev w ++ cur with [] => [] | c => [UW (frev c)] end ++ utoks_go r [] false.
Proof.
  induction w as [|b w IH]; intros cur r Hw Hr.
  - cbn [app rev]. destruct r as [|c r].
    + cbn. destruct cur; rewrite ?app_nil_r; reflexivity.
    + cbn in Hr. cbn [utoks_go]. rewrite Hr. cbn [Bool.eqb app]. destruct cur; reflexivity.
  - cbn in Hw. apply andb_prop in Hw. destruct Hw as [Hb Hw]. apply negb_true_iff in Hb.
    cbn [app utoks_go]. rewrite Hb. cbn [Bool.eqb]. rewrite IH by assumption. cbn [rev]. rewrite <- app_assoc. reflexivity.
Qed.

Lemma utoks_go_ws ws : forall cur r, wsrun ws = true -> nbnd r = true ->
  utoks_go (ws ++ r) cur true =
  match rev ws ++ cur with [] => [] | c => [US (frev c)] end ++ utoks_go r [] false.
Proof.
  induction ws as [|b ws IH]; intros cur r Hw Hr.
  - cbn [app rev]. destruct r as [|c r].
    + cbn. destruct cur; rewrite ?app_nil_r; reflexivity.
    + cbn in Hr. apply negb_true_iff in Hr. cbn [utoks_go]. rewrite Hr. cbn [Bool.eqb app]. destruct cur; reflexivity.
  - cbn in Hw. apply andb_prop in Hw. destruct Hw as [Hb Hw].
    cbn [app utoks_go]. rewrite Hb. cbn [Bool.eqb]. rewrite IH by assumption. cbn [rev]. rewrite <- app_assoc. reflexivity.
Qed.

Lemma utoks_word w r : w <> [] -> wordb w = true -> bnd r = true -> utoks (w ++ r) = UW w :: utoks r.
Proof.
  intros Hne Hw Hr. unfold utoks. rewrite utoks_go_word by assumption. rewrite app_nil_r.
  destruct (rev w) as [|c t] eqn:E.
  - exfalso. apply Hne. apply (f_equal (@rev N)) in E. rewrite rev_involutive in E. exact E.
  - rewrite <- E, frev_rev, rev_involutive. reflexivity.
Qed.

Lemma utoks_ws ws r : ws <> [] -> wsrun ws = true -> nbnd r = true -> utoks (ws ++ r) = US ws :: utoks r.
Proof.
  intros Hne Hw Hr. unfold utoks. rewrite <- utoks_go_switch. rewrite utoks_go_ws by assumption. rewrite app_nil_r.
  destruct (rev ws) as [|c t] eqn:E.
  - exfalso. apply Hne. apply (f_equal (@rev N)) in E. rewrite rev_involutive in E. exact E.
  - rewrite <- E, frev_rev, rev_involutive. reflexivity.
Qed.

(* ---------- spans ---------- *)
Fixpoint span (f : N -> bool) (l : bytes) : bytes * bytes :=
  match l with
  | [] => ([], [])
  | b :: r => if f b then let '(a, t) := span f r in (b :: a, t) else ([], l)
  end.
Lemma span_spec f l : l = fst (span f l) ++ snd (span f l) /\ forallb f (fst (span f l)) = true /\
  match snd (span f l) with [] => True | b :: _ => f b = false end.
Proof.
  induction l as [|b r IH]; [cbn; auto|]. cbn [span]. destruct (f b) eqn:E.
  - destruct (span f r) as [a t]. cbn [fst snd] in *. destruct IH as (A & B & C). split; [cbn; rewrite <- A; reflexivity|].
    split; [cbn; rewrite E; exact B|exact C].
  - cbn. auto.
Qed.

Lemma wordb_bnd_split l : exists w r, l = w ++ r /\ wordb w = true /\ bnd r = true.
Proof.
  destruct (span_spec (fun b => negb (is_wsp b)) l) as (A & B & C).
  exists (fst (span (fun b => negb (is_wsp b)) l)), (snd (span (fun b => negb (is_wsp b)) l)).
  split; [exact A|]. split; [exact B|]. destruct (snd (span _ l)) as [|b t]; [reflexivity|]. cbn. apply negb_false_iff in C. exact C.
Qed.
Lemma wsrun_nbnd_split l : exists ws r, l = ws ++ r /\ wsrun ws = true /\ nbnd r = true.
Proof.
  destruct (span_spec is_wsp l) as (A & B & C).
  exists (fst (span is_wsp l)), (snd (span is_wsp l)).
  split; [exact A|]. split; [exact B|]. destruct (snd (span _ l)) as [|b t]; [reflexivity|]. cbn. rewrite C. reflexivity.
Qed.

(* ---------- the reader on cut texts ---------- *)
Lemma D_nil pe : D pe [] = [].
Proof. reflexivity. Qed.

Lemma D_word pe w r : w <> [] -> wordb w = true -> bnd r = true ->
  D pe (w ++ r) = match decode_word w with Some d => d ++ D true r | None => w ++ D false r end.
Proof.
  intros. unfold D. rewrite utoks_word by assumption. cbn [dec_toks]. destruct (decode_word w); reflexivity.
Qed.

Lemma D_ws_word pe ws w r : ws <> [] -> wsrun ws = true -> w <> [] -> wordb w = true -> bnd r = true ->
  D pe (ws ++ w ++ r) = if pe && is_enc w then D pe (w ++ r) else ws ++ D false (w ++ r).
Proof.
  intros Hne Hws Hwne Hw Hr. unfold D.
  assert (Hn : nbnd (w ++ r) = true).
  { destruct w as [|b w]; [contradiction|]. cbn in *. apply andb_prop in Hw. destruct Hw as [Hb _]. exact Hb. }
  rewrite utoks_ws by assumption. rewrite utoks_word by assumption. cbn [dec_toks]. unfold is_enc.
  destruct (decode_word w); reflexivity.
Qed.

Lemma D_ws_only pe ws : wsrun ws = true -> D pe ws = ws.
Proof.
  intros H. destruct ws as [|b ws]; [reflexivity|]. unfold D.
  rewrite <- (app_nil_r (b :: ws)). rewrite utoks_ws; [|discriminate|exact H|reflexivity]. cbn. rewrite !app_nil_r. reflexivity.
Qed.

Lemma wsrun_app a b : wsrun (a ++ b) = wsrun a && wsrun b.
Proof. apply forallb_app. Qed.

(* with no encoded-word before, leading white space is kept as it is *)
Lemma D_false_ws ws l : wsrun ws = true -> D false (ws ++ l) = ws ++ D false l.
Proof.
  intros Hws. destruct ws as [|b0 ws0]; [reflexivity|]. set (ws := b0 :: ws0) in *.
  destruct (wsrun_nbnd_split l) as (ws2 & r & -> & H2 & Hr).
  destruct r as [|c r'].
  - rewrite app_nil_r. rewrite !D_ws_only; [reflexivity|exact H2|rewrite wsrun_app, Hws, H2; reflexivity].
  - destruct (wordb_bnd_split (c :: r')) as (w & r2 & E & Hw & Hr2).
    assert (Hwne : w <> []).
    { intros ->. cbn in E. subst r2. cbn in Hr, Hr2. rewrite Hr2 in Hr. discriminate. }
    rewrite E. rewrite app_assoc.
    rewrite D_ws_word; [|subst ws; discriminate|rewrite wsrun_app, Hws, H2; reflexivity|exact Hwne|exact Hw|exact Hr2].
    cbn [andb]. rewrite <- app_assoc. f_equal.
    destruct ws2 as [|d ws2]; [reflexivity|].
    rewrite D_ws_word; [|discriminate|exact H2|exact Hwne|exact Hw|exact Hr2]. reflexivity.
Qed.

(* ---------- words that are not encoded-words ---------- *)
Lemma list_eqb_eq a : forall b, list_eqb a b = true -> a = b.
Proof.
  induction a as [|x a IH]; intros [|y b] H; cbn in H; try discriminate; [reflexivity|].
  apply andb_prop in H. destruct H as [H1 H2]. apply N.eqb_eq in H1. subst y. f_equal. apply IH. exact H2.
Qed.

Fixpoint join63 (ps : list bytes) : bytes :=
  match ps with
  | [] => []
  | [p] => p
  | p :: r => p ++ 63 :: join63 r
  end.
Lemma split_q_join l : forall cur, join63 (split_q l cur) = rev cur ++ l /\ split_q l cur <> [].
Proof.
  induction l as [|b r IH]; intros cur.
  - cbn. rewrite frev_rev, app_nil_r. split; [reflexivity|discriminate].
  - cbn [split_q]. destruct (b =? 63) eqn:E.
    + apply N.eqb_eq in E. subst b. destruct (IH []) as [A B]. split; [|discriminate].
      cbn [join63]. destruct (split_q r []) as [|p ps] eqn:Es; [contradiction|]. rewrite A, frev_rev. reflexivity.
    + destruct (IH (b :: cur)) as [A B]. split; [|exact B]. rewrite A. cbn [rev]. rewrite <- app_assoc. reflexivity.
Qed.

Lemma ends_with_qe_app x : ends_with_qe (x ++ [63; 61]) = true.
Proof.
  induction x as [|a x IH]; [reflexivity|]. cbn [app].
  destruct (x ++ [63; 61]) as [|p [|q t]] eqn:E.
  - destruct x; discriminate.
  - destruct x as [|? [|? ?]]; discriminate.
  - destruct t; [|exact IH]. cbn [ends_with_qe]. cbn [ends_with_qe] in IH. exact IH.
Qed.

Lemma decode_word_is_token w d : decode_word w = Some d -> ew_token w = true.
Proof.
  unfold decode_word. destruct (Nat.ltb 75 (length w)); [discriminate|].
  destruct (split_q_join w []) as [J _]. cbn [rev app] in J.
  destruct (split_q w []) as [|eq1 [|cs [|enc [|text [|eq2 [|x xs]]]]]]; try discriminate.
  destruct (list_eqb eq1 [61]) eqn:E1; [|discriminate]. destruct (list_eqb eq2 [61]) eqn:E2; [|discriminate].
  apply list_eqb_eq in E1. apply list_eqb_eq in E2. subst eq1 eq2. intros _.
  cbn [join63] in J. subst w. unfold ew_token. apply andb_true_intro. split; [reflexivity|].
  assert (E : forall a b c : bytes, [61] ++ 63 :: a ++ 63 :: b ++ 63 :: c ++ 63 :: [61] = (61 :: 63 :: a ++ 63 :: b ++ 63 :: c) ++ [63; 61]).
  { intros a b c. do 4 (cbn [app]; rewrite <- ?app_assoc). reflexivity. }
  rewrite E. apply ends_with_qe_app.
Qed.

(* the encoder's look-alike test, on a text cut at a white-space character *)
Lemma ew_tokens_go_word w : forall cur r, wordb w = true -> ew_tokens_go (w ++ r) cur = ew_tokens_go r (rev w ++ cur).
Proof.
  induction w as [|b w IH]; intros cur r H; [reflexivity|]. cbn in H. apply andb_prop in H. destruct H as [Hb Hw].
  apply negb_true_iff in Hb. unfold is_wsp in Hb. cbn [app ew_tokens_go]. rewrite Hb. rewrite IH by exact Hw. cbn [rev]. rewrite <- app_assoc. reflexivity.
Qed.
Lemma contains_word_only w : wordb w = true -> contains_eq_q w = ew_token w.
Proof.
  intros H. unfold contains_eq_q. rewrite <- (app_nil_r w) at 1. rewrite ew_tokens_go_word by exact H. cbn. rewrite app_nil_r, frev_rev, rev_involutive. reflexivity.
Qed.
Lemma contains_word_cons w b r : wordb w = true -> is_wsp b = true ->
  contains_eq_q (w ++ b :: r) = ew_token w || contains_eq_q r.
Proof.
  intros H Hb. unfold contains_eq_q. rewrite ew_tokens_go_word by exact H. cbn [ew_tokens_go]. unfold is_wsp in Hb. rewrite Hb.
  rewrite app_nil_r, frev_rev, rev_involutive. reflexivity.
Qed.

(* a text without look-alikes is read as itself when no encoded-word precedes it *)
Lemma D_plain_n n : forall t R, (length t <= n)%nat -> contains_eq_q t = false -> bnd R = true ->
  D false (t ++ R) = t ++ D false R.
Proof.
  induction n as [|n IH]; intros t R Hl Hc HR.
  - destruct t; [reflexivity|cbn in Hl; lia].
  - destruct t as [|b t']; [reflexivity|]. destruct (is_wsp b) eqn:Eb.
    + change ((b :: t') ++ R) with ([b] ++ (t' ++ R)). rewrite D_false_ws by (cbn; rewrite Eb; reflexivity).
      cbn [app]. f_equal. apply IH; [cbn in Hl; lia| |exact HR].
      change (b :: t') with ([] ++ b :: t') in Hc. rewrite contains_word_cons in Hc by (auto). apply orb_false_iff in Hc. apply Hc.
    + destruct (wordb_bnd_split (b :: t')) as (w & r & E & Hw & Hr).
      assert (Hwne : w <> []). { intros ->. cbn in E. subst r. cbn in Hr. rewrite Eb in Hr. discriminate. }
      rewrite E, <- !app_assoc.
      assert (Hlen : (length w + length r = S (length t'))%nat) by (rewrite <- app_length, <- E; reflexivity).
      assert (Hnd : decode_word w = None /\ contains_eq_q r = false).
      { rewrite E in Hc. destruct r as [|c r'].
        - rewrite app_nil_r in Hc. rewrite contains_word_only in Hc by exact Hw. split; [|reflexivity].
          destruct (decode_word w) eqn:Ed; [|reflexivity]. apply decode_word_is_token in Ed. congruence.
        - cbn in Hr. rewrite contains_word_cons in Hc by assumption. apply orb_false_iff in Hc. destruct Hc as [A B].
          split.
          + destruct (decode_word w) eqn:Ed; [|reflexivity]. apply decode_word_is_token in Ed. congruence.
          + change (c :: r') with ([] ++ c :: r'). rewrite contains_word_cons by auto. cbn. exact B. }
      destruct Hnd as [Hd Hcr].
      rewrite D_word; [|exact Hwne|exact Hw|].
      * rewrite Hd. f_equal. apply IH; [|exact Hcr|exact HR]. destruct w; [contradiction|]. cbn in Hlen. cbn in Hl. lia.
      * destruct r as [|c r']; [cbn; exact HR|exact Hr].
Qed.
Lemma D_plain t R : contains_eq_q t = false -> bnd R = true -> D false (t ++ R) = t ++ D false R.
Proof. apply (D_plain_n (length t)). lia. Qed.

(* ... and also after an encoded-word, when the text holds a word *)
Lemma D_any_plain pe ws0 t R : wsrun ws0 = true -> contains_eq_q t = false -> wsrun t = false -> bnd R = true ->
  D pe (ws0 ++ t ++ R) = ws0 ++ t ++ D false R.
Proof.
  intros H0 Hc Hnb HR.
  destruct (wsrun_nbnd_split t) as (ws & r & -> & Hws & Hr).
  destruct r as [|c r'].
  - rewrite app_nil_r in Hnb. congruence.
  - destruct (wordb_bnd_split (c :: r')) as (w & r2 & E & Hw & Hr2).
    assert (Hwne : w <> []). { intros ->. cbn in E. subst r2. cbn in Hr, Hr2. rewrite Hr2 in Hr. discriminate. }
    rewrite E in *.
    assert (Hnd : decode_word w = None /\ contains_eq_q r2 = false).
    { assert (Hc2 : contains_eq_q (w ++ r2) = false).
      { clear -Hc Hws. induction ws as [|b ws IHw]; [exact Hc|]. cbn in Hws. apply andb_prop in Hws. destruct Hws as [Hb Hws].
        apply IHw; [|exact Hws]. change ((b :: ws) ++ w ++ r2) with ([] ++ b :: (ws ++ w ++ r2)) in Hc.
        rewrite contains_word_cons in Hc by auto. apply orb_false_iff in Hc. apply Hc. }
      destruct r2 as [|c2 r2'].
      - rewrite app_nil_r in Hc2. rewrite contains_word_only in Hc2 by exact Hw. split; [|reflexivity].
        destruct (decode_word w) eqn:Ed; [|reflexivity]. apply decode_word_is_token in Ed. congruence.
      - cbn in Hr2. rewrite contains_word_cons in Hc2 by assumption. apply orb_false_iff in Hc2. destruct Hc2 as [A B].
        split.
        + destruct (decode_word w) eqn:Ed; [|reflexivity]. apply decode_word_is_token in Ed. congruence.
        + change (c2 :: r2') with ([] ++ c2 :: r2'). rewrite contains_word_cons by auto. cbn. exact B. }
    destruct Hnd as [Hd Hcr].
    assert (HbR : bnd (r2 ++ R) = true) by (destruct r2; [exact HR|exact Hr2]).
    replace (ws0 ++ (ws ++ w ++ r2) ++ R) with ((ws0 ++ ws) ++ w ++ (r2 ++ R)) by (rewrite <- !app_assoc; reflexivity).
    destruct (ws0 ++ ws) as [|x xs] eqn:Ex.
    + apply app_eq_nil in Ex. destruct Ex as [-> ->]. cbn [app].
      rewrite D_word by assumption. rewrite Hd. rewrite D_plain by assumption. rewrite <- !app_assoc. reflexivity.
    + rewrite <- Ex. rewrite D_ws_word; [|rewrite Ex; discriminate|rewrite wsrun_app, H0, Hws; reflexivity|exact Hwne|exact Hw|exact HbR].
      unfold is_enc. rewrite Hd. rewrite andb_false_r. rewrite D_word by assumption. rewrite Hd. rewrite D_plain by assumption.
      rewrite <- !app_assoc. reflexivity.
Qed.
