(* Authentication: negotiation, what is written, termination bound. *)
From Coq Require Import Strings.String.
From LV Require Import Base.Bytes Base.Str Base.Utf8 Base.Res Base.Base64
  Model.Codec Model.Response Model.ServerInfo Model.Auth Model.Client Proofs.ClientProofs.

Lemma get_auth_first i ms m :
  get_auth_mechanism i ms = Some m <->
  exists pre post, ms = pre ++ m :: post /\ supports_mech i m = true /\
                   Forall (fun x => supports_mech i x = false) pre.
Proof.
  split.
  - revert m; induction ms as [|x ms IH]; intros m H; [discriminate|]. cbn in H.
    destruct (supports_mech i x) eqn:E.
    + inversion H; subst. exists [], ms. auto.
    + destruct (IH _ H) as (pre & post & -> & S & F). exists (x :: pre), post. auto.
  - intros (pre & post & -> & S & F). induction pre as [|x pre IH]; cbn.
    + now rewrite S.
    + inversion F; subst. rewrite H1. auto.
Qed.

Lemma get_auth_none i ms :
  get_auth_mechanism i ms = None <-> Forall (fun x => supports_mech i x = false) ms.
Proof.
  induction ms as [|x ms IH]; cbn; [split; auto|].
  destruct (supports_mech i x) eqn:E.
  - split; [discriminate|]. intros F; inversion F; congruence.
  - rewrite IH. split; [auto|]. intros F; inversion F; auto.
Qed.

(* a challenge is only ever answered by LOGIN, and only with the user name or the password *)
Lemma auth_from_response_shape m u p r line :
  auth_from_response m u p r = Ok line ->
  m = Login /\ (line = b64enc u ++ CRLF \/ line = b64enc p ++ CRLF).
Proof.
  unfold auth_from_response. destruct (negb (has_code r 334)); [discriminate|].
  destruct (first_word r) as [w|]; [|discriminate].
  destruct (b64dec w) as [d|]; [|discriminate].
  destruct (negb (utf8_valid d)); [discriminate|].
  destruct m; cbn [mech_response supports_initial_response]; try discriminate.
  destruct (contains_ic d user_prompts).
  - intros H; inversion H; split; [reflexivity | left; reflexivity].
  - destruct (contains_ic d pass_prompts); [|discriminate].
    intros H; inversion H; split; [reflexivity | right; reflexivity].
Qed.

Definition cred_unit (u p : bytes) (x : unit_ev) : Prop :=
  x = ULine (b64enc u ++ CRLF) \/ x = ULine (b64enc p ++ CRLF).

(* the challenge loop writes at most `n` credential answers, then possibly QUIT *)
Lemma auth_loop_units n : forall m u p r s, shut s = false -> panic s = false ->
  exists us tail, new_units s (snd (auth_loop n m u p r s)) (us ++ tail) /\
    Forall (cred_unit u p) us /\ (length us <= n)%nat /\ (tail = [] \/ tail = [ULine QUIT]) /\
    (us <> [] -> m = Login) /\
    match fst (auth_loop n m u p r s) with
    | Ok r' => tail = [] /\ has_code r' 334 = false /\ shut (snd (auth_loop n m u p r s)) = false
    | Err _ => True
    | Panic => False
    end.
Proof.
  induction n as [|n IH]; intros m u p r s Hs Hp; cbn [auth_loop].
  - exists [], []. cbn [fst snd app length]. repeat split; auto; try (intros H; exfalso; apply H; reflexivity); try apply new_units_refl; try lia.
  - destruct (has_code r 334) eqn:H334.
    2:{ exists [], []. cbn [fst snd app length]. repeat split; auto; try (intros H; exfalso; apply H; reflexivity); try apply new_units_refl; try lia. }
    destruct (auth_from_response m u p r) as [line|e|] eqn:EA.
    3:{ (* Panic impossible: auth_from_response never panics *)
        exfalso. unfold auth_from_response in EA. rewrite H334 in EA. cbn [negb] in EA.
        destruct (first_word r); [|discriminate]. destruct (b64dec b); [|discriminate].
        destruct (negb (utf8_valid b0)); [discriminate|].
        destruct m; cbn [mech_response supports_initial_response] in EA; try discriminate.
        destruct (contains_ic b0 user_prompts); [discriminate|].
        destruct (contains_ic b0 pass_prompts); discriminate. }
    2:{ exists [], []. cbn [fst snd app length]. repeat split; auto; try (intros H; exfalso; apply H; reflexivity); try apply new_units_refl; try lia. }
    destruct (auth_from_response_shape _ _ _ _ _ EA) as [-> Hline0].
    assert (Hline : cred_unit u p (ULine line)).
    { destruct Hline0 as [-> | ->]; [left | right]; reflexivity. }
    pose proof (try_command line s Hs Hp) as T.
    destruct (try_smtp (command line s)) as [[r1|e|] s1]; cbn [step_post] in T; [| |contradiction].
    + destruct T as (N & S1 & P1 & I1 & _).
      destruct (IH Login u p r1 s1 S1 P1) as (us & tail & N2 & F & L & Ht & Hm & Hres).
      exists (ULine line :: us), tail.
      split. { change ((ULine line :: us) ++ tail) with ([ULine line] ++ (us ++ tail)).
               exact (new_units_trans _ _ _ _ _ N N2). }
      split. { constructor; [exact Hline | exact F]. }
      split. { cbn. lia. }
      split. { exact Ht. }
      split. { intros _. reflexivity. }
      exact Hres.
    + destruct T as (N & S1 & P1 & I1 & V).
      exists [ULine line], [ULine QUIT]. cbn [fst snd].
      split. { exact N. }
      split. { constructor; [exact Hline | constructor]. }
      split. { cbn. lia. }
      split. { right; reflexivity. }
      split. { intros _. reflexivity. }
      exact I.
Qed.

Lemma auth_initial_ok m u p : exists init, auth_initial m u p = Ok init /\
  init = match m with
         | Plain => bs "AUTH PLAIN " ++ b64enc (0 :: u ++ 0 :: p) ++ CRLF
         | Login => bs "AUTH LOGIN" ++ CRLF
         | Xoauth2 => bs "AUTH XOAUTH2 " ++ b64enc (bs "user=" ++ u ++ [1] ++ bs "auth=Bearer " ++ p ++ [1; 1]) ++ CRLF
         end.
Proof. destruct m; eexists; split; reflexivity. Qed.

Theorem auth_units ms u p s : shut s = false -> panic s = false ->
  match get_auth_mechanism (info s) ms with
  | None => auth ms u p s = (Err (e_client "No compatible authentication mechanism was found"), s)
  | Some m =>
    exists init us tail,
      auth_initial m u p = Ok init /\
      new_units s (snd (auth ms u p s)) (ULine init :: us ++ tail) /\
      Forall (cred_unit u p) us /\ (length us <= 10)%nat /\
      (tail = [] \/ tail = [ULine QUIT]) /\ (us <> [] -> m = Login) /\
      fst (auth ms u p s) <> Panic
  end.
Proof.
  intros Hs Hp. unfold auth. destruct (get_auth_mechanism (info s) ms) as [m|]; [|reflexivity].
  destruct (auth_initial_ok m u p) as (init & Hi & _). rewrite Hi.
  pose proof (command_units init s) as U. cbn zeta in U. rewrite Hs in U.
  pose proof (command_verdict init s Hs) as V.
  destruct (command init s) as [[r|e|] s1]; cbn [fst snd] in *.
  - destruct U as (U1 & U2 & U3 & U4).
    assert (S1 : shut s1 = false) by congruence. assert (P1 : panic s1 = false) by congruence.
    destruct (auth_loop_units 10 m u p r s1 S1 P1) as (us & tail & N2 & F & L & Ht & Hm & Hres).
    exists init, us, tail. repeat split; auto.
    + change (ULine init :: us ++ tail) with ([ULine init] ++ (us ++ tail)).
      exact (new_units_trans _ _ _ _ _ U4 N2).
    + intros HP. rewrite HP in Hres. exact Hres.
  - destruct U as (U1 & U2 & U3 & U4).
    exists init, [], []. repeat split; auto; try discriminate;
      try (intros H; exfalso; apply H; reflexivity); try (cbn; lia).
  - contradiction.
Qed.
