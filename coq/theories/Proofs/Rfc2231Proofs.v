(* C12, file names: the Content-Disposition field that ContentDisposition::attachment / inline_with_name writes is
   read by an RFC 2183 / RFC 2231 reader (Spec/Rfc2231.v: parameters split at ';' outside quoted strings,
   continuations filename*0, filename*1, ..., extended values charset'lang'percent-encoded) as exactly the
   disposition type and the file name - all three forms of rfc2231::encode. *)
From Coq Require Import Strings.String.
From LV Require Import Base.Bytes Base.Str Base.Utf8 Base.Res Base.Base64 Model.HeaderEnc Spec.Rfc5322 Spec.Rfc2047 Spec.Rfc2231
  Proofs.HeaderProofs Proofs.HeaderPlainProofs Proofs.Rfc2047DecProofs Proofs.HeaderRtProofs Proofs.PhraseProofs.
From Coq Require Import Lia Arith PeanoNat ZArith ZifyBool ZifyNat ZifyN.
Local Arguments N.eqb : simpl never.
Local Arguments N.leb : simpl never.
Local Arguments N.ltb : simpl never.
Local Arguments Nat.div : simpl never.
Local Arguments Nat.modulo : simpl never.
Local Arguments Nat.mul : simpl never.
Local Arguments Nat.sub : simpl never.
Local Arguments Nat.ltb : simpl never.
Ltac Zify.zify_post_hook ::= Z.div_mod_to_equations.

(* ---------- section numbers: dec and its reader ---------- *)
Definition dstep (a : nat) (d : N) : nat := (a * 10 + N.to_nat (d - 48))%nat.

Lemma dec_go_spec f : forall n acc, (n < f)%nat ->
  exists ds, dec_go f n acc = ds ++ acc /\ ds <> [] /\ forallb is_digit ds = true /\ fold_left dstep ds 0%nat = n /\
    ((n < 10)%nat -> length ds = 1%nat) /\ ((n < 100)%nat -> (length ds <= 2)%nat) /\ ((n < 1000)%nat -> (length ds <= 3)%nat) /\
    ((n < 10 * 1000)%nat -> (length ds <= 4)%nat) /\ ((n < 100 * 1000)%nat -> (length ds <= 5)%nat).
Proof.
  induction f as [|f IH]; intros n acc Hf; [lia|]. cbn [dec_go]. destruct (Nat.ltb n 10) eqn:E.
  - apply Nat.ltb_lt in E. exists [N.of_nat (n mod 10) + 48]. split; [reflexivity|]. split; [discriminate|].
    split; [cbn; unfold is_digit; rewrite andb_true_r; lia|]. split; [cbn; unfold dstep; lia|]. cbn. lia.
  - apply Nat.ltb_ge in E. destruct (IH (n / 10)%nat (N.of_nat (n mod 10) + 48 :: acc)) as (ds & A & B & C & D & L1 & L2 & L3 & L4 & L5); [lia|].
    exists (ds ++ [N.of_nat (n mod 10) + 48]). split; [rewrite A, <- app_assoc; reflexivity|]. split; [destruct ds; discriminate|].
    split; [rewrite forallb_app, C; cbn; unfold is_digit; rewrite andb_true_r; lia|].
    split; [rewrite fold_left_app, D; cbn; unfold dstep; lia|]. rewrite app_length. cbn [length].
    split; [lia|]. split; [intros H; assert (n / 10 < 10)%nat by lia; lia|]. split; [intros H; assert (n / 10 < 100)%nat by lia; lia|].
    split; intros H; [assert (n / 10 < 1000)%nat by lia|assert (n / 10 < 10 * 1000)%nat by lia]; lia.
Qed.

Lemma dec_spec n : dec n <> [] /\ forallb is_digit (dec n) = true /\ dec_n (dec n) = Some n /\ ((n < 100 * 1000)%nat -> (length (dec n) <= 5)%nat).
Proof.
  unfold dec. destruct (dec_go_spec (S n) n [] ltac:(lia)) as (ds & A & B & C & D & _ & _ & _ & _ & L3). rewrite app_nil_r in A. rewrite A.
  split; [exact B|]. split; [exact C|]. split; [|exact L3]. unfold dec_n. destruct ds; [contradiction|]. rewrite C. f_equal. exact D.
Qed.

(* ---------- the reader, piece by piece ---------- *)
Definition no_special (p : bytes) : bool := forallb (fun b => negb ((b =? 34) || (b =? 59) || (b =? 92))) p.

Lemma split_params_plain p : forall r cur, no_special p = true ->
  split_params (p ++ r) cur false false = split_params r (rev p ++ cur) false false.
Proof.
  induction p as [|b p IH]; intros r cur H; [reflexivity|]. cbn in H. apply andb_prop in H. destruct H as [Hb Hp].
  apply negb_true_iff in Hb. apply orb_false_iff in Hb. destruct Hb as [Hb H92]. apply orb_false_iff in Hb. destruct Hb as [H34 H59].
  cbn [app split_params]. rewrite H34, H59. cbn [andb negb]. rewrite IH by exact Hp. cbn [rev]. rewrite <- app_assoc. reflexivity.
Qed.
Lemma split_params_in_quotes v : forall r cur,
  split_params (escape_bytes v ++ 34 :: r) cur true false = split_params r (34 :: rev (escape_bytes v) ++ cur) false false.
Proof.
  induction v as [|b v IH]; intros r cur; [reflexivity|]. unfold escape_bytes. cbn [flat_map]. fold (escape_bytes v).
  destruct (b =? 92) eqn:E1.
  - cbn [app split_params]. change (92 =? 92) with true. cbn [andb]. rewrite IH. cbn [rev app]. rewrite <- !app_assoc. reflexivity.
  - destruct (b =? 34) eqn:E2.
    + cbn [app split_params]. change (92 =? 92) with true. cbn [andb]. rewrite IH. cbn [rev app]. rewrite <- !app_assoc. reflexivity.
    + cbn [app split_params]. rewrite E1, E2. cbn [andb negb]. rewrite IH. cbn [rev app]. rewrite <- !app_assoc. reflexivity.
Qed.
Lemma split_params_quoted v r cur :
  split_params (34 :: escape_bytes v ++ 34 :: r) cur false false = split_params r (34 :: rev (escape_bytes v) ++ 34 :: cur) false false.
Proof. cbn [split_params]. change (34 =? 34) with true. cbn [andb negb]. apply split_params_in_quotes. Qed.
Lemma split_params_semi r cur : split_params (59 :: r) cur false false = frev cur :: split_params r [] false false.
Proof. reflexivity. Qed.

(* trim of a text that begins (after at most one SP) and ends with a character that is not white space *)
Lemma trim_l_id l : is_wsp (hd 0 l) = false -> trim_l l = l.
Proof. destruct l as [|b r]; [reflexivity|]. cbn. intros ->. reflexivity. Qed.
Lemma trim_inner l : is_wsp (hd 0 l) = false -> is_wsp (hd 0 (rev l)) = false -> trim l = l.
Proof.
  intros H1 H2. unfold trim. rewrite (trim_l_id l H1). rewrite !frev_rev. rewrite (trim_l_id (rev l) H2). apply rev_involutive.
Qed.
Lemma trim_sp l : is_wsp (hd 0 l) = false -> is_wsp (hd 0 (rev l)) = false -> trim (SP :: l) = l.
Proof.
  intros H1 H2. unfold trim. cbn [trim_l]. change (is_wsp SP) with true. cbn iota. rewrite (trim_l_id l H1). rewrite !frev_rev.
  rewrite (trim_l_id (rev l) H2). apply rev_involutive.
Qed.

Lemma split_eq_name n v : forallb (fun b => negb (b =? 61)) n = true -> split_eq (n ++ 61 :: v) = Some (n, v).
Proof.
  induction n as [|b n IH]; intros H; [reflexivity|]. cbn in H. apply andb_prop in H. destruct H as [Hb Hn]. apply negb_true_iff in Hb.
  cbn [app split_eq]. rewrite Hb, (IH Hn). reflexivity.
Qed.

Lemma list_eqb_len a : forall b, list_eqb a b = true -> length a = length b.
Proof. intros b H. apply list_eqb_eq in H. subst. reflexivity. Qed.

Definition KEY : bytes := bs "filename".

Lemma seg_plain : seg_of KEY KEY = Some (0%nat, false).
Proof. reflexivity. Qed.

Lemma starts_with_app p r : starts_with p (p ++ r) = true.
Proof. induction p as [|x p IH]; [reflexivity|]. cbn. rewrite N.eqb_refl, IH. reflexivity. Qed.

Lemma seg_cont i : seg_of KEY (KEY ++ 42 :: dec i) = Some (i, false).
Proof.
  destruct (dec_spec i) as (Hne & Hd & Hn & _). unfold seg_of.
  assert (E : eq_ignore_case (KEY ++ 42 :: dec i) KEY = false).
  { destruct (eq_ignore_case (KEY ++ 42 :: dec i) KEY) eqn:E; [|reflexivity]. unfold eq_ignore_case in E. apply list_eqb_len in E.
    rewrite !map_length, app_length in E. cbn [length] in E. lia. }
  rewrite E. change (KEY ++ 42 :: dec i) with ((KEY ++ [42]) ++ dec i) at 1. rewrite starts_with_app.
  replace (skipn (length KEY + 1) (KEY ++ 42 :: dec i)) with (dec i)
    by (change (KEY ++ 42 :: dec i) with ((KEY ++ [42]) ++ dec i); rewrite skipn_app; change (length KEY + 1)%nat with (length (KEY ++ [42])); rewrite skipn_all, Nat.sub_diag; reflexivity).
  destruct (dec i) as [|d ds] eqn:Ed; [contradiction|].
  assert (Hl : match frev (d :: ds) with 42 :: _ => true | _ => false end = false).
  { rewrite frev_rev. destruct (rev (d :: ds)) as [|x xs] eqn:Er; [reflexivity|].
    assert (In x (d :: ds)) by (apply in_rev; rewrite Er; left; reflexivity).
    pose proof (proj1 (forallb_forall _ _) Hd x H) as Dx. unfold is_digit in Dx. destruct (x =? 42) eqn:Ex; [lia|].
    destruct x as [|px]; [reflexivity|]. destruct (N.pos px =? 42) eqn:E2; [discriminate|].
    (* the match is on the numeral 42 *) clear -E2. apply N.eqb_neq in E2. destruct px as [p|p|]; try reflexivity;
    destruct p as [p|p|]; try reflexivity; destruct p as [p|p|]; try reflexivity; destruct p as [p|p|]; try reflexivity;
    destruct p as [p|p|]; try reflexivity; destruct p as [p|p|]; try reflexivity. contradiction. }
  rewrite Hl. rewrite Hn. reflexivity.
Qed.

Lemma seg_ext i : seg_of KEY (KEY ++ 42 :: dec i ++ [42]) = Some (i, true).
Proof.
  destruct (dec_spec i) as (Hne & Hd & Hn & _). unfold seg_of.
  assert (E : eq_ignore_case (KEY ++ 42 :: dec i ++ [42]) KEY = false).
  { destruct (eq_ignore_case (KEY ++ 42 :: dec i ++ [42]) KEY) eqn:E; [|reflexivity]. unfold eq_ignore_case in E. apply list_eqb_len in E.
    rewrite !map_length, app_length in E. cbn [length] in E. lia. }
  rewrite E. change (KEY ++ 42 :: dec i ++ [42]) with ((KEY ++ [42]) ++ dec i ++ [42]) at 1. rewrite starts_with_app.
  replace (skipn (length KEY + 1) (KEY ++ 42 :: dec i ++ [42])) with (dec i ++ [42])
    by (change (KEY ++ 42 :: dec i ++ [42]) with ((KEY ++ [42]) ++ dec i ++ [42]); rewrite skipn_app; change (length KEY + 1)%nat with (length (KEY ++ [42])); rewrite skipn_all, Nat.sub_diag; reflexivity).
  destruct (dec i ++ [42]) as [|d ds] eqn:Ed; [destruct (dec i); discriminate|]. rewrite <- Ed.
  rewrite frev_rev, rev_app_distr. cbn [rev app]. rewrite removelast_last. rewrite Hn. reflexivity.
Qed.

(* percent encoding *)
Definition pct_text_b (b : N) : bytes := if is_alnum_plus b then [b] else [37; hexd (b / 16); hexd (b mod 16)].
Definition pct_text (s : bytes) : bytes := flat_map pct_text_b s.

Lemma hexv_hexd v : v < 16 -> hexv (hexd v) = Some v.
Proof.
  intros H. unfold hexd, hexv, is_digit. destruct (v <? 10) eqn:E.
  - replace ((48 <=? v + 48) && (v + 48 <=? 57)) with true by lia. f_equal. lia.
  - replace ((48 <=? v - 10 + 65) && (v - 10 + 65 <=? 57)) with false by lia. replace ((65 <=? v - 10 + 65) && (v - 10 + 65 <=? 70)) with true by lia. f_equal. lia.
Qed.
Lemma alnum_plus_not_pct b : is_alnum_plus b = true -> (b =? 37) = false.
Proof. unfold is_alnum_plus, is_alnum_ascii, is_alpha, is_upper, is_lower, is_digit. lia. Qed.

Lemma pct_decode_text s : bytes_ok s = true -> forall r, pct_decode (pct_text s ++ r) = option_map (app s) (pct_decode r).
Proof.
  induction s as [|b s IH]; intros Hb r; [cbn; destruct (pct_decode r); reflexivity|]. cbn in Hb. apply andb_prop in Hb. destruct Hb as [Hb Hs].
  unfold pct_text. cbn [flat_map]. fold (pct_text s). unfold pct_text_b. destruct (is_alnum_plus b) eqn:E.
  - cbn [app pct_decode]. rewrite (alnum_plus_not_pct b E). rewrite (IH Hs). destruct (pct_decode r); reflexivity.
  - cbn [app pct_decode]. change (37 =? 37) with true. cbn iota. unfold byte_ok in Hb.
    rewrite !hexv_hexd by lia. rewrite (IH Hs). destruct (pct_decode r); cbn [option_map app]; [|reflexivity]. f_equal. f_equal. lia.
Qed.

(* ---------- the plain writer ---------- *)
Lemma w_write_escaped_sem s : forall st acc,
  exists st' o, fold_left (fun '(st0, o) b =>
               let '(st1, o1) :=
                 if b =? 92 then w_write_str [92; 92] st0
                 else if b =? 34 then w_write_str [92; 34] st0
                 else w_write_char [b] st0 in
               (st1, o ++ o1)) s (st, acc) = (st', acc ++ o) /\
    o ++ sp_run (spaces st') = sp_run (spaces st) ++ escape_bytes s.
Proof.
  induction s as [|b s IH]; intros st acc.
  - exists st, []. cbn. rewrite !app_nil_r. split; reflexivity.
  - cbn [fold_left]. cbv beta iota.
    assert (Hstep : exists s1 o1, (if b =? 92 then w_write_str [92; 92] st else if b =? 34 then w_write_str [92; 34] st else w_write_char [b] st) = (s1, o1) /\
              o1 ++ sp_run (spaces s1) = sp_run (spaces st) ++ (if b =? 92 then [92; 92] else if b =? 34 then [92; 34] else [b])).
    { destruct (b =? 92) eqn:E1.
      - pose proof (w_write_str_last [92] 92 st eq_refl) as W. cbn [app] in W. rewrite W. eexists _, _. split; [reflexivity|]. cbn [spaces sp_run repeat app]. rewrite app_nil_r. reflexivity.
      - destruct (b =? 34) eqn:E2.
        + pose proof (w_write_str_last [92] 34 st eq_refl) as W. cbn [app] in W. rewrite W. eexists _, _. split; [reflexivity|]. cbn [spaces sp_run repeat app]. rewrite app_nil_r. reflexivity.
        + unfold w_write_char. destruct (list_eqb [b] [SP]) eqn:E3.
          * cbn in E3. rewrite andb_true_r in E3. apply N.eqb_eq in E3. subst b. eexists _, _. split; [reflexivity|]. cbn [w_space spaces app]. rewrite sp_run_snoc. reflexivity.
          * eexists _, _. split; [reflexivity|]. cbn [spaces sp_run repeat app]. rewrite app_nil_r. reflexivity. }
    destruct Hstep as (s1 & o1 & E & Q). rewrite E.
    destruct (IH s1 (acc ++ o1)) as (st' & o & E2 & Q2). exists st', (o1 ++ o). split; [rewrite E2, <- app_assoc; reflexivity|].
    rewrite <- app_assoc, Q2, app_assoc, Q, <- app_assoc. unfold escape_bytes. cbn [flat_map]. reflexivity.
Qed.

Lemma w_write_escaped_out s st : exists st' o, w_write_escaped s st = (st', o) /\ o ++ sp_run (spaces st') = sp_run (spaces st) ++ escape_bytes s.
Proof.
  unfold w_write_escaped. destruct (w_write_escaped_sem s st []) as (st' & o & E & Q). exists st', o. split; [exact E|exact Q].
Qed.

(* ---------- the texts of the parameters ---------- *)
Definition pB (i : nat) (c : bytes) : bytes := SP :: (KEY ++ 42 :: dec i) ++ 61 :: 34 :: escape_bytes c ++ [34].
Definition pre0 (i : nat) : bytes := match i with O => bs "utf-8''" | _ => [] end.
Definition pC (i : nat) (T : bytes) : bytes := SP :: (KEY ++ 42 :: dec i ++ [42]) ++ 61 :: pre0 i ++ T.
Fixpoint pBs (i : nat) (cs : list bytes) : list bytes := match cs with [] => [] | c :: r => pB i c :: pBs (S i) r end.
Fixpoint pCs (i : nat) (Ts : list bytes) : list bytes := match Ts with [] => [] | T :: r => pC i T :: pCs (S i) r end.
Fixpoint joinp (ps : list bytes) : bytes := match ps with [] => [] | [p] => p | p :: r => p ++ 59 :: joinp r end.

Definition enc_of (T s : bytes) : Prop := forall r, pct_decode (T ++ r) = option_map (app s) (pct_decode r).
Definition pct_safe (c : N) : bool := is_alnum_plus c || (c =? 37).

Lemma enc_of_nil : enc_of [] [].
Proof. intros r. cbn. destruct (pct_decode r); reflexivity. Qed.
Lemma enc_of_app T1 s1 T2 s2 : enc_of T1 s1 -> enc_of T2 s2 -> enc_of (T1 ++ T2) (s1 ++ s2).
Proof. intros H1 H2 r. rewrite <- app_assoc, H1, H2. destruct (pct_decode r); cbn; [rewrite <- app_assoc|]; reflexivity. Qed.
Lemma enc_of_byte b : byte_ok b = true -> enc_of [37; hexd (b / 16); hexd (b mod 16)] [b].
Proof.
  intros Hb r. cbn [app pct_decode]. change (37 =? 37) with true. cbn iota. unfold byte_ok in Hb. rewrite !hexv_hexd by lia.
  destruct (pct_decode r); cbn [option_map app]; [|reflexivity]. f_equal. f_equal. lia.
Qed.
Lemma enc_of_plain b : is_alnum_plus b = true -> enc_of [b] [b].
Proof. intros H r. cbn [app pct_decode]. rewrite (alnum_plus_not_pct b H). destruct (pct_decode r); reflexivity. Qed.
Lemma hexd_safe v : v < 16 -> pct_safe (hexd v) = true.
Proof. intros H. unfold pct_safe, hexd, is_alnum_plus, is_alnum_ascii, is_alpha, is_upper, is_lower, is_digit. destruct (v <? 10) eqn:E; lia. Qed.

(* ---------- reads_as across the line breaks the encoder inserts ---------- *)
Lemma reads_as_fold a o' e : nocr a = true -> reads_as (SP :: o') e -> reads_as (a ++ CRLF ++ SP :: o') (a ++ e).
Proof.
  intros Ha H Y. rewrite <- !app_assoc. rewrite unfold_nocr by exact Ha. f_equal. cbn [CRLF app]. rewrite unfold_fold. apply (H Y).
Qed.

Lemma printable_nocr s : forallb is_printable_b s = true -> nocr s = true.
Proof. apply forallb_impl. intros x H. unfold is_printable_b in H. apply negb_true_iff. unfold CR. lia. Qed.
Lemma printable_ok s : forallb is_printable_b s = true -> bytes_ok s = true.
Proof. apply forallb_impl. intros x H. unfold is_printable_b, byte_ok in *. lia. Qed.
Lemma printable_app a b : forallb is_printable_b (a ++ b) = forallb is_printable_b a && forallb is_printable_b b.
Proof. apply forallb_app. Qed.

Lemma trunc_go_printable value : forall m, forallb is_printable_b value = true -> (m <= length value)%nat -> trunc_go value m = firstn m value.
Proof.
  induction m as [|m IH]; intros Hp Hm; [reflexivity|]. cbn [trunc_go].
  assert (B : is_boundary value (S m) = true).
  { unfold is_boundary. destruct (skipn (S m) value) as [|b t] eqn:E.
    - apply Nat.eqb_eq. pose proof (skipn_length (S m) value) as L. rewrite E in L. cbn [length] in L. lia.
    - assert (In b value) by (rewrite <- (firstn_skipn (S m) value), E; apply in_or_app; right; left; reflexivity).
      pose proof (proj1 (forallb_forall _ _) Hp b H) as Pb. unfold is_printable_b in Pb. unfold is_cont. lia. }
  rewrite B. reflexivity.
Qed.

Lemma escape_nocr_p s : forallb is_printable_b s = true -> nocr (escape_bytes s) = true.
Proof. intros H. apply escape_nocr. apply printable_nocr. exact H. Qed.

Lemma dec_nocr i : nocr (dec i) = true.
Proof.
  destruct (dec_spec i) as (_ & Hd & _). apply (forallb_impl is_digit); [|exact Hd]. intros x H. unfold is_digit in H. apply negb_true_iff. unfold CR. lia.
Qed.

(* ---------- form B: printable value in quoted continuations ---------- *)
Lemma plain_go_sem fuel : forall value i st, line_len st = 0%nat -> spaces st = 0%nat -> value <> [] ->
  forallb is_printable_b value = true -> (i + length value < 100 * 1000)%nat -> (length value < fuel)%nat ->
  exists cs st' o, rfc2231_plain_go fuel KEY value i st = Ok (st', o) /\ spaces st' = 0%nat /\ cs <> [] /\ concat cs = value /\
    reads_as o (joinp (pBs i cs)) /\ exists o', o = SP :: o'.
Proof.
  induction fuel as [|f IH]; intros value i st Hl Hs Hne Hp Hi Hf; [lia|]. cbn [rfc2231_plain_go].
  destruct (dec_spec i) as (Dne & Dd & _ & D3). specialize (D3 ltac:(lia)).
  replace ([32] ++ KEY ++ [42] ++ dec i ++ bs "=""") with (([32] ++ KEY ++ [42] ++ dec i ++ [61]) ++ [34])
    by (cbn [bs app]; rewrite <- !app_assoc; cbn [app]; rewrite <- !app_assoc; reflexivity).
  rewrite w_write_str_last by reflexivity. rewrite Hl, Hs. change (sp_run 0) with (@nil N). rewrite app_nil_l. cbn [Nat.add line_len].
  set (L := length (([32] ++ KEY ++ [42] ++ dec i ++ [61]) ++ [34])).
  assert (HL : (L = 12 + length (dec i))%nat).
  { unfold L. rewrite !app_length. change (length KEY) with 8%nat. cbn [length]. lia. }
  replace (Nat.ltb MAX_LINE_LEN (L + 3)) with false by (symmetry; apply Nat.ltb_ge; unfold MAX_LINE_LEN; lia).
  set (remaining := (MAX_LINE_LEN - L - 3)%nat). assert (HR : (56 <= remaining)%nat) by (unfold remaining, MAX_LINE_LEN; lia).
  set (m := length (firstn remaining value)). assert (Hm : (m <= length value)%nat) by (unfold m; rewrite firstn_length; lia).
  assert (Hm1 : (1 <= m)%nat). { unfold m. rewrite firstn_length. destruct value; [contradiction|]. cbn [length]. lia. }
  rewrite (trunc_go_printable value m Hp Hm). set (chunk := firstn m value).
  assert (Hcl : length chunk = m) by (unfold chunk; rewrite firstn_length; lia). rewrite Hcl.
  assert (Hv : value = chunk ++ skipn m value) by (symmetry; apply firstn_skipn).
  assert (Hpc : forallb is_printable_b chunk = true /\ forallb is_printable_b (skipn m value) = true).
  { rewrite Hv, printable_app in Hp. apply andb_prop in Hp. exact Hp. }
  set (st1 := mkW L 0 true).
  destruct (w_write_escaped_out chunk st1) as (st2 & o2 & E2 & Q2). rewrite E2. cbn [spaces sp_run repeat app] in Q2.
  rewrite w_write_char_sem by reflexivity.
  set (head := ([32] ++ KEY ++ [42] ++ dec i ++ [61]) ++ [34]).
  assert (Ehead : head ++ escape_bytes chunk ++ [34] = pB i chunk).
  { unfold head, pB. cbn [app]. rewrite <- !app_assoc. cbn [app]. rewrite <- !app_assoc. reflexivity. }
  assert (Hnh : nocr (pB i chunk) = true).
  { rewrite <- Ehead. unfold head. rewrite !nocr_app, dec_nocr, (escape_nocr_p chunk (proj1 Hpc)). reflexivity. }
  assert (Eo : head ++ o2 ++ sp_run (spaces st2) ++ [34] = pB i chunk).
  { rewrite <- Ehead. rewrite (app_assoc o2), Q2. reflexivity. }
  destruct (skipn m value) as [|c rest] eqn:Er.
  - exists [chunk]. eexists. eexists. split; [reflexivity|]. split; [reflexivity|]. split; [discriminate|].
    split; [cbn [concat]; symmetry; exact Hv|]. split.
    + cbn [pBs joinp]. fold head. rewrite Eo. apply reads_as_nocr. exact Hnh.
    + eexists. reflexivity.
  - rewrite w_write_char_sem by reflexivity. cbn [spaces sp_run repeat app line_len]. unfold w_new_line. cbn [spaces].
    assert (Hlen : (m + length (c :: rest) = length value)%nat) by (rewrite <- Er, skipn_length; lia).
    destruct (IH (c :: rest) (S i) (mkW 0 0 false) eq_refl eq_refl ltac:(discriminate) (proj2 Hpc) ltac:(lia) ltac:(lia))
      as (cs & st' & o6 & E6 & Hsp & Hcn & Hcc & HR6 & (o' & Eo')).
    rewrite E6. exists (chunk :: cs), st'. eexists. split; [reflexivity|]. split; [exact Hsp|]. split; [discriminate|].
    split; [cbn [concat]; rewrite Hcc; symmetry; exact Hv|]. split.
    + cbn [pBs]. destruct cs as [|c2 cs2]; [contradiction|]. change (joinp (pB i chunk :: pBs (S i) (c2 :: cs2))) with (pB i chunk ++ 59 :: joinp (pBs (S i) (c2 :: cs2))).
      fold head. subst o6.
      match goal with |- reads_as ?X _ => assert (EX : X = (pB i chunk ++ [59]) ++ CRLF ++ SP :: o') by (rewrite <- Eo; repeat rewrite <- app_assoc; reflexivity); rewrite EX end.
      change (pB i chunk ++ 59 :: joinp (pBs (S i) (c2 :: cs2))) with (pB i chunk ++ [59] ++ joinp (pBs (S i) (c2 :: cs2))). rewrite (app_assoc (pB i chunk)).
      apply reads_as_fold; [rewrite nocr_app, Hnh; reflexivity|exact HR6].
    + eexists. reflexivity.
Qed.

(* ---------- form C: percent-encoded continuations ---------- *)
Lemma hexd_not_sp v : list_eqb [hexd v] [SP] = false.
Proof. cbn. rewrite andb_true_r. unfold hexd, SP. destruct (v <? 10) eqn:E; lia. Qed.
Lemma pct_byte_sem b st : spaces st = 0%nat -> byte_ok b = true ->
  pct_byte b st = (mkW (line_len st + 3) 0 true, [37; hexd (b / 16); hexd (b mod 16)]).
Proof.
  intros Hs Hb. unfold pct_byte. rewrite (w_write_char_sem [37]) by reflexivity. rewrite (w_write_char_sem [hexd (b / 16)]) by apply hexd_not_sp.
  rewrite (w_write_char_sem [hexd (b mod 16)]) by apply hexd_not_sp. cbn [spaces line_len length sp_run repeat app]. rewrite Hs.
  cbn [sp_run repeat app]. f_equal. f_equal. lia.
Qed.

Lemma pct_all_sem c : forall st acc, spaces st = 0%nat -> bytes_ok c = true ->
  exists T, fold_left (fun '(s, o) b => let '(s', o') := pct_byte b s in (s', o ++ o')) c (st, acc) =
            (mkW (line_len st + 3 * length c) 0 (match c with [] => can_fold st | _ => true end), acc ++ T) /\
    enc_of T c /\ forallb pct_safe T = true /\ (c <> [] -> T <> []).
Proof.
  induction c as [|b c IH]; intros st acc Hs Hb.
  - exists []. cbn. rewrite app_nil_r, Nat.add_0_r. destruct st; cbn in *; subst. split; [reflexivity|]. split; [apply enc_of_nil|]. split; [reflexivity|auto].
  - cbn in Hb. apply andb_prop in Hb. destruct Hb as [Hb Hc]. cbn [fold_left]. cbv beta iota. rewrite (pct_byte_sem b st Hs Hb).
    destruct (IH (mkW (line_len st + 3) 0 true) (acc ++ [37; hexd (b / 16); hexd (b mod 16)]) eq_refl Hc) as (T & E & En & Sf & _).
    exists ([37; hexd (b / 16); hexd (b mod 16)] ++ T). split.
    + rewrite E. cbn [line_len can_fold length]. f_equal; [f_equal; [lia|destruct c; reflexivity]|rewrite <- app_assoc; reflexivity].
    + split; [apply (enc_of_app _ [b] _ c); [apply enc_of_byte; exact Hb|exact En]|]. split; [|discriminate].
      rewrite forallb_app, Sf, andb_true_r. unfold byte_ok in Hb. cbn [forallb]. rewrite !hexd_safe by lia. reflexivity.
Qed.

Lemma pct_char_sem c st : spaces st = 0%nat -> bytes_ok c = true -> c <> [] ->
  exists st' T, pct_char c st = (st', T) /\ spaces st' = 0%nat /\ enc_of T c /\ forallb pct_safe T = true /\ T <> [].
Proof.
  intros Hs Hb Hne. unfold pct_char. destruct c as [|b [|b2 c']]; [contradiction| |].
  - destruct (is_alnum_plus b) eqn:E.
    + rewrite w_write_char_sem.
      * rewrite Hs. cbn [sp_run repeat app]. eexists _, _. split; [reflexivity|]. split; [reflexivity|]. split; [apply enc_of_plain; exact E|].
        split; [cbn; unfold pct_safe; rewrite E; reflexivity|discriminate].
      * cbn. rewrite andb_true_r. destruct (b =? SP) eqn:Eb; [|reflexivity]. apply N.eqb_eq in Eb. subst b. discriminate.
    + cbn in Hb. rewrite andb_true_r in Hb. rewrite (pct_byte_sem b st Hs Hb). eexists _, _. split; [reflexivity|]. split; [reflexivity|].
      split; [apply enc_of_byte; exact Hb|]. split; [|discriminate]. unfold byte_ok in Hb. cbn [forallb]. rewrite !hexd_safe by lia. reflexivity.
  - destruct (pct_all_sem (b :: b2 :: c') st [] Hs Hb) as (T & E & En & Sf & Tn). rewrite E. eexists _, T. split; [reflexivity|].
    split; [reflexivity|]. split; [exact En|]. split; [exact Sf|apply Tn; discriminate].
Qed.

Lemma first_char_len_pos b : (1 <= first_char_len b)%nat.
Proof. unfold first_char_len. destruct (b <? 128); [lia|]. destruct (b <? 224); [lia|]. destruct (b <? 240); lia. Qed.

Lemma line_sem fuel : forall value st, spaces st = 0%nat -> bytes_ok value = true ->
  exists consumed T st' rest, rfc2231_line fuel value st = (st', T, rest) /\ value = consumed ++ rest /\ spaces st' = 0%nat /\
    enc_of T consumed /\ forallb pct_safe T = true /\ (consumed <> [] -> T <> []) /\
    ((1 <= fuel)%nat -> (line_len st < MAX_LINE_LEN - 15)%nat -> value <> [] -> consumed <> []).
Proof.
  induction fuel as [|f IH]; intros value st Hs Hb.
  - exists [], [], st, value. cbn. split; [reflexivity|]. split; [reflexivity|]. split; [exact Hs|]. split; [apply enc_of_nil|]. split; [reflexivity|]. split; [auto|lia].
  - cbn [rfc2231_line]. destruct (Nat.ltb (line_len st) (MAX_LINE_LEN - 15)) eqn:El.
    + destruct value as [|b0 r] eqn:Ev.
      * exists [], [], st, []. cbn. split; [reflexivity|]. split; [reflexivity|]. split; [exact Hs|]. split; [apply enc_of_nil|]. split; [reflexivity|]. split; [auto|intros _ _ H; contradiction].
      * cbn [next_char]. set (n := first_char_len b0). set (c := firstn n (b0 :: r)). set (r2 := skipn n (b0 :: r)).
        assert (Hcr : b0 :: r = c ++ r2) by (symmetry; apply firstn_skipn).
        assert (Hbc : bytes_ok c = true /\ bytes_ok r2 = true) by (rewrite Hcr, bytes_ok_app in Hb; apply andb_prop in Hb; exact Hb).
        assert (Hcn : c <> []). { unfold c, n. pose proof (first_char_len_pos b0) as P. destruct (first_char_len b0); [lia|discriminate]. }
        destruct (pct_char_sem c st Hs (proj1 Hbc) Hcn) as (s1 & T1 & E1 & Hs1 & En1 & Sf1 & Tn1). rewrite E1.
        destruct (IH r2 s1 Hs1 (proj2 Hbc)) as (cons2 & T2 & st' & rest & E2 & Hv2 & Hs2 & En2 & Sf2 & _ & _). rewrite E2.
        exists (c ++ cons2), (T1 ++ T2), st', rest. split; [reflexivity|]. split; [rewrite Hcr, Hv2, <- app_assoc; reflexivity|]. split; [exact Hs2|].
        split; [apply enc_of_app; assumption|]. split; [rewrite forallb_app, Sf1, Sf2; reflexivity|].
        split; [intros _ E; apply app_eq_nil in E; destruct E; contradiction|intros _ _ _ E; apply app_eq_nil in E; destruct E; contradiction].
    + exists [], [], st, value. split; [reflexivity|]. split; [reflexivity|]. split; [exact Hs|]. split; [apply enc_of_nil|]. split; [reflexivity|].
      split; [auto|]. intros _ H. apply Nat.ltb_ge in El. lia.
Qed.

Lemma safe_nocr T : forallb pct_safe T = true -> nocr T = true.
Proof.
  apply forallb_impl. intros x H. apply negb_true_iff. unfold pct_safe, is_alnum_plus, is_alnum_ascii, is_alpha, is_upper, is_lower, is_digit in H. unfold CR. lia.
Qed.

Lemma enc_go_sem fuel : forall value i st, line_len st = 0%nat -> spaces st = 0%nat -> value <> [] ->
  bytes_ok value = true -> (i + length value < 100 * 1000)%nat -> (length value < fuel)%nat ->
  exists cs Ts st' o, rfc2231_enc_go fuel KEY value i st = Ok (st', o) /\ spaces st' = 0%nat /\ cs <> [] /\ concat cs = value /\
    length cs = length Ts /\ Forall2 (fun T c => enc_of T c /\ forallb pct_safe T = true /\ T <> []) Ts cs /\
    reads_as o (joinp (pCs i Ts)) /\ exists o', o = SP :: o'.
Proof.
  induction fuel as [|f IH]; intros value i st Hl Hs Hne Hb Hi Hf; [lia|]. cbn [rfc2231_enc_go].
  destruct (dec_spec i) as (Dne & Dd & _ & D3). specialize (D3 ltac:(lia)).
  replace ([32] ++ KEY ++ [42] ++ dec i ++ bs "*=") with (([32] ++ KEY ++ [42] ++ dec i ++ [42]) ++ [61])
    by (cbn [bs app]; rewrite <- !app_assoc; cbn [app]; rewrite <- !app_assoc; reflexivity).
  rewrite w_write_str_last by reflexivity. rewrite Hl, Hs. change (sp_run 0) with (@nil N). rewrite app_nil_l. cbn [Nat.add line_len].
  set (head := ([32] ++ KEY ++ [42] ++ dec i ++ [42]) ++ [61]).
  assert (HL : (length head = 12 + length (dec i))%nat).
  { unfold head. rewrite !app_length. change (length KEY) with 8%nat. cbn [length]. lia. }
  set (s1 := mkW (length head) 0 true).
  assert (E2 : exists s2, (match i with O => w_write_str (bs "utf-8''") s1 | S _ => (s1, []) end) = (s2, pre0 i) /\ spaces s2 = 0%nat /\ (line_len s2 <= 12 + 5 + 7)%nat).
  { destruct i as [|i'].
    - change (bs "utf-8''") with (bs "utf-8'" ++ [39]). rewrite w_write_str_last by reflexivity. eexists. split; [reflexivity|]. split; [reflexivity|].
      cbn [line_len spaces s1]. rewrite HL. cbn [length app bs]. lia.
    - eexists. split; [reflexivity|]. split; [reflexivity|]. cbn [line_len s1]. lia. }
  destruct E2 as (s2 & E2 & Hs2 & Hl2). rewrite E2.
  destruct (line_sem (S (length value)) value s2 Hs2 Hb) as (chunk & T & s3 & rest & E3 & Hv & Hs3 & En & Sf & Tn & Hprog). rewrite E3.
  assert (Hcn : chunk <> []) by (apply Hprog; [lia|unfold MAX_LINE_LEN; lia|exact Hne]).
  specialize (Tn Hcn).
  assert (Ehead : head ++ pre0 i ++ T = pC i T).
  { unfold head, pC. cbn [app]. rewrite <- !app_assoc. cbn [app]. rewrite <- !app_assoc. reflexivity. }
  assert (Hnh : nocr (pC i T) = true).
  { rewrite <- Ehead. unfold head. rewrite !nocr_app, dec_nocr, (safe_nocr T Sf). destruct i; reflexivity. }
  assert (Hbr : bytes_ok rest = true) by (rewrite Hv, bytes_ok_app in Hb; apply andb_prop in Hb; apply Hb).
  destruct rest as [|c r] eqn:Er.
  - exists [chunk], [T], s3. eexists. split; [reflexivity|]. split; [exact Hs3|]. split; [discriminate|].
    split; [cbn [concat]; symmetry; exact Hv|]. split; [reflexivity|]. split; [constructor; [auto|constructor]|]. split.
    + cbn [pCs joinp]. fold head. rewrite Ehead. apply reads_as_nocr. exact Hnh.
    + eexists. reflexivity.
  - rewrite w_write_char_sem by reflexivity. rewrite Hs3. cbn [spaces sp_run repeat app line_len]. unfold w_new_line. cbn [spaces].
    assert (Hlen : (length chunk + length (c :: r) = length value)%nat) by (rewrite Hv, app_length; reflexivity).
    assert (1 <= length chunk)%nat by (destruct chunk; [contradiction|cbn; lia]).
    destruct (IH (c :: r) (S i) (mkW 0 0 false) eq_refl eq_refl ltac:(discriminate) Hbr ltac:(lia) ltac:(lia))
      as (cs & Ts & st' & o6 & E6 & Hsp & Hcsn & Hcc & Hlen2 & HF & HR6 & (o' & Eo')).
    rewrite E6. exists (chunk :: cs), (T :: Ts), st'. eexists. split; [reflexivity|]. split; [exact Hsp|]. split; [discriminate|].
    split; [cbn [concat]; rewrite Hcc; symmetry; exact Hv|]. split; [cbn [length]; rewrite Hlen2; reflexivity|]. split; [constructor; [auto|exact HF]|]. split.
    + cbn [pCs]. destruct Ts as [|T2 Ts2]; [destruct cs; [contradiction|discriminate]|].
      change (joinp (pC i T :: pCs (S i) (T2 :: Ts2))) with (pC i T ++ 59 :: joinp (pCs (S i) (T2 :: Ts2))).
      fold head. subst o6.
      match goal with |- reads_as ?X _ => assert (EX : X = (pC i T ++ [59]) ++ CRLF ++ SP :: o') by (rewrite <- Ehead; repeat rewrite <- app_assoc; reflexivity); rewrite EX end.
      change (pC i T ++ 59 :: joinp (pCs (S i) (T2 :: Ts2))) with (pC i T ++ [59] ++ joinp (pCs (S i) (T2 :: Ts2))). rewrite (app_assoc (pC i T)).
      apply reads_as_fold; [rewrite nocr_app, Hnh; reflexivity|exact HR6].
    + eexists. reflexivity.
Qed.

(* ---------- the reader on the parameter texts ---------- *)
Definition pA (c : bytes) : bytes := SP :: KEY ++ 61 :: 34 :: escape_bytes c ++ [34].
Definition transparent (p : bytes) : Prop := forall r cur, split_params (p ++ r) cur false false = split_params r (rev p ++ cur) false false.

Lemma transparent_app a b : transparent a -> transparent b -> transparent (a ++ b).
Proof. intros Ha Hb r cur. rewrite <- app_assoc, Ha, Hb, rev_app_distr, <- app_assoc. reflexivity. Qed.
Lemma transparent_plain p : no_special p = true -> transparent p.
Proof. intros H r cur. apply split_params_plain. exact H. Qed.
Lemma transparent_quoted v : transparent (34 :: escape_bytes v ++ [34]).
Proof.
  intros r cur. change ((34 :: escape_bytes v ++ [34]) ++ r) with (34 :: (escape_bytes v ++ [34]) ++ r). rewrite <- app_assoc. cbn [app].
  rewrite split_params_quoted. cbn [rev]. rewrite rev_app_distr. cbn [rev app]. rewrite <- !app_assoc. reflexivity.
Qed.
Lemma digits_no_special ds : forallb is_digit ds = true -> no_special ds = true.
Proof. apply forallb_impl. intros x H. unfold is_digit in H. apply negb_true_iff. lia. Qed.
Lemma safe_no_special T : forallb pct_safe T = true -> no_special T = true.
Proof.
  apply forallb_impl. intros x H. apply negb_true_iff. unfold pct_safe, is_alnum_plus, is_alnum_ascii, is_alpha, is_upper, is_lower, is_digit in H. lia.
Qed.
Lemma no_special_app a b : no_special (a ++ b) = no_special a && no_special b.
Proof. apply forallb_app. Qed.

Lemma transparent_pA c : transparent (pA c).
Proof.
  unfold pA. change (SP :: KEY ++ 61 :: 34 :: escape_bytes c ++ [34]) with ((SP :: KEY ++ [61]) ++ (34 :: escape_bytes c ++ [34])).
  replace (SP :: KEY ++ 61 :: 34 :: escape_bytes c ++ [34]) with ((SP :: KEY ++ [61]) ++ (34 :: escape_bytes c ++ [34])) by (cbn [app]; rewrite <- app_assoc; reflexivity).
  apply transparent_app; [apply transparent_plain; reflexivity|apply transparent_quoted].
Qed.
Lemma transparent_pB i c : transparent (pB i c).
Proof.
  unfold pB. replace (SP :: (KEY ++ 42 :: dec i) ++ 61 :: 34 :: escape_bytes c ++ [34]) with ((SP :: (KEY ++ 42 :: dec i) ++ [61]) ++ (34 :: escape_bytes c ++ [34]))
    by (cbn [app]; rewrite <- !app_assoc; reflexivity).
  apply transparent_app; [|apply transparent_quoted]. apply transparent_plain. destruct (dec_spec i) as (_ & Hd & _).
  change (SP :: (KEY ++ 42 :: dec i) ++ [61]) with ([SP] ++ (KEY ++ 42 :: dec i) ++ [61]). rewrite !no_special_app.
  change (42 :: dec i) with ([42] ++ dec i). rewrite no_special_app, (digits_no_special _ Hd). reflexivity.
Qed.
Lemma transparent_pC i T : forallb pct_safe T = true -> transparent (pC i T).
Proof.
  intros Sf. apply transparent_plain. unfold pC. destruct (dec_spec i) as (_ & Hd & _).
  change (SP :: (KEY ++ 42 :: dec i ++ [42]) ++ 61 :: pre0 i ++ T) with ([SP] ++ (KEY ++ [42] ++ dec i ++ [42]) ++ [61] ++ pre0 i ++ T).
  rewrite !no_special_app, (digits_no_special _ Hd), (safe_no_special T Sf). destruct i; reflexivity.
Qed.

Lemma split_joinp ps : Forall transparent ps -> ps <> [] -> split_params (joinp ps) [] false false = ps.
Proof.
  induction ps as [|p ps IH]; intros F Hne; [contradiction|]. inversion F as [|? ? Hp F']; subst. destruct ps as [|q ps'].
  - cbn [joinp]. rewrite <- (app_nil_r p) at 1. rewrite Hp. cbn. rewrite app_nil_r, frev_rev, rev_involutive. reflexivity.
  - change (joinp (p :: q :: ps')) with (p ++ 59 :: joinp (q :: ps')). rewrite Hp, split_params_semi, app_nil_r, frev_rev, rev_involutive.
    rewrite IH; [reflexivity|exact F'|discriminate].
Qed.
Lemma split_disposition kind ps : no_special kind = true -> Forall transparent ps -> ps <> [] ->
  split_params (kind ++ 59 :: joinp ps) [] false false = kind :: ps.
Proof.
  intros Hk F Hne. rewrite split_params_plain by exact Hk. rewrite split_params_semi, app_nil_r, frev_rev, rev_involutive.
  rewrite split_joinp by assumption. reflexivity.
Qed.

(* last character of a non-empty list with a property *)
Lemma last_prop (P : N -> bool) l : l <> [] -> forallb P l = true -> P (hd 0 (rev l)) = true.
Proof.
  intros Hne H. destruct (rev l) as [|x t] eqn:E.
  - exfalso. apply Hne. apply (f_equal (@rev N)) in E. rewrite rev_involutive in E. exact E.
  - cbn. apply (proj1 (forallb_forall _ _) H). apply in_rev. rewrite E. left. reflexivity.
Qed.
Lemma hd_rev_app a b : b <> [] -> hd 0 (rev (a ++ b)) = hd 0 (rev b).
Proof.
  intros Hne. rewrite rev_app_distr. destruct (rev b) as [|x t] eqn:E; [|reflexivity].
  exfalso. apply Hne. apply (f_equal (@rev N)) in E. rewrite rev_involutive in E. exact E.
Qed.

Lemma name_no_eq i tail : forallb (fun b => negb (b =? 61)) tail = true -> forallb (fun b => negb (b =? 61)) (KEY ++ 42 :: dec i ++ tail) = true.
Proof.
  intros Ht. destruct (dec_spec i) as (_ & Hd & _). change (42 :: dec i ++ tail) with ([42] ++ dec i ++ tail). rewrite !forallb_app, Ht.
  replace (forallb (fun b : N => negb (b =? 61)) (dec i)) with true; [reflexivity|]. symmetry.
  apply (forallb_impl is_digit); [|exact Hd]. intros x H. unfold is_digit in H. apply negb_true_iff. lia.
Qed.

Lemma collect_B cs : forall i, collect KEY (pBs i cs) i = Some (concat cs).
Proof.
  induction cs as [|c cs IH]; intros i; [reflexivity|]. cbn [pBs collect]. destruct (dec_spec i) as (Dne & Dd & _).
  set (name := KEY ++ 42 :: dec i). set (v := 34 :: escape_bytes c ++ [34]).
  assert (Et : trim (pB i c) = name ++ 61 :: v).
  { unfold pB. apply trim_sp; [reflexivity|]. fold name. fold v. change (name ++ 61 :: v) with (name ++ (61 :: 34 :: escape_bytes c) ++ [34]).
    rewrite app_assoc, rev_app_distr. reflexivity. }
  rewrite Et. rewrite split_eq_name by (unfold name; rewrite <- (app_nil_r (dec i)); apply name_no_eq; reflexivity).
  assert (Etn : trim name = name).
  { apply trim_inner; [reflexivity|]. unfold name. change (KEY ++ 42 :: dec i) with ((KEY ++ [42]) ++ dec i). rewrite hd_rev_app by exact Dne.
    pose proof (last_prop is_digit (dec i) Dne Dd) as P. unfold is_digit in P. unfold is_wsp, SP, TAB. lia. }
  rewrite Etn. unfold name. rewrite seg_cont. rewrite Nat.eqb_refl. cbn [negb].
  assert (Etv : trim v = v).
  { apply trim_inner; [reflexivity|]. unfold v. change (34 :: escape_bytes c ++ [34]) with ((34 :: escape_bytes c) ++ [34]). rewrite rev_app_distr. reflexivity. }
  rewrite Etv. unfold v, plain_value. change (34 =? 34) with true. cbn iota. rewrite read_qs_escaped. rewrite IH. reflexivity.
Qed.

Lemma collect_A c : collect KEY [pA c] 0 = Some c.
Proof.
  cbn [collect]. set (v := 34 :: escape_bytes c ++ [34]).
  assert (Et : trim (pA c) = KEY ++ 61 :: v).
  { unfold pA. apply trim_sp; [reflexivity|]. fold v. change (KEY ++ 61 :: v) with (KEY ++ (61 :: 34 :: escape_bytes c) ++ [34]).
    rewrite app_assoc, rev_app_distr. reflexivity. }
  rewrite Et. rewrite split_eq_name by reflexivity. change (trim KEY) with KEY. rewrite seg_plain. cbn [Nat.eqb negb].
  assert (Etv : trim v = v).
  { apply trim_inner; [reflexivity|]. unfold v. change (34 :: escape_bytes c ++ [34]) with ((34 :: escape_bytes c) ++ [34]). rewrite rev_app_distr. reflexivity. }
  rewrite Etv. unfold v, plain_value. change (34 =? 34) with true. cbn iota. rewrite read_qs_escaped. rewrite app_nil_r. reflexivity.
Qed.

Lemma safe_not_wsp x : pct_safe x = true -> is_wsp x = false.
Proof. unfold pct_safe, is_alnum_plus, is_alnum_ascii, is_alpha, is_upper, is_lower, is_digit, is_wsp, SP, TAB. lia. Qed.

Lemma atq_0 l : after_two_quotes l 0 = Some l.
Proof. destruct l; reflexivity. Qed.
Lemma atq_prefix T : after_two_quotes (bs "utf-8''" ++ T) 2 = Some T.
Proof.
  cbn [bs app]. change (after_two_quotes (117 :: 116 :: 102 :: 45 :: 56 :: 39 :: 39 :: T) 2) with (after_two_quotes T 0). apply atq_0.
Qed.

Lemma collect_C Ts : forall cs i, Forall2 (fun T c => enc_of T c /\ forallb pct_safe T = true /\ T <> []) Ts cs ->
  collect KEY (pCs i Ts) i = Some (concat cs).
Proof.
  induction Ts as [|T Ts IH]; intros cs i F; inversion F as [|? c ? cs' (En & Sf & Tn) F']; subst; [reflexivity|].
  cbn [pCs collect]. destruct (dec_spec i) as (Dne & Dd & _).
  set (name := KEY ++ 42 :: dec i ++ [42]). set (v := pre0 i ++ T).
  assert (Hlast : is_wsp (hd 0 (rev T)) = false) by (apply safe_not_wsp; apply (last_prop pct_safe T Tn Sf)).
  assert (Hfirst : is_wsp (hd 0 T) = false).
  { destruct T as [|x t]; [contradiction|]. cbn in Sf. apply andb_prop in Sf. apply safe_not_wsp. apply Sf. }
  assert (Et : trim (pC i T) = name ++ 61 :: v).
  { unfold pC. apply trim_sp; [reflexivity|]. fold name. fold v. change (name ++ 61 :: v) with (name ++ (61 :: pre0 i) ++ T).
    rewrite !app_assoc. rewrite hd_rev_app by exact Tn. exact Hlast. }
  rewrite Et. rewrite split_eq_name by (unfold name; apply name_no_eq; reflexivity).
  assert (Etn : trim name = name).
  { apply trim_inner; [reflexivity|]. unfold name. change (KEY ++ 42 :: dec i ++ [42]) with ((KEY ++ 42 :: dec i) ++ [42]). rewrite rev_app_distr. reflexivity. }
  rewrite Etn. unfold name. rewrite seg_ext. rewrite Nat.eqb_refl. cbn [negb].
  assert (Etv : trim v = v).
  { apply trim_inner; unfold v; [destruct i; [reflexivity|exact Hfirst]|]. rewrite hd_rev_app by exact Tn. exact Hlast. }
  rewrite Etv.
  assert (Epiece : (if Nat.eqb i 0 then after_two_quotes v 2 else Some v) = Some T) by (unfold v; destruct i; [apply atq_prefix|reflexivity]).
  match goal with |- context [if ?c then ?a else ?b] => replace (if c then a else b) with (Some T) by (symmetry; exact Epiece) end. pose proof (En []) as D. rewrite app_nil_r in D. rewrite D. cbn [pct_decode option_map]. rewrite app_nil_r.
  rewrite (IH cs' (S i) F'). reflexivity.
Qed.

(* ---------- ContentDisposition::attachment / inline_with_name ---------- *)
Definition kind_ok (kind : bytes) : Prop := kind = bs "attachment" \/ kind = bs "inline".

Theorem filename_roundtrip kind fname : kind_ok kind -> nc4 fname = true -> bytes_ok fname = true -> (length fname < 100 * 1000)%nat ->
  exists e, content_disposition_encode kind fname = Ok e /\ decode_disposition e = Some (kind, fname).
Proof.
  intros Hk Hn Hb Hlen. unfold content_disposition_encode.
  assert (Kf : kind <> [] /\ mem SP kind = false /\ no_special kind = true /\ nocr kind = true /\ trim kind = kind /\ (length kind <= 10)%nat).
  { destruct Hk as [->| ->]; repeat split; try discriminate; try reflexivity; cbn; lia. }
  destruct Kf as (K1 & K2 & K3 & K4 & K5 & K6).
  rewrite (w_write_str_word kind _ K1 K2). cbn [line_len spaces sp_run repeat app]. rewrite w_write_char_sem by reflexivity.
  cbn [line_len spaces sp_run repeat app length w_space]. unfold rfc2231_encode.
  change (negb (forallb is_alnum_ascii (bs "filename")) || negb (Nat.ltb (length (bs "filename") + 13) MAX_LINE_LEN)) with false. cbn iota.
  change (w_space {| line_len := 21 + 0 + length kind + 0 + 1; spaces := 0; can_fold := true |}) with (mkW (21 + 0 + length kind + 0 + 1) 1 true).
  set (L := (21 + 0 + length kind + 0 + 1)%nat).
  destruct (forallb is_printable_b fname) eqn:Ep.
  - destruct (Nat.leb (line_len (mkW L 1 true) + (length (bs "filename") + 2 + length fname + 3)) MAX_LINE_LEN) eqn:Efit.
    + (* one quoted parameter on the same line *)
      cbn [line_len spaces]. rewrite (w_write_str_word (bs "filename")) by (try discriminate; reflexivity). cbn [line_len spaces sp_run repeat app].
      rewrite !w_write_char_sem by reflexivity. cbn [line_len spaces sp_run repeat app length].
      match goal with |- context [w_write_escaped fname ?st] => destruct (w_write_escaped_out fname st) as (st2 & o2 & E2 & Q2); rewrite E2 end.
      cbn [spaces sp_run repeat app] in Q2. rewrite w_write_char_sem by reflexivity. cbn [finish spaces sp_run repeat].
      eexists. split; [reflexivity|]. unfold decode_disposition.
      match goal with |- context [unfold ?X] => assert (EX : X = kind ++ 59 :: pA fname) end.
      { rewrite app_nil_r. unfold pA. change (bs "filename") with KEY. rewrite (app_assoc o2), Q2. reflexivity. }
      rewrite EX. rewrite nocr_unfold.
      * change (59 :: pA fname) with (59 :: joinp [pA fname]). rewrite split_disposition; [|exact K3|constructor; [apply transparent_pA|constructor]|discriminate].
        change (bs "filename") with KEY. rewrite collect_A, K5. reflexivity.
      * change (59 :: pA fname) with ([59] ++ pA fname). rewrite !nocr_app, K4. unfold pA. change (SP :: KEY ++ 61 :: 34 :: escape_bytes fname ++ [34]) with ([SP] ++ KEY ++ [61; 34] ++ escape_bytes fname ++ [34]).
        rewrite !nocr_app, (escape_nocr_p fname Ep). reflexivity.
    + (* quoted continuations *)
      apply Nat.leb_gt in Efit. cbn [line_len] in Efit. change (length (bs "filename")) with 8%nat in Efit. unfold MAX_LINE_LEN, L in Efit.
      unfold w_new_line, w_forget_spaces. cbn [line_len spaces can_fold].
      assert (Hne : fname <> []) by (intros ->; cbn [length] in Efit; lia).
      destruct (plain_go_sem (S (length fname)) fname 0 (mkW 0 0 false) eq_refl eq_refl Hne Ep ltac:(lia) ltac:(lia))
        as (cs & st' & o & E & Hsp & Hcn & Hcc & HR & (o' & Eo)).
      change (bs "filename") with KEY. rewrite E. cbn [finish]. rewrite Hsp. cbn [sp_run repeat]. eexists. split; [reflexivity|]. unfold decode_disposition.
      match goal with |- context [unfold ?X] => assert (EX : X = (kind ++ [59]) ++ CRLF ++ SP :: o') end.
      { subst o. rewrite !app_nil_r. rewrite <- !app_assoc. reflexivity. }
      rewrite EX. subst o.
      pose proof (reads_as_fold (kind ++ [59]) o' _ ltac:(rewrite nocr_app, K4; reflexivity) HR []) as U. cbv beta in U. rewrite (app_nil_r ((kind ++ [59]) ++ CRLF ++ SP :: o')) in U. cbn [unfold] in U. rewrite app_nil_r in U.
      rewrite U. rewrite <- app_assoc. cbn [app].
      assert (Hps : pBs 0 cs <> []) by (destruct cs; [contradiction|discriminate]).
      rewrite split_disposition; [|exact K3| |exact Hps].
      * rewrite collect_B, Hcc, K5. reflexivity.
      * clear. generalize 0%nat. induction cs as [|c cs IH]; intros i; [constructor|]. cbn [pBs]. constructor; [apply transparent_pB|apply IH].
  - (* percent-encoded continuations *)
    unfold w_new_line, w_forget_spaces. cbn [line_len spaces can_fold].
    assert (Hne : fname <> []) by (intros ->; discriminate).
    destruct (enc_go_sem (S (length fname)) fname 0 (mkW 0 0 false) eq_refl eq_refl Hne Hb ltac:(lia) ltac:(lia))
      as (cs & Ts & st' & o & E & Hsp & Hcn & Hcc & Hl2 & HF & HR & (o' & Eo)).
    change (bs "filename") with KEY. rewrite E. cbn [finish]. rewrite Hsp. cbn [sp_run repeat]. eexists. split; [reflexivity|]. unfold decode_disposition.
    match goal with |- context [unfold ?X] => assert (EX : X = (kind ++ [59]) ++ CRLF ++ SP :: o') end.
    { subst o. rewrite !app_nil_r. rewrite <- !app_assoc. reflexivity. }
    rewrite EX. subst o.
    pose proof (reads_as_fold (kind ++ [59]) o' _ ltac:(rewrite nocr_app, K4; reflexivity) HR []) as U. cbv beta in U. rewrite (app_nil_r ((kind ++ [59]) ++ CRLF ++ SP :: o')) in U. cbn [unfold] in U. rewrite app_nil_r in U.
    rewrite U. rewrite <- app_assoc. cbn [app].
    assert (Hps : pCs 0 Ts <> []) by (destruct Ts; [destruct cs; [contradiction|discriminate]|discriminate]).
    rewrite split_disposition; [|exact K3| |exact Hps].
    + change (bs "filename") with KEY. rewrite (collect_C Ts cs 0 HF), Hcc, K5. reflexivity.
    + clear -HF. generalize 0%nat. induction HF as [|T c Ts cs (_ & Sf & _) _ IH]; intros i; [constructor|]. cbn [pCs]. constructor; [apply transparent_pC; exact Sf|apply IH].
Qed.

Theorem filename_roundtrip_utf8 kind fname : kind_ok kind -> utf8_valid fname = true -> (length fname < 100 * 1000)%nat ->
  exists e, content_disposition_encode kind fname = Ok e /\ decode_disposition e = Some (kind, fname).
Proof.
  intros Hk H Hl. apply filename_roundtrip; [exact Hk|apply utf8_valid_nc4; exact H|apply (utf8_valid_fuel_bytes_ok _ _ H)|exact Hl].
Qed.
