From Coq Require Import Strings.String.
From LV Require Import Base.Bytes Base.Str Model.ServerInfo Spec.Xtext.
From Coq Require Import ZArith Lia ZifyBool ZifyN.
Ltac Zify.zify_post_hook ::= Z.div_mod_to_equations.

Lemma hexval_digit d : d < 16 -> hexval (hex_digit d) = Some d.
Proof.
  intros H. unfold hexval, hex_digit, is_digit.
  destruct (d <? 10) eqn:E.
  - replace ((48 <=? d + 48) && (d + 48 <=? 57)) with true by lia. f_equal. lia.
  - replace ((48 <=? d - 10 + 65) && (d - 10 + 65 <=? 57)) with false by lia.
    replace ((65 <=? d - 10 + 65) && (d - 10 + 65 <=? 70)) with true by lia. f_equal. lia.
Qed.

Lemma xdec_byte b r : b < 128 ->
  xdec (xtext_byte b ++ r) = match xdec r with Some t => Some (b :: t) | None => None end.
Proof.
  intros Hb. unfold xtext_byte.
  destruct ((b <? 33) || (b =? 43) || (b =? 61) || (b =? 127)) eqn:E.
  - cbn [app hex2]. cbn [xdec]. change (43 =? 43) with true. cbn iota.
    rewrite !hexval_digit by lia. destruct (xdec r); [|reflexivity]. f_equal. f_equal. lia.
  - cbn [app xdec].
    replace (b =? 43) with false by lia. replace (xchar b) with true by (unfold xchar; lia).
    reflexivity.
Qed.

Theorem xtext_decodes v : is_ascii v = true -> xdec (xtext v) = Some v.
Proof.
  induction v as [|b v IH]; intros H; [reflexivity|].
  cbn [is_ascii forallb] in H. apply andb_prop in H. destruct H as [Hb Hv].
  unfold xtext. cbn [flat_map]. rewrite xdec_byte by (unfold is_ascii_b in Hb; lia).
  fold (xtext v). rewrite (IH Hv). reflexivity.
Qed.

(* no CR, LF, SP or '=' survives in an encoded parameter value *)
Theorem xtext_line_safe v b : In b (xtext v) -> b <> 13 /\ b <> 10 /\ b <> 32 /\ b <> 61.
Proof.
  unfold xtext. rewrite in_flat_map. intros (x & _ & Hx). unfold xtext_byte in Hx.
  destruct ((x <? 33) || (x =? 43) || (x =? 61) || (x =? 127)) eqn:E.
  - cbn in Hx. unfold hex_digit in Hx.
    destruct Hx as [<-|[<-|[<-|[]]]]; [lia| |].
    + destruct (x / 16 <? 10) eqn:?; lia.
    + destruct (x mod 16 <? 10) eqn:?; lia.
  - cbn in Hx. destruct Hx as [<-|[]]. lia.
Qed.
