From LV Require Import Base.Bytes Model.Codec Spec.SmtpData.

Definition rel (s : cstate) : rstate :=
  match s with StartOfNewLine => LS | MiddleOfLine => INL | StartingNewLine => INLCR end.
Definition owe (s : cstate) : bytes :=
  match s with StartingNewLine => [CR] | _ => [] end.

Lemma cons_out_nil r : cons_out [] r = r.
Proof. destruct r as [[o t]|]; reflexivity. Qed.
Lemma cons_out_app a b r : cons_out a (cons_out b r) = cons_out (a ++ b) r.
Proof. destruct r as [[o t]|]; simpl; [rewrite app_assoc|]; reflexivity. Qed.

Lemma eqb_CR b : (b =? CR) = true -> b = CR.
Proof. apply N.eqb_eq. Qed.

(* One codec step followed by the receiver: the receiver delivers exactly the input byte,
   up to the CR it holds back. *)
Lemma step_recv b s t :
  exists X, owe s ++ [b] = X ++ owe (fst (codec_step s b)) /\
            recv (rel s) (snd (codec_step s b) ++ t) =
            cons_out X (recv (rel (fst (codec_step s b))) t).
Proof.
  unfold codec_step.
  destruct (b =? CR) eqn:Hcr.
  - apply N.eqb_eq in Hcr; subst b.
    destruct s; cbn.
    + exists []; split; [reflexivity | now rewrite cons_out_nil].
    + exists [CR]; split; [reflexivity | reflexivity].
    + exists []; split; [reflexivity | now rewrite cons_out_nil].
  - destruct s.
    + (* MiddleOfLine *)
      exists [b]; split; [reflexivity|]. cbn. rewrite Hcr. reflexivity.
    + (* StartingNewLine *)
      destruct (b =? LF) eqn:Hlf.
      * apply N.eqb_eq in Hlf; subst b. exists [CR; LF]; split; [reflexivity|]. reflexivity.
      * exists [CR; b]; split; [reflexivity|]. cbn. rewrite Hlf, Hcr. reflexivity.
    + (* StartOfNewLine *)
      destruct (b =? DOT) eqn:Hd.
      * apply N.eqb_eq in Hd; subst b. exists [DOT]; split; [reflexivity|]. reflexivity.
      * exists [b]; split; [reflexivity|]. cbn. rewrite Hd, Hcr. reflexivity.
Qed.

Lemma encode_recv m : forall s t,
  exists X, owe s ++ m = X ++ owe (fst (encode s m)) /\
            recv (rel s) (snd (encode s m) ++ t) =
            cons_out X (recv (rel (fst (encode s m))) t).
Proof.
  induction m as [|b m IH]; intros s t.
  - exists (@nil N). cbn. rewrite app_nil_r, cons_out_nil. split; reflexivity.
  - cbn [encode].
    destruct (codec_step s b) as [s1 o1] eqn:Hs.
    destruct (encode s1 m) as [s2 o2] eqn:He.
    cbn [fst snd].
    destruct (step_recv b s (o2 ++ t)) as [X1 [HX1 HR1]].
    rewrite Hs in HX1, HR1. cbn [fst snd] in HX1, HR1.
    destruct (IH s1 t) as [X2 [HX2 HR2]].
    rewrite He in HX2, HR2. cbn [fst snd] in HX2, HR2.
    exists (X1 ++ X2). split.
    + change (b :: m) with ([b] ++ m). rewrite app_assoc, HX1, <- app_assoc, HX2, app_assoc.
      reflexivity.
    + rewrite <- app_assoc, HR1, HR2, cons_out_app. reflexivity.
Qed.

Lemma recv_eod s : recv (rel s) EOD = Some (owe s ++ [CR; LF], []).
Proof. destruct s; reflexivity. Qed.

Theorem transparent msg : server_data (wire msg) = Some (msg ++ CRLF, []).
Proof.
  unfold server_data, wire.
  destruct (encode_recv msg codec_new EOD) as [X [HX HR]].
  change (rel codec_new) with LS in HR. rewrite HR, recv_eod.
  cbn [owe codec_new app] in HX. cbn [cons_out].
  remember (owe (fst (encode codec_new msg))) as w eqn:Hw. clear Hw HR.
  rewrite HX, <- app_assoc. reflexivity.
Qed.

(* ---- generic facts about the receiver ---- *)

Lemma recv_extend p : forall s o r q,
  recv s p = Some (o, r) -> recv s (p ++ q) = Some (o, r ++ q).
Proof.
  induction p as [|b p IH]; intros s o r q H; [discriminate|].
  cbn [app]. cbn [recv] in *.
  destruct s;
  repeat match goal with
  | H : context [if ?c then _ else _] |- _ => destruct c eqn:?
  end;
  repeat match goal with
  | H : Some _ = Some _ |- _ => inversion H; subst; clear H
  | H : cons_out _ (recv ?s' p) = Some _ |- _ =>
      destruct (recv s' p) as [[o' r']|] eqn:Hrec; [|discriminate];
      cbn [cons_out] in H; inversion H; subst; clear H;
      rewrite (IH _ _ _ q Hrec); reflexivity
  | H : recv ?s' p = Some _ |- _ => exact (IH _ _ _ q H)
  end; try reflexivity.
Qed.

Theorem no_early_end msg p q :
  wire msg = p ++ q -> q <> [] -> server_data p = None.
Proof.
  intros Hw Hq. unfold server_data.
  destruct (recv LS p) as [[o r]|] eqn:Hp; [|reflexivity].
  pose proof (recv_extend _ _ _ _ q Hp) as Hx.
  rewrite <- Hw in Hx. pose proof (transparent msg) as Ht. unfold server_data in Ht.
  rewrite Ht in Hx. inversion Hx as [[Ho Hr]].
  symmetry in Hr. apply app_eq_nil in Hr. destruct Hr; contradiction.
Qed.

(* In every receiver state, CRLF "." CRLF ends the data within those five octets. *)
Lemma recv_hits_eod s t : exists o r, recv s (EOD ++ t) = Some (o, r ++ t).
Proof.
  destruct s; cbn.
  - exists [CR; LF], []; reflexivity.
  - exists [], [DOT; CR; LF]; reflexivity.
  - exists [CR; CR; LF], []; reflexivity.
  - exists [CR; LF], []; reflexivity.
  - exists [CR; CR; LF], []; reflexivity.
Qed.

Lemma recv_prefix_then a : forall s t,
  exists o r, recv s (a ++ EOD ++ t) = Some (o, r ++ t).
Proof.
  induction a as [|b a IH]; intros s t.
  - apply recv_hits_eod.
  - cbn [app recv].
    destruct s;
    repeat match goal with
    | |- context [if ?c then _ else _] => destruct c eqn:?
    end;
    try (match goal with
    | |- exists o r, cons_out ?X (recv ?s' _) = _ =>
        destruct (IH s' t) as [o [r Hr]]; rewrite Hr; cbn [cons_out]; eexists; eexists; reflexivity
    | |- exists o r, recv ?s' _ = _ => apply IH
    end).
    (* LSDOTCR + LF: ended before; rest is a ++ EOD ++ t *)
    exists [], (a ++ EOD). rewrite <- app_assoc. reflexivity.
Qed.

Theorem marker_only_at_end msg a t :
  wire msg = a ++ EOD ++ t -> t = [].
Proof.
  intros Hw. pose proof (transparent msg) as Ht. unfold server_data in Ht.
  destruct (recv_prefix_then a LS t) as [o [r Hr]].
  rewrite <- Hw, Ht in Hr. inversion Hr as [[Ho Hnil]].
  symmetry in Hnil. apply app_eq_nil in Hnil. tauto.
Qed.

(* ---- frames may be cut anywhere ---- *)
Theorem encode_app a : forall s b,
  encode s (a ++ b) =
  (fst (encode (fst (encode s a)) b), snd (encode s a) ++ snd (encode (fst (encode s a)) b)).
Proof.
  induction a as [|x a IH]; intros s b.
  - cbn. destruct (encode s b); reflexivity.
  - cbn [app encode]. destruct (codec_step s x) as [s1 o1].
    rewrite IH. destruct (encode s1 a) as [s2 o2]. cbn [fst snd].
    destruct (encode s2 b) as [s3 o3]. cbn [fst snd]. rewrite app_assoc. reflexivity.
Qed.

(* the output never loses or reorders input: erasing stuffed dots gives the input back is
   what `transparent` says; here the simple length bound used for cost (C19) *)
Lemma encode_length m : forall s,
  (length m <= length (snd (encode s m)) <= 2 * length m)%nat.
Proof.
  induction m as [|b m IH]; intros s; cbn [encode]; [cbn; lia|].
  destruct (codec_step s b) as [s1 o1] eqn:Hs.
  specialize (IH s1). destruct (encode s1 m) as [s2 o2]. cbn [snd] in *.
  rewrite app_length. cbn [length].
  assert (1 <= length o1 <= 2)%nat.
  { unfold codec_step in Hs. destruct (b =? CR); [inversion Hs; cbn; lia|].
    destruct s; repeat match goal with H : context [if ?c then _ else _] |- _ => destruct c end;
    inversion Hs; cbn; lia. }
  lia.
Qed.
