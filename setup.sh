#!/bin/sh
# Build the whole framework offline from files on disk: Coq development, extracted model driver, Rust harness.
set -e
cd "$(dirname "$0")"
export CARGO_NET_OFFLINE=true
mkdir -p .cache evidence replays
( cd coq && coq_makefile -f _CoqProject -o Makefile >/dev/null && timeout 3000 make -j"$(nproc)" 2>&1 | tail -5 )
./ocaml/build.sh
( cd harness && cargo build --release --offline 2>&1 | tail -3 && cargo build --offline 2>&1 | tail -3 )
.cache/target/release/lh alnum > .cache/alnum.txt
echo setup-ok
