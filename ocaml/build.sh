#!/bin/sh
# Extract the Coq model to OCaml and build the driver.  Requires coq/ to be built (make).
set -e
cd "$(dirname "$0")"
mkdir -p extracted
cd extracted
coqc -Q ../../coq/theories LV ../../coq/theories/Extract.v > extract.log 2>&1 || { cat extract.log; exit 1; }
cp ../driver.ml .
ocamlfind ocamlopt -O3 -w -a model.mli model.ml driver.ml -o model_driver 2>/dev/null || \
ocamlfind ocamlopt -w -a model.mli model.ml driver.ml -o model_driver
