(* Hand-written driver around the extracted Coq code (model.ml).
   Reads `fn<TAB>arg...` lines, prints one result line each; byte strings are hex ("-" = empty).
   Result strings must be byte-identical to harness/src/pure.rs for the shared fns. *)
open Model

let rec pos_of_int (i : int) : positive =
  if i = 1 then XH else if i land 1 = 0 then XO (pos_of_int (i lsr 1)) else XI (pos_of_int (i lsr 1))
let n_of_int (i : int) : n = if i = 0 then N0 else Npos (pos_of_int i)
let rec int_of_pos (p : positive) : int =
  match p with XH -> 1 | XO q -> 2 * int_of_pos q | XI q -> 2 * int_of_pos q + 1
let int_of_n (x : n) : int = match x with N0 -> 0 | Npos p -> int_of_pos p

let unhex (s : string) : n list =
  if s = "-" then [] else begin
    let l = String.length s / 2 in
    let rec go i acc = if i < 0 then acc else
      go (i - 1) (n_of_int (int_of_string ("0x" ^ String.sub s (2 * i) 2)) :: acc) in
    go (l - 1) []
  end
let hex (l : n list) : string =
  if l = [] then "-" else begin
    let b = Buffer.create 64 in
    List.iter (fun x ->
      let v = int_of_n x in
      if v < 256 then Buffer.add_string b (Printf.sprintf "%02x" v)
      else Buffer.add_string b (Printf.sprintf "{%x}" v)) l;
    Buffer.contents b
  end

let cstate_of_int = function 0 -> MiddleOfLine | 1 -> StartingNewLine | _ -> StartOfNewLine
let int_of_cstate = function MiddleOfLine -> 0 | StartingNewLine -> 1 | StartOfNewLine -> 2

let opt_pair = function
  | None -> "none"
  | Some (a, b) -> Printf.sprintf "some\t%s\t%s" (hex a) (hex b)

let dispatch (f : string list) : string =
  match f with
  | ["codec.encode"; st; m] ->
      let (s, o) = encode (cstate_of_int (int_of_string st)) (unhex m) in
      Printf.sprintf "%d\t%s" (int_of_cstate s) (hex o)
  | ["codec.wire"; m] -> hex (wire (unhex m))
  | ["spec.server_data"; w] -> opt_pair (server_data (unhex w))
  | fn :: _ -> "UNKNOWN-FN " ^ fn
  | [] -> "EMPTY"

let () =
  try
    while true do
      let line = input_line stdin in
      if line <> "" then begin
        let f = String.split_on_char '\t' line in
        print_string (dispatch f); print_newline ()
      end
    done
  with End_of_file -> ()
