(* Hand-written driver around the extracted Coq code (model.ml).
   Reads `fn<TAB>arg...` lines, prints one result line each; byte strings are hex ("-" = empty).
   Result strings must be byte-identical to harness/src/pure.rs for the shared fns. *)
open Model

let rec pos_of_int (i : int) : positive =
  if i = 1 then XH else if i land 1 = 0 then XO (pos_of_int (i lsr 1)) else XI (pos_of_int (i lsr 1))
let n_of_int (i : int) : n = if i = 0 then N0 else Npos (pos_of_int i)
let rec int_of_pos (p : positive) : int =
  match p with XH -> 1 | XO q -> 2 * int_of_pos q | XI q -> 2 * int_of_pos q + 1
let int_of_n (x : n) : int = match x with N0 -> 0 | Npos p -> int_of_pos p

(* Z <-> decimal strings (values below 2^62) *)
let z_of_string (s : Stdlib.String.t) : z =
  let i = int_of_string s in if i = 0 then Z0 else if i > 0 then Zpos (pos_of_int i) else Zneg (pos_of_int (- i))
let string_of_z (x : z) : Stdlib.String.t =
  match x with Z0 -> "0" | Zpos p -> string_of_int (int_of_pos p) | Zneg p -> "-" ^ string_of_int (int_of_pos p)

let unhex (s : Stdlib.String.t) : n list =
  if s = "-" then [] else begin
    let l = String.length s / 2 in
    let rec go i acc = if i < 0 then acc else
      go (i - 1) (n_of_int (int_of_string ("0x" ^ String.sub s (2 * i) 2)) :: acc) in
    go (l - 1) []
  end
let hex (l : n list) : Stdlib.String.t =
  if l = [] then "-" else begin
    let b = Buffer.create 64 in
    List.iter (fun x ->
      let v = int_of_n x in
      if v < 256 then Buffer.add_string b (Printf.sprintf "%02x" v)
      else Buffer.add_string b (Printf.sprintf "{%x}" v)) l;
    Buffer.contents b
  end

let cstate_of_int = function 0 -> MiddleOfLine | 1 -> StartingNewLine | _ -> StartOfNewLine
let int_of_cstate = function MiddleOfLine -> 0 | StartingNewLine -> 1 | StartOfNewLine -> 2

let opt_pair = function
  | None -> "none"
  | Some (a, b) -> Printf.sprintf "some\t%s\t%s" (hex a) (hex b)

let split c s = if s = "" then [] else String.split_on_char c s
let hexlist (l : n list list) : Stdlib.String.t = if l = [] then "" else String.concat "|" (List.map hex l)
let unhexlist (s : Stdlib.String.t) : n list list = List.map unhex (split '|' s)

let code_of_int (i : int) : code = { sev = n_of_int (i / 100); cat = n_of_int ((i / 10) mod 10); det = n_of_int (i mod 10) }
let int_of_code (c : code) : int = 100 * int_of_n c.sev + 10 * int_of_n c.cat + int_of_n c.det

let mech_of_char = function 'P' -> Plain | 'L' -> Login | _ -> Xoauth2
let mechs_of_string (s : Stdlib.String.t) : mech list = List.init (String.length s) (fun i -> mech_of_char s.[i])

let ekind_s = function Transient -> "transient" | Permanent -> "permanent" | EResponse -> "response"
  | EClient -> "client" | EConnection -> "connection" | ENetwork -> "network" | ETls -> "tls" | EShutdown -> "shutdown"
let err_s (e : error) : Stdlib.String.t =
  Printf.sprintf "err,%s,%s,%s,%d" (ekind_s e.ek)
    (match e.ecode with Some c -> string_of_int (int_of_code c) | None -> "-") (hex e.etext) (if e.etimeout then 1 else 0)
let resp_s (r : response) : Stdlib.String.t = Printf.sprintf "ok,%d,%s" (int_of_code r.rcode) (hexlist r.rlines)
let rres_s = function Ok r -> resp_s r | Err e -> err_s e | Panic -> "panic"
let b01 b = if b then "1" else "0"
let info_s (i : sinfo) : Stdlib.String.t =
  let f = List.filter_map (fun (b, n) -> if b then Some n else None)
    [ (i.f_8bit, "8BITMIME"); (i.f_utf8, "SMTPUTF8"); (i.f_starttls, "STARTTLS"); (i.f_plain, "PLAIN"); (i.f_login, "LOGIN"); (i.f_xoauth2, "XOAUTH2") ] in
  Printf.sprintf "conn,%s,%s" (hex i.si_name) (String.concat "+" f)

let parse_chunk (s : Stdlib.String.t) : chunk =
  match split ',' s with
  | [d; c] -> { cdata = unhex d; cclose = (c = "1") }
  | _ -> failwith "chunk"
let parse_op (s : Stdlib.String.t) : cop =
  match split ',' s with
  | ["send"; f; tos; m] ->
      OSend ({ e_from = (if f = "!" then None else Some (unhex f)); e_to = unhexlist tos }, unhex m)
  | ["auth"; ms; u; p] -> OAuth (mechs_of_string ms, unhex u, unhex p)
  | ["noop"] -> ONoop
  | ["quit"] -> OQuit
  | ["abort"] -> OAbort
  | _ -> failwith ("op " ^ s)
let cres_s = function
  | RResp (r, b) -> rres_s r ^ ",b" ^ b01 b
  | RBool (v, b) -> "bool," ^ b01 v ^ ",b" ^ b01 b
  | RUnit b -> "unit,b" ^ b01 b
let unit_s = function ULine b -> "L:" ^ hex b | UData b -> "D:" ^ hex b

(* ---- oracle plumbing for the address model ---- *)
let alnum_tbl : (int * int) array ref = ref [||]
let load_alnum () =
  if Array.length !alnum_tbl = 0 then begin
    let path = try Sys.getenv "VERIF_ALNUM" with Not_found -> "/verif/.cache/alnum.txt" in
    let ic = open_in path in
    let l = ref [] in
    (try while true do
       let line = input_line ic in
       match String.split_on_char ' ' line with
       | [a; b] -> l := (int_of_string a, int_of_string b) :: !l
       | _ -> ()
     done with End_of_file -> ());
    close_in ic;
    alnum_tbl := Array.of_list (List.rev !l)
  end
let alnum_fn (c : n) : bool =
  load_alnum ();
  let v = int_of_n c in
  let t = !alnum_tbl in
  let lo = ref 0 and hi = ref (Array.length t - 1) and found = ref false in
  while not !found && !lo <= !hi do
    let mid = (!lo + !hi) / 2 in
    let (a, b) = t.(mid) in
    if v < a then hi := mid - 1 else if v > b then lo := mid + 1 else found := true
  done;
  !found
let ustr_of_hex (h : Stdlib.String.t) : n list =
  match utf8_decode (unhex h) with Some s -> s | None -> failwith "invalid utf8"
let uhex (s : n list) : Stdlib.String.t = hex (utf8 s)
let aerr_s = function MissingParts -> "MissingParts" | InvalidUser -> "InvalidUser" | InvalidDomain -> "InvalidDomain"
let addr_res = function
  | Ok a -> Printf.sprintf "ok\t%s\t%s" (uhex a.a_user) (uhex a.a_domain)
  | Err e -> "err\t" ^ aerr_s e
  | Panic -> "panic"
(* oracle answers supplied on the request line: idna(domain), ip(strip domain), ip(strip idna(domain)) *)
let mk_oracles (dom : n list) (idna_h : Stdlib.String.t) (ip1 : Stdlib.String.t) (ip2 : Stdlib.String.t) =
  let idna_ans = if idna_h = "!" then None else Some (ustr_of_hex idna_h) in
  let idna x = if x = dom then idna_ans else None in
  let ip_ok x =
    if x = strip_brackets dom then ip1 = "1"
    else (match idna_ans with Some d' when x = strip_brackets d' -> ip2 = "1" | _ -> false) in
  (idna, ip_ok)
let rec last_at (s : n list) : n list =
  (* part after the last '@' (whole string if none) *)
  let rec go l acc = match l with [] -> acc | c :: r -> if int_of_n c = 64 then go r r else go r acc in
  go s s

let cte_s = function SevenBit -> "7bit" | EightBit -> "8bit" | QuotedPrintable -> "quoted-printable" | Base64 -> "base64" | Binary -> "binary"
let cte_of = function "7bit" -> SevenBit | "8bit" -> EightBit | "quoted-printable" -> QuotedPrintable | "base64" -> Base64 | _ -> Binary

(* oracle table for several domains: entries dhex,idna|!,ip1,ip2 joined by ';' *)
let mk_oracle_table (tbl : Stdlib.String.t) =
  let entries = List.map (fun e -> match split ',' e with
    | [d; idn; ip1; ip2] -> (ustr_of_hex d, (if idn = "!" then None else Some (ustr_of_hex idn)), ip1 = "1", ip2 = "1")
    | _ -> failwith "oracle entry") (split ';' tbl) in
  let idna x = (try let (_, a, _, _) = List.find (fun (d, _, _, _) -> d = x) entries in a with Not_found -> None) in
  let ip_ok x =
    List.exists (fun (d, a, i1, i2) ->
      (i1 && x = strip_brackets d) || (match a with Some d' -> i2 && x = strip_brackets d' | None -> false)) entries in
  (idna, ip_ok)
let opt_hex = function None -> "!" | Some n -> uhex n
let mb_s (m : mailbox) = opt_hex m.mb_name ^ "," ^ uhex m.mb_email
let mberr_s = function MInvalidInput -> "InvalidInput" | MInvalidUser -> "InvalidUser" | MInvalidDomain -> "InvalidDomain"
let raw_s (n, (u, d)) = opt_hex n ^ "," ^ uhex u ^ "," ^ uhex d

let parse_bop (s : Stdlib.String.t) : bop =
  let mb n e = { mb_name = (if n = "!" then None else Some (ustr_of_hex n)); mb_email = ustr_of_hex e } in
  match split ',' s with
  | ["from"; n; e] -> BList (HFrom, mb n e)
  | ["to"; n; e] -> BList (HTo, mb n e)
  | ["cc"; n; e] -> BList (HCc, mb n e)
  | ["bcc"; n; e] -> BList (HBcc, mb n e)
  | ["reply_to"; n; e] -> BList (HReplyTo, mb n e)
  | ["sender"; n; e] -> BSender (mb n e)
  | ["envelope"; f; tos] -> BEnvelope { env_from = (if f = "!" then None else Some (ustr_of_hex f)); env_to = List.map ustr_of_hex (split '|' tos) }
  | ["keepbcc"] -> BKeepBcc
  | _ -> failwith ("bop " ^ s)
let build_res_s = function
  | Ok (e, bcc) -> Printf.sprintf "ok\t%s\t%s\t%s" (opt_hex e.env_from) (String.concat "|" (List.map uhex e.env_to)) (b01 bcc)
  | Err MissingFrom -> "err\tMissingFrom" | Err TooManyFrom -> "err\tTooManyFrom" | Err MissingTo -> "err\tMissingTo"
  | Panic -> "PANIC"

let dispatch (f : Stdlib.String.t list) : Stdlib.String.t =
  match f with
  | ["codec.encode"; st; m] ->
      let (s, o) = encode (cstate_of_int (int_of_string st)) (unhex m) in
      Printf.sprintf "%d\t%s" (int_of_cstate s) (hex o)
  | ["codec.wire"; m] -> hex (wire (unhex m))
  | ["spec.server_data"; w] -> opt_pair (server_data (unhex w))
  | ["resp.parse"; i] ->
      (match parse_response (unhex i) with
       | Done (r, rest) -> Printf.sprintf "done\t%d\t%s\t%s" (int_of_code r.rcode) (hexlist r.rlines) (hex rest)
       | Incomplete -> "incomplete" | Error -> "error" | Failure -> "failure")
  | ["serverinfo"; c; ls] ->
      (match from_response { rcode = code_of_int (int_of_string c); rlines = unhexlist ls } with
       | Ok i -> info_s i | Err e -> err_s e | Panic -> "panic")
  | ["b64.enc"; i] -> hex (b64enc (unhex i))
  | ["b64.dec"; i] -> (match b64dec (unhex i) with Some o -> "ok\t" ^ hex o | None -> "err")
  | ["utf8.valid"; i] -> b01 (utf8_valid (unhex i))
  | ["split_ws"; i] -> hexlist (split_ws (unhex i))
  | ["mv.parse"; b] ->
    (match mime_version_parse (unhex b) with Some (x, y) -> Printf.sprintf "some\t%d\t%d\t%s" (int_of_n x) (int_of_n y) (hex (mime_version_display x y)) | None -> "none")
  | ["cd.parse"; b] ->
    (match cd_parse (unhex b) with Some (k, Some f) -> "some\t" ^ hex (cd_raw k f) | Some (k, None) -> "some\t" ^ hex k | None -> "none")
  | ["cte.parse"; b] ->
    (match cte_parse (unhex b) with Some e -> "some\t" ^ hex (cte_display e) | None -> "none")
  | ["date.display"; secs] ->
    (match of_secs (z_of_string secs) with Some d -> "some\t" ^ hex (date_display d) | None -> "PANIC")
  | ["date.parse"; b] ->
    (match date_parse (unhex b) with Some d -> Printf.sprintf "some\t%s\t%s" (string_of_z (to_secs d)) (hex (date_display d)) | None -> "none")
  | ["xtext"; i] -> hex (xtext (unhex i))
  | ["auth.response"; m; u; p; c] ->
      (match mech_response (mech_of_char m.[0]) (unhex u) (unhex p) (if c = "!" then None else Some (unhex c)) with
       | Ok o -> "ok\t" ^ hex o | Err e -> err_s e | Panic -> "panic")
  | ["client.run"; hello; sc; ops] ->
      let ((c, rs), us) = run_session (unhex hello) (List.map parse_chunk (split ';' sc)) (List.map parse_op (split ';' ops)) in
      Printf.sprintf "%s\t%s\t%s"
        (match c with Ok i -> info_s i | Err e -> err_s e | Panic -> "panic")
        (String.concat ";" (List.map cres_s rs)) (String.concat ";" (List.map unit_s us))
  | ["addr.from_str"; h; idn; ip1; ip2] ->
      (match utf8_decode (unhex h) with
       | None -> "invalid-utf8"
       | Some s -> let (idna, ip_ok) = mk_oracles (last_at s) idn ip1 ip2 in
                   addr_res (addr_from_str alnum_fn idna ip_ok s))
  | ["addr.new"; u; d; idn; ip1; ip2] ->
      (match utf8_decode (unhex u), utf8_decode (unhex d) with
       | Some u, Some d -> let (idna, ip_ok) = mk_oracles d idn ip1 ip2 in
                           addr_res (addr_new alnum_fn idna ip_ok u d)
       | _, _ -> "invalid-utf8")
  | ["spec.xdec"; h] -> (match xdec (unhex h) with Some o -> "ok\t" ^ hex o | None -> "err")
  | ["hdr.value"; name; v] ->
      (match header_value_encode (unhex name) (unhex v) with
       | Ok e -> hex (header_line (unhex name) e) | Err _ -> "err" | Panic -> "panic")
  | ["hdr.name"; n] -> b01 (header_name_ok (unhex n))
  | ["hdr.mailboxes"; hname; ms] ->
      let parse_mb s = match split ',' s with
        | [n; e] -> ((if n = "!" then None else Some (unhex n)), unhex e)
        | _ -> failwith "mb" in
      (match mailboxes_header_encode (unhex hname) (List.map parse_mb (split ';' ms)) with
       | Ok e -> hex (header_line (unhex hname) e) | Err _ -> "err" | Panic -> "panic")
  | ["hdr.cdisp"; kind; fname] ->
      (match content_disposition_encode (unhex kind) (unhex fname) with
       | Ok e -> hex (header_line (unhex "436f6e74656e742d446973706f736974696f6e") e) | Err _ -> "err" | Panic -> "panic")
  | ["spec.header_block"; b] ->
      (match header_block (unhex b) with
       | Some (fs, body) -> Printf.sprintf "some\t%s\t%s" (String.concat "|" (List.map (fun (n, v) -> hex n ^ "=" ^ hex v) fs)) (hex body)
       | None -> "none")
  | ["spec.unfold"; b] -> hex (unfold (unhex b))
  | ["spec.lines"; b] -> hexlist (lines_of (unhex b))
  | ["spec.decode_unstructured"; b] -> hex (decode_unstructured (unhex b))
  | ["spec.decode_phrase"; b] -> (match decode_phrase (unhex b) with Some d -> "some\t" ^ hex d | None -> "none")
  | ["spec.decode_word"; b] -> (match decode_word (unhex b) with Some d -> "some\t" ^ hex d | None -> "none")
  | ["spec.decode_disposition"; b] ->
      (match decode_disposition (unhex b) with Some (k, f) -> Printf.sprintf "some\t%s\t%s" (hex k) (hex f) | None -> "none")
  | ["body.new"; st; b] -> let (o, e) = body_new (st = "1") (unhex b) in cte_s e ^ "\t" ^ hex o
  | ["body.with_enc"; st; e; b] ->
      (match body_new_with_encoding (st = "1") (unhex b) (cte_of e) with
       | Ok (o, e') -> "ok\t" ^ cte_s e' ^ "\t" ^ hex o | Err x -> "err\t" ^ hex x | Panic -> "panic")
  | ["body.crlf"; b] -> hex (in_place_crlf (unhex b))
  | ["spec.crlf"; b] -> hex (crlf_spec (unhex b))
  | ["spec.qp_decode"; b] -> (match qp_decode (unhex b) with Some o -> "some\t" ^ hex o | None -> "none")
  | ["spec.b64_body_decode"; b] -> (match b64_body_decode (unhex b) with Some o -> "some\t" ^ hex o | None -> "none")
  | ["spec.cte_ok"; e; b] ->
      b01 (match cte_of e with SevenBit -> sevenbit_ok (unhex b) | QuotedPrintable -> qp_lines_ok (unhex b) | Base64 -> b64_lines_ok (unhex b) | _ -> true)
  | ["mbox.display"; n; e] ->
      (match utf8_decode (unhex e), (if n = "!" then Some None else (match utf8_decode (unhex n) with Some x -> Some (Some x) | None -> None)) with
       | Some e, Some n -> (match show_mailbox { mb_name = n; mb_email = e } with Some o -> "ok\t" ^ uhex o | None -> "fmt-error")
       | _, _ -> "invalid-utf8")
  | ["mboxes.display"; ms] ->
      let parse_mb s = match split ',' s with
        | [n; e] -> { mb_name = (if n = "!" then None else Some (ustr_of_hex n)); mb_email = ustr_of_hex e }
        | _ -> failwith "mb" in
      (match show_mailboxes (List.map parse_mb (split ';' ms)) with Some o -> "ok\t" ^ uhex o | None -> "fmt-error")
  | ["mbox.parse_raw"; h] ->
      (match utf8_decode (unhex h) with
       | None -> "invalid-utf8"
       | Some s -> (match parse_mailbox_raw s with Some x -> "some\t" ^ raw_s x | None -> "none"))
  | ["mboxes.parse_raw"; h] ->
      (match utf8_decode (unhex h) with
       | None -> "invalid-utf8"
       | Some s -> (match parse_mailbox_list_raw s with Some xs -> "some\t" ^ String.concat ";" (List.map raw_s xs) | None -> "none"))
  | ["mbox.parse"; h; tbl] ->
      (match utf8_decode (unhex h) with
       | None -> "invalid-utf8"
       | Some s -> let (idna, ip_ok) = mk_oracle_table tbl in
                   (match mailbox_from_str alnum_fn idna ip_ok s with
                    | Ok m -> "ok\t" ^ mb_s m | Err e -> "err\t" ^ mberr_s e | Panic -> "panic"))
  | ["mboxes.parse"; h; tbl] ->
      (match utf8_decode (unhex h) with
       | None -> "invalid-utf8"
       | Some s -> let (idna, ip_ok) = mk_oracle_table tbl in
                   (match mailboxes_from_str alnum_fn idna ip_ok s with
                    | Ok ms -> "ok\t" ^ String.concat ";" (List.map mb_s ms) | Err e -> "err\t" ^ mberr_s e | Panic -> "panic"))
  | ["hdrs.ops"; ops] ->
      let parse_op s = match split ',' s with
        | ["set"; n; v] -> HSet (unhex n, unhex v)
        | ["get"; n] -> HGet (unhex n)
        | ["remove"; n] -> HRemove (unhex n)
        | _ -> failwith "hop" in
      let (rs, hs) = run_hops (List.map parse_op (split ';' ops)) [] in
      let r_s = function HRNone -> "none" | HRSome v -> "some:" ^ hex v | HRUnit -> "unit" | HRPanic -> "panic" in
      String.concat ";" (List.map r_s rs) ^ "\t" ^ hex (show_headers hs)
  | ["builder.ops"; ops; tbl] ->
      let (idna, ip_ok) = mk_oracle_table tbl in
      build_res_s (build_ops alnum_fn idna ip_ok (List.map parse_bop (split ';' ops)))
  | ["builder.fields"; ops; kind] ->
      (* the names of the fields of the built message, lower-cased, in the order of the header section *)
      let parse_fop s = match split ':' s with
        | ["from"] -> FFrom | ["to"] -> FTo | ["cc"] -> FCc | ["bcc"] -> FBcc | ["reply_to"] -> FReplyTo | ["sender"] -> FSender
        | ["date"] -> FDate | ["subject"] -> FSubject | ["mimeversion"] -> FMimeVersion
        | ["hdr"; n] -> FHeader (unhex n) | ["keepbcc"] -> FKeepBcc | ["envelope"] -> FEnvelope
        | _ -> failwith "fop" in
      let ops = if ops = "" then [] else List.map parse_fop (split ';' ops) in
      hexlist (fields_after ops (if kind = "raw" then KRaw else KMime))
  | ["spec.build"; ops] -> build_res_s (spec_build (List.map parse_bop (split ';' ops)))
  | ["pool.replay"; mx; evs] ->
      (* events ';'-separated; the pseudo event "obs" prints the model's idle-set size at that point *)
      let rec nat_of_int i = if i <= 0 then O else S (nat_of_int (i - 1)) in
      let rec int_of_nat = function O -> 0 | S k -> 1 + int_of_nat k in
      let c s = nat_of_int (int_of_string s) in
      let ev s = match split ':' s with
        | ["pop"; x] -> EPop (c x) | ["popempty"] -> EPopEmpty | ["popshut"] -> EPopShutdown
        | ["pok"; x] -> EProbeOk (c x) | ["pfail"; x] -> EProbeFail (c x)
        | ["cok"; x] -> EConnectOk (c x) | ["cfail"] -> EConnectFail
        | ["sok"; x] -> ESendOk (c x) | ["serr"; x; b] -> ESendErr (c x, b = "1")
        | ["rpark"; x] -> ERecyclePark (c x) | ["rclose"; x] -> ERecycleClose (c x)
        | ["shutdown"] -> EShutdown0
        | ["mscan"] -> EMaintScan [] | ["mscan"; l] -> EMaintScan (List.map c (split ',' l))
        | ["mexit"] -> EMaintExit | ["mcok"; x] -> EMaintConnectOk (c x) | ["mpush"; x] -> EMaintPush (c x)
        | ["mdrop"; x] -> EMaintDropNew (c x) | ["mabort"; x] -> EMaintAbort (c x)
        | _ -> failwith ("pool event " ^ s) in
      let idle_s p = match p.idle with None -> "shut" | Some l -> "[" ^ String.concat "," (List.map (fun x -> string_of_int (int_of_nat x)) l) ^ "]" in
      let obs = Buffer.create 16 in
      let rec go p i = function
        | [] -> (None, p)
        | "obs" :: r -> Buffer.add_string obs (idle_s p); Buffer.add_char obs ' '; go p (i + 1) r
        | e :: r -> (match step p (ev e) with Some p' -> go p' (i + 1) r | None -> (Some i, p)) in
      let (rej, p) = go (p_init (nat_of_int (int_of_string mx))) 0 (split ';' evs) in
      Printf.sprintf "%s\t%s\t%d,%d,%d,%d\t%s"
        (match rej with None -> "ok" | Some i -> "rej:" ^ string_of_int i) (idle_s p)
        (int_of_nat p.sends_ok) (int_of_nat p.commits) (int_of_nat p.sends) (int_of_nat p.pending) (Buffer.contents obs)
  | ["mime.format"; d] ->
      (* same token language as harness/src/mime.rs; boundaries must be filled in *)
      let toks = ref (split ' ' d) in
      let next () = match !toks with x :: r -> toks := r; x | [] -> failwith "mime eof" in
      let rec pd () : pdesc =
        match next () with
        | "S" ->
            let kind = next () in let a1 = next () in let a2 = next () in let st = next () in let c = next () in
            let k = (match kind with
              | "plain" -> KPlain | "html" -> KHtml
              | "attach" -> KAttach (unhex a1, unhex a2)
              | "inline" -> KInline (unhex a1, unhex a2)
              | "pre" ->
                  let str x = Stdlib.String.concat "" (List.map (fun c -> Stdlib.String.make 1 (Char.chr (int_of_n c))) x) in
                  (match Stdlib.String.split_on_char ',' (str (unhex a2)) with
                   | [h; be] -> KPre (unhex a1, (if h = "!" then None else Some (cte_of h)), (if be = "!" then None else Some (cte_of be)))
                   | _ -> failwith "pre spec")
              | _ -> KCustom (unhex a1, (if a2 = "!" then None else Some (cte_of (Stdlib.String.concat "" (List.map (fun x -> Stdlib.String.make 1 (Char.chr (int_of_n x))) (unhex a2))))))) in
            DSingle (k, st = "1", unhex c)
        | "M" ->
            let kind = next () in let a1 = next () in let a2 = next () in let b = next () in let n = int_of_string (next ()) in
            let k = (match kind with "mixed" -> MMixed | "alternative" -> MAlternative | "related" -> MRelated
              | "encrypted" -> MEncrypted (unhex a1) | _ -> MSigned (unhex a1, unhex a2)) in
            let rec kids i = if i = 0 then [] else let x = pd () in x :: kids (i - 1) in
            DMulti (k, unhex b, kids n)
        | t -> failwith ("mime token " ^ t) in
      (match format_desc (pd ()) with Ok o -> "ok\t" ^ hex o | Err _ -> "err\tbody-refused" | Panic -> "PANIC")
  | ["mime.parse"; fuel; h] ->
      let rec nat_of_int i = if i <= 0 then O else S (nat_of_int (i - 1)) in
      let fields_s fs = String.concat "," (List.map (fun (n, v) -> hex n ^ ":" ^ hex v) fs) in
      let rec tree_s = function
        | TLeaf (fs, body) -> "L(" ^ fields_s fs ^ ";" ^ hex body ^ ")"
        | TNode (fs, ps) -> "N(" ^ fields_s fs ^ ";" ^ String.concat " " (List.map tree_s ps) ^ ")" in
      (match parse_entity (nat_of_int (int_of_string fuel)) (unhex h) with Some t -> "some\t" ^ tree_s t | None -> "none")
  | ["mime.ct_boundary"; v] -> (match ct_boundary (unhex v) with Some b -> "some\t" ^ hex b | None -> "none")
  | ["transport.model"; from; tos; msg] ->
      let e = { e_from0 = (if from = "!" then None else Some (unhex from)); e_to0 = unhexlist tos } in
      Printf.sprintf "%s\t%s\t%s" (hexlist (sendmail_args e)) (hex (json_envelope e)) (b01 (stub_keeps_octets (unhex msg)))
  | ["spec.read_envelope"; j] ->
      (match read_envelope (unhex j) with
       | Some (f, tos) -> Printf.sprintf "some\t%s;%s" (match f with Some x -> hex x | None -> "!") (hexlist tos)
       | None -> "none")
  | ["spec.sendmail_reads"; args] ->
      (match sendmail_reads (unhexlist args) with
       | Some a -> Printf.sprintf "some\t%s\t%s;%s" (b01 a.sm_i) (match a.sm_f with Some x -> hex x | None -> "!") (hexlist a.sm_operands)
       | None -> "none")
  | ["dkim.model_body"; c; b] -> hex (canon_body (if c = "r" then Relaxed else Simple) (unhex b))
  | ["dkim.model_hrelax"; b] -> hex (canon_headers_relaxed (unhex b))
  | ["dkim.model_sig_field"; e; sg] -> hex (sig_field (unhex e) (unhex sg))
  | ["spec.dkim_body"; c; b] -> hex (spec_body (c = "r") (unhex b))
  | ["dkim.certify"; b] -> if certify (unhex b) then "1" else "0"
  | ["spec.dkim_field"; b] -> hex (spec_field_relaxed (unhex b))
  | ["spec.dkim_delete_b"; b] -> hex (delete_b (unhex b))
  | ["tls.run"; mode; peer; prm; cr; hello; script; from; tos; msg] ->
      let m = (match mode with "opportunistic" -> TOpportunistic | "required" -> TRequired | "wrapper" -> TWrapper | _ -> TNone) in
      let pt = (match peer with "good" -> PCert CGood | "wrongname" -> PCert CWrongName | "selfsigned" -> PCert CSelfSigned | "expired" -> PCert CExpired | "silent" -> PSilent | _ -> PNoTls) in
      let p = { add_root = prm.[0] = '1'; accept_invalid_certs = prm.[1] = '1'; accept_invalid_hostnames = prm.[2] = '1' } in
      let c = (if cr = "!" then None else (match split ',' cr with
        | [ms; u; pw] -> Some ((mechs_of_string ms, unhex u), unhex pw)
        | _ -> failwith "creds")) in
      let sc = List.map parse_chunk (split ';' script) in
      let env = { e_from = (if from = "!" then None else Some (unhex from)); e_to = unhexlist tos } in
      let (r, t) = tsend m (unhex hello) pt p c sc env (unhex msg) in
      Printf.sprintf "%s\t%s\t%s" (rres_s r)
        (String.concat ";" (List.map unit_s (List.rev (clear_units t))))
        (String.concat ";" (List.map unit_s (List.rev (tls_units t))))
  | fn :: _ -> "UNKNOWN-FN " ^ fn
  | [] -> "EMPTY"

let () =
  try
    while true do
      let line = input_line stdin in
      if line <> "" then begin
        let f = String.split_on_char '\t' line in
        print_string (dispatch f); print_newline ()
      end
    done
  with End_of_file -> ()
