#!/bin/bash
# try_mutant.sh <property> <patch.diff> [tier]: apply the patch to /repo, run the property's check, undo.
P=$1; D=$2; T=${3:-quick}
cd /repo || exit 2
git diff --quiet || { echo "/repo not clean"; exit 2; }
git apply "$D" || { echo "patch does not apply"; exit 3; }
cd /verif && rm -rf replays && bin/check "$P" --tier "$T" 2>&1 | grep -E "VIOLATION|KNOWN-FINDING|harness build FAILED|Traceback|Error" | head -5
RC=${PIPESTATUS[0]}
for f in /verif/replays/$P-*.json; do [ -f "$f" ] && python3 -c "
import json,sys
d=json.load(open('$f'))
print('   replay:', {k:(str(v)[:160]) for k,v in d.items() if k in ('kind','what','fault','entry','flavor','message_hex','input_hex','line')})"; done
git -C /repo checkout -q -- .
echo "check_rc=$RC"
