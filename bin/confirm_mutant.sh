#!/bin/bash
# confirm_mutant.sh <worktree> <mutant-dir> : checks (1) demo passes on the clean tree, (2) with the patch the
# existing lib tests pass and the demo fails.  Writes <mutant-dir>/confirm.log; exit 0 iff confirmed.
W=$1; M=$2
cd "$W" || exit 2
export CARGO_TARGET_DIR=$W/target CARGO_NET_OFFLINE=true
FEAT="--features tokio1,tokio1-native-tls,dkim,serde,file-transport-envelope,sendmail-transport"
git checkout -q -- . ; git clean -fdq tests/ >/dev/null 2>&1
DEMO=$(ls "$M"/*.rs | head -1); NAME=$(basename "$DEMO" .rs)
LOG=$M/confirm.log; : > "$LOG"
cp "$DEMO" tests/
echo "== clean tree: demo" >> "$LOG"
timeout 900 cargo test --offline $FEAT --test "$NAME" >> "$LOG" 2>&1; A=$?
git apply "$M/patch.diff" || { echo "patch does not apply" >> "$LOG"; exit 3; }
echo "== mutant: existing lib tests" >> "$LOG"
timeout 900 cargo test --offline --lib >> "$LOG" 2>&1; B=$?
echo "== mutant: demo" >> "$LOG"
timeout 900 cargo test --offline $FEAT --test "$NAME" >> "$LOG" 2>&1; C=$?
git checkout -q -- . ; rm -f "tests/$NAME.rs"
echo "clean_demo_rc=$A mutant_lib_rc=$B mutant_demo_rc=$C" | tee -a "$LOG"
[ $A -eq 0 ] && [ $B -eq 0 ] && [ $C -ne 0 ]
