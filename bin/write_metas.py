#!/usr/bin/env python3
"""write_metas.py <round> <json file with {id: [what, needs, detection]}> : writes seeded/<id>/meta.json"""
import json, sys, subprocess
rnd = int(sys.argv[1]); M = json.load(open(sys.argv[2]))
base = subprocess.check_output(["git", "-C", "/repo", "rev-parse", "--short", "HEAD"]).decode().strip()
nth = {2: "second", 3: "third", 4: "fourth", 5: "fifth", 6: "sixth", 7: "seventh", 8: "eighth", 9: "ninth"}[rnd]
for m, (what, needs, det) in M.items():
    d = "/verif/seeded/" + m
    log = open(d + "/confirm.log").read().strip().splitlines()[-1]
    json.dump({"property": m[:3], "round": rnd, "what": what, "needs_to_manifest": needs,
               "source": "independent sub-agent (%s round) given only the property text, the earlier ideas to avoid, and a scratch worktree" % nth,
               "confirmed": {"how": "bin/confirm_mutant.sh in the scratch worktree: demo on clean tree (must pass), cargo test --offline --lib with the patch (must pass), demo with the patch (must fail)", "result": log},
               "detection": det, "base_commit": base}, open(d + "/meta.json", "w"), indent=1)
print(len(M), "metas written")
