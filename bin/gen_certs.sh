#!/bin/sh
# Generates the static test PKI used by the C06 check (committed under /verif/certs; regenerate only by hand).
set -e
cd "$(dirname "$0")/../certs"
D=36500
openssl req -x509 -newkey rsa:2048 -nodes -keyout ca.key -out ca.pem -days $D -subj "/CN=verif test CA" \
  -addext "basicConstraints=critical,CA:TRUE" -addext "keyUsage=critical,keyCertSign,cRLSign" 2>/dev/null
mk() { # name san extra-x509-args...
  n=$1; san=$2; shift 2
  openssl req -newkey rsa:2048 -nodes -keyout $n.key -out $n.csr -subj "/CN=$san" 2>/dev/null
  printf "subjectAltName=DNS:%s\nbasicConstraints=CA:FALSE\nkeyUsage=digitalSignature,keyEncipherment\nextendedKeyUsage=serverAuth\n" "$san" > $n.ext
  openssl x509 -req -in $n.csr -CA ca.pem -CAkey ca.key -CAcreateserial -out $n.pem -extfile $n.ext "$@" 2>/dev/null
  openssl pkcs8 -topk8 -nocrypt -in $n.key -out $n.pk8
  rm -f $n.csr $n.ext
}
mk good localhost -days $D
mk wrongname other.example -days $D
mk expired localhost -not_before 20200101000000Z -not_after 20200201000000Z
# self-signed (untrusted), right name
openssl req -x509 -newkey rsa:2048 -nodes -keyout selfsigned.key -out selfsigned.pem -days $D -subj "/CN=localhost" \
  -addext "subjectAltName=DNS:localhost" 2>/dev/null
openssl pkcs8 -topk8 -nocrypt -in selfsigned.key -out selfsigned.pk8
rm -f ca.srl
ls
