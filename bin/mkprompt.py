#!/usr/bin/env python3
"""mkprompt.py <property id> <round number> : writes /tmp/prompt<round>_<id>.txt, the brief given to an independent
agent that seeds property-breaking changes in a scratch worktree /tmp/mut<round>_<id> (nothing from /verif is shown to
it except the property text and one-line summaries of the ideas already tried, so that it does something different)."""
import json, sys, glob
pid, rnd = sys.argv[1], int(sys.argv[2])
props = {json.loads(l)['id']: json.loads(l) for l in open('/verif/properties.jsonl')}
d = props[pid]
W = "/tmp/mut%d_%s" % (rnd, pid)
ideas = ["- " + json.load(open(p))['what'] for p in sorted(glob.glob('/verif/seeded/%s-m*/meta.json' % pid))]
nth = {1: "FIRST", 2: "SECOND", 3: "THIRD", 4: "FOURTH", 5: "FIFTH", 6: "SIXTH", 7: "SEVENTH", 8: "EIGHTH", 9: "NINTH"}[rnd]
txt = f'''You are helping test a verification framework by seeding realistic bugs ("mutants") into a Rust library. Work ONLY inside the scratch git worktree {W} (a checkout of the `lettre` email library, version 0.11.15 plus a few fixes). Do NOT read or write anything under /verif or /repo. There is no network; use `cargo ... --offline` and set CARGO_TARGET_DIR={W}/target.

The property under test ({pid}): "{d['title']}"
Statement: {d['statement']}
Quantified over: {d['quantifier']['text']}
Relevant files: {", ".join(d['anchors']['files'])}

Task: produce TWO different, subtle source changes to the library (each on its own, against the clean worktree) that BREAK this property while (a) the crate still compiles with `cargo build --offline --features tokio1,tokio1-native-tls` and (b) the existing unit tests still pass: `cargo test --offline --lib`. The changes should look like plausible refactorings / optimisations / "fixes" a maintainer might make, not sabotage, and should need something specific to manifest (a particular input shape, interleaving, fault position, configuration value, sync vs async client, history of earlier calls...) - avoid changes that break every single use. Lines marked `#[cfg(lettre_verif)]` are inert instrumentation: leave them in place and consistent (keep them next to the statements they annotate; if you move code, move them with it), do not rely on them.

For each change also write a demonstration: a self-contained Rust integration test file (placed in tests/, using only the crate's public API and std; write a small independent reader / decoder / scripted server in the test if you need one) that PASSES on the clean worktree and FAILS with your change applied. Run it with `cargo test --offline --features tokio1,tokio1-native-tls,dkim,serde,file-transport-envelope,sendmail-transport --test <name>`. Make the demo deterministic (use generous timeouts, no flaky sleeps where possible).

Deliver, for k in 1,2: {W}/out/m<k>/patch.diff (output of `git diff` for the library change only, NOT including the demo test), {W}/out/m<k>/<demo_name>.rs (the demo test file), {W}/out/m<k>/notes.md (what the change is, why it breaks the property, what is needed for it to manifest). After writing each patch.diff, restore the worktree to clean (`git checkout -- . && git clean -fdq tests/`) before starting the next one, and leave the worktree clean at the end (the out/ directory is untracked and stays). Verify yourself that on the clean tree the demo passes, and with the patch applied the lib tests pass and the demo fails. In your final answer, summarise each mutant in 3-4 lines.
'''
if ideas:
    txt += f"\nThis is a {nth} round: other people already tried the following ideas for this property - do something genuinely different (a different mechanism, a different file, a different clause of the property, a different entry point of the public API):\n" + "\n".join(ideas) + "\n"
open("/tmp/prompt%d_%s.txt" % (rnd, pid), "w").write(txt)
print("/tmp/prompt%d_%s.txt" % (rnd, pid))
