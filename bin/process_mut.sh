#!/bin/bash
# process_mut.sh <property> <round>: copy the two changes an agent left in /tmp/mut<round>_<P>/out into seeded/, confirm them there,
# then try each against the property's quick check (applied to /repo and reverted by try_mutant.sh).
P=$1; R=$2; cd /verif; unset CARGO_TARGET_DIR
for k in 1 2; do
  n=$(( (R-1)*2 + k )); d=seeded/$P-m$n; mkdir -p $d; cp /tmp/mut${R}_$P/out/m$k/* $d/
  echo "== $P-m$n: $(bin/confirm_mutant.sh /tmp/mut${R}_$P /verif/$d | tail -1)"
  timeout 2400 bin/try_mutant.sh $P /verif/$d/patch.diff 2>&1 | grep -v KNOWN | tail -3 | cut -c1-330
done
